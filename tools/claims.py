# Executed by gen_manifest.py. One claim(...) per property that has a working check.
HOOKS = {
    "guard": "none (no source hooks are needed so far; every check uses public API)",
    "enable": "n/a",
    "baseline_off_cmd": BASELINE_OFF,
    "source_commits": [],
    "add_only": True,
}
ENGINES_EXTRA = []
NOTES = ("Exit protocol of every command: 0 = held on everything explored, 1 = violation (VIOLATION line), "
         "2 = inconclusive/infrastructure (build failure, watchdog, generator-health minimum missed). "
         "VERIF_SEED selects the PRNG stream; runs are a pure function of (code, seed, tier). "
         "known_findings.json lists genuine defects (known/fixed).")

claim("C09",
      technique="exhaustive boundary-lattice enumeration + seeded proptest pairs against an exact i128 reference",
      text=("Every constructor, parser, byte codec and operator impl of Zatoshis/ZatBalance is compared with exact "
            "i128 arithmetic: exhaustively on all pairs of a 40-point boundary lattice (0, +-1, +-MAX_MONEY+-{0,1,2}, "
            "i64/u64 extremes) x multipliers/divisors, and on millions of seeded random operands, lists and byte "
            "patterns. Held-on-everything-explored, not a proof."),
      note="Trusted: Rust i128 arithmetic; proptest 1.4.0 generators; harness built with overflow checks and debug assertions on.")

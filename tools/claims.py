# Executed by gen_manifest.py. One claim(...) per property that has a working check.
HOOKS = {
    "guard": "none (no source hooks are needed so far; every check uses public API)",
    "enable": "n/a",
    "baseline_off_cmd": BASELINE_OFF,
    "source_commits": [],
    "add_only": True,
}
ENGINES_EXTRA = []
NOTES = ("Exit protocol of every command: 0 = held on everything explored, 1 = violation (VIOLATION line), "
         "2 = inconclusive/infrastructure (build failure, watchdog, generator-health minimum missed). "
         "VERIF_SEED selects the PRNG stream; runs are a pure function of (code, seed, tier). "
         "known_findings.json lists genuine defects (known/fixed).")

claim("C08",
      technique="model-based stateful proptest: every proposal the SQLite wallet returns is checked note by note against the model ledger, a model lock table and a model pending-transaction table",
      text=("chainsim wallet histories (receipts/spends in three pools and all key scopes, partial scans, rewinds/reorgs) followed by 6-16 proposal ops: "
            "propose_transfer / propose_standard_transfer_to_address / propose_send_max_transfer / ZIP 318 canonical denominations with generated payment "
            "requests, amounts around the selectable total, ConfirmationsPolicy, SpendPolicy, LockedInputPolicy over 3 owners, lock_inputs, chain advance past "
            "lock and transaction expiry, unlock/clear, a spend reorganised away (orphaned unexpired spender), and create_proposed_transactions+store of a pending "
            "transaction. Each selected note must belong to the account, be mined on the current scanned branch, unspent (mined, orphaned-unexpired or pending "
            "spender), deep enough for the policy, not locked by a non-admitted owner, in a permitted pool, witnessable at the step anchor with a witness hashing "
            "to the true root, selected once; every step must balance exactly; a proposal never exceeds all unspent mined value; get_locked_outputs equals the "
            "model lock table after every op. A second sub-check does the same for transparent coins: UTXOs received mined/unmined/coinbase at own, other-account "
            "and foreign addresses, spent by mined, mempool and stored transactions, un-mined by reorganisations, then propose_shielding / propose_shielding_coinbase "
            "/ transfers with a transparent source under generated thresholds, address sets, coinbase filters and policies; every selected coin is checked for "
            "ownership, address scope, spender, confirmations, coinbase maturity, locks and single selection. Executed (stored) Sapling transfers and shielding "
            "transactions are mined a few blocks later and scanned, so that wallet-created change and shielding-output notes exist and the documented confirmation "
            "rule for them (newest shielding input) is asserted on later proposals."),
      note="Not reached: P2SH/imported transparent addresses, transparent change, execution of TEX two-step proposals, pending transactions with Orchard/Ironwood change (need real proving keys). Liveness (a coverable request yields a proposal) is not in the statement and only counted.")

claim("C09",
      technique="exhaustive boundary-lattice enumeration + seeded proptest pairs against an exact i128 reference",
      text=("Every constructor, parser, byte codec and operator impl of Zatoshis/ZatBalance is compared with exact "
            "i128 arithmetic: exhaustively on all pairs of a 40-point boundary lattice (0, +-1, +-MAX_MONEY+-{0,1,2}, "
            "i64/u64 extremes) x multipliers/divisors, and on millions of seeded random operands, lists and byte "
            "patterns. Held-on-everything-explored, not a proof."),
      note="Trusted: Rust i128 arithmetic; proptest 1.4.0 generators; harness built with overflow checks and debug assertions on.")

HOOKS["source_commits"] = []

claim("C01",
      technique="model-based stateful proptest: generated wallet histories vs an independent ledger model + differential against a fresh linear wallet",
      text=("Generated histories (blocks with receipts/spends in Sapling/Orchard/Ironwood to 1-3 accounts and foreign keys, scans of arbitrary "
            "ranges in any order with repeats, tip updates, truncate_to_height and truncate_to_chain_state with and without a chain reorganisation, wallet "
            "transactions mined again after a reorganisation, non-empty birthday frontiers incl. shard boundaries, subtree-root sync rounds, chains > 100 blocks so the "
            "nullifier-tracking floor and pruning engage) are applied to a real SQLite wallet and to a model ledger written from the property text "
            "and the documented expiry rule. After EVERY step total+uneconomic per account and pool and all mined-note rows (txid, index, value, "
            "nullifier, position, height, scope, spent-by) must equal the model; at the end everything is scanned and compared with a fresh wallet "
            "that scans the final chain linearly. A second sub-check (transparent-balances) interleaves such histories with transparent coins (received through "
            "put_received_transparent_utxo and/or decrypt_and_store_transaction, mined / unmined / above the tip / coinbase, to own, other-account and foreign addresses; "
            "spent by mined, mempool and stored transactions; reorganised away and mined again; tip advanced past expiry and coinbase maturity) and compares the "
            "unshielded balance per account and per address with a coin model after every operation and with a fresh wallet at the end. Exploration: held on every "
            "generated history, no proof."),
      note="Trusted: the repository's TestFvk note-encryption helpers used to fabricate compact outputs; incrementalmerkletree frontiers; proptest 1.4.0; the model's reading of tx_unexpired_condition (40-block rule).")

claim("C06",
      technique="model-based stateful proptest: wallet ShardTrees vs true frontiers maintained by the chain model, after every step of generated histories",
      text=("Same history generator as C01 (re-mined transactions, chain-state truncations, non-empty birthday frontiers, shard boundaries, subtree-root hand-overs; "
            "plus busy chains that exceed the 100-checkpoint budget, NU6.3 activating inside the chain, retention intervals 1..12/144). After every step each pool's checkpoints must lie on the current branch with the chain's true position and root, "
            "every witness produced at the position the wallet itself records for an unspent mined note must hash to the true root at that checkpoint, the three pools must be "
            "checkpointed at the same heights (above the pruning horizon) and every scanned retention boundary must have a checkpoint in every pool. "
            "Six genuine defects are listed as known findings, each with a recorded history as a regression sub-check, and excluded by exact trigger so the search continues behind them."),
      note="Trusted: incrementalmerkletree::Frontier for the model's true roots; produced-but-unavailable roots/witnesses are counted, not asserted.")

claim("C07",
      technique="proptest + fixed boundary vectors against an independent u128 ZIP 317 reference and a padding/shape model",
      text=("fee_required is compared exactly with an independent ZIP 317 formula; every Ok balance of Single/MultiOutputChangeStrategy must conserve "
            "value exactly, pay at least (and, with a change output, exactly) the ZIP 317 fee of the recorded final shape incl. padding, respect the "
            "dust policy and split rules and never let the Orchard pool gain value after NU6.3; InsufficientFunds must really be insufficient. "
            "~1M generated cases per quick run over all pools, policies, heights and grid positions."),
      note="Trusted: the reference fee formula (pinned by hand-derived vectors); sapling/orchard builder padding behaves as documented.")

claim("C10",
      technique="proptest differential against an independent ZIP 316/ZIP 173/BIP 350/F4Jumble re-implementation + structured near-valid string mutation",
      text=("Round trips for every address kind and network, unified containers with unknown items, acceptance iff an independent byte-level ZIP 316 "
            "predicate holds (26 defect kinds), canonical re-encoding of every accepted string, F4Jumble bijection on boundary lengths, no panic on "
            "arbitrary and near-valid strings. ~0.9M cases per quick run."),
      note="Trusted: SHA-256/BLAKE2b primitives and the Base58 alphabet shared with the crate; the reference is pinned by the official ZIP 316 vectors.")

claim("C12",
      technique="proptest round trip + grammar-based generation with single-rule violations against an independent ZIP 321 reference parser",
      text=("Requests with 1..8 payments at arbitrary indices, full-Unicode labels/messages, exhaustive structured amounts and every memo length "
            "round-trip exactly; URIs rendered from the ABNF with at most one of 19 violations must be accepted iff the reference accepts; mutated "
            "and arbitrary strings never panic and accepted ones satisfy the ZIP 321 rules and re-render to the same request. ~1.2M cases per quick run."),
      note="Trusted: ZcashAddress string codec shared with the code under test (covered by C10); ambiguous ABNF corners only assert the safety direction.")

claim("C15",
      technique="exhaustive small-domain enumeration + proptest sequences against a pointwise reference map; stateful proptest of the SQLite scan queue and client sync loop",
      text=("SpanningTree: every leaf x single insertion over 8 heights, every ordered pair over 5 heights and every triple of non-empty ranges over 3 "
            "heights (all 7 priorities, force flag, empty ranges) plus 1M random sequences must flatten to the pointwise dominance reference. "
            "Wallet: generated histories (mining, tip updates, partial scans from either end, rewinds, far tip jumps, forced rescans of 1-4 unsorted ranges at every priority) keep the scan_queue a sorted "
            "gap-free merged partition, mark exactly the scanned range, and the documented client loop terminates within a model-computed bound "
            "with everything scanned."),
      note="Trusted: TestState fake chain; update_chain_tip's choice of priority is not modelled. The reorg tree conflict (C06 root cause) is a known finding.")

claim("C16",
      technique="exhaustive boundary-lattice enumeration (3.9M points) + proptest against an independent greedy 1-2-5 reference under a family of adversarial cost oracles",
      text=("Every plan must consist of canonical non-increasing denominations within the cap, be a prefix of the canonical split (reference greedy and "
            "implementation under a zero-cost oracle), conserve value exactly, be drained when the cap is not reached and costs are as assumed, never "
            "touch the RNG and never panic for refusing, over-charging, inconsistent or huge oracle answers, incl. the real plan_preparation oracle."),
      note="Trusted: the reference greedy written from the doc comment; harness built with overflow checks so wrapping shows as a panic.")

claim("C17",
      technique="exhaustive lattice enumeration (classify evidence lattice, grid arithmetic) + proptest with scripted biased RNG streams + brute-force minimum piercing set",
      text=("Delays within cap, non-decreasing saturating broadcast heights, canonical expiries over the full u32 range, permutations, anchor draws vs "
            "a u64 reference candidate set (None iff empty) incl. redraw and earliest_broadcast_height, wake-up schedules validated and compared with "
            "a brute-force minimum for <= 9 transfers, classify monotone / no refutation without negative observation / complete on the whole "
            "evidence lattice under 3 constant sets. ~9.8M evaluations per quick run."),
      note="Trusted: references written from the rustdoc; RNG streams end in a ChaCha tail so rejection loops terminate (the property's own qualification).")

claim("C19",
      technique="differential proptest against an independent Equihash definition checker and Wagner solver; exhaustive bit-flip and parameter-grid enumeration",
      text=("All solutions an independent solver finds for 14 small parameter sets must be accepted; every single-bit flip of solution/input/nonce, "
            "index-level mutations, table-based subtree replacements, near misses and repeated-index pseudo-solutions must AGREE with the definition "
            "checker; every length 0..2L+8 and the (n,k) grid never panic and invalid parameters give Err. The crate's vectors and a mainnet header "
            "(all 11 896 bit flips) pin the reference."),
      note="Trusted: blake2b_simd; the spec section 7.6.1 reading of validity (incl. distinct indices).")

claim("C20",
      technique="model-based proptest of append/truncate sequences against an independent ZIP 221 MMR re-implementation; exhaustive walk of peak configurations; byte-mutation differential of the node codec",
      text=("After every op the root, returned links, appended node data and serialisations must equal a from-scratch rebuild from the leaf list for "
            "V1/V2/V3; fully loaded trees and minimal partial views must agree and a view lacking a needed node must error cleanly; node records incl. "
            "counters beyond MAX_COMPACT_SIZE round-trip byte-for-byte and non-canonical CompactSize forms are rejected. Every leaf count 1..160 is "
            "walked exhaustively per version."),
      note="Trusted: BLAKE2b primitive; real-chain precondition that summed work/counters do not overflow.")

claim("C05",
      technique="model-based proptest of scan_block against the generating model; structured corruption of valid blocks; differential of the batched wallet path across rayon pool sizes in child processes",
      text=("Every field of every ScannedBlock (received outputs with account, value, scope, nullifier, position, change flag; spends of exactly the tracked "
            "nullifiers; all commitments in order with retention marks and one checkpoint per pool; final tree sizes; per-transaction unlinked nullifiers; "
            "block metadata) is compared with what the model encrypted, for chains with several transactions per block and several pools per transaction, "
            "1-3 accounts, foreign keys, tracked/untracked/unknown spends, with and without prior metadata. One generated corruption (height, prev hash, each "
            "tree size, absent metadata, every byte-field length, non-canonical field elements, tx index, txid) must yield the documented error class, never "
            "a panic, and leave the wallet DB byte-identical when it arrives inside a batch. The batched path is run in child processes with 1, 2 and 5 rayon "
            "threads incl. blocks above the 100-output batch threshold and must write exactly the model's rows."),
      note="Trusted: TestFvk helpers that encrypt the outputs; CompactBlock::{hash,prev_hash,height} documented panics are respected. Thread interleavings are sampled, not enumerated. Two server-field panics are known findings.")

claim("C02", category="fault_enumeration",
      technique="fault-injection enumeration over generated (wallet state, write operation) pairs: SQLite VM-step interrupts, commit veto, crash copies at the commit hook, second-connection snapshots and reader/writer interleavings, with canonical full-database dumps as oracle",
      text=("For generated states (wallet histories on file-backed wallets) and 12 kinds of write operation the harness owns the SQLite connection: a reference "
            "run counts VM steps and commits; then enumerated steps are interrupted (about 40 positions per pair in quick, ~700 in thorough; ~5 000 injections per "
            "quick run). Each faulted run must fail leaving every table identical to the pre-state (or succeed with exactly the reference state), a retry must "
            "reproduce the reference state, a vetoed COMMIT must leave the pre-state, a byte copy of the database taken inside the commit hook must recover to the "
            "pre-state, a second connection reading inside one transaction just before the fault must see the pre-state, and get_wallet_summary interleaved with a "
            "committing writer (WAL) must return the pre- or post-state summary. The same procedure covers the SQLite pool-migration store (replace/update/cancel/"
            "store-proved/take-for-broadcast with one real Orchard proof, advance_migration, and the wallet's truncations on states holding migrations; failed write "
            "statements as a second fault kind) and the migration oracle's multi-statement reads interleaved with committing writers. Enumeration is over sampled "
            "positions of sampled pairs, not all of them."),
      note="Trusted: SQLite's own atomic commit below the commit boundary; SQLITE_INTERRUPT as the stand-in for statement-level failure (transaction-control statements are not interrupted half-way); account UUIDs and address row ids are normalised. store_decrypted_tx / store_transactions_to_be_sent / migration-store writes are not yet among the operations.")

claim("C03",
      technique="proptest round trip against an independent reference serialiser + layout-aware byte mutation (located counts/amounts, truncation, header swaps) + libFuzzer campaigns (tx_read, block_header) with consumed-prefix / fixed-point oracles",
      text=("Generated transactions of every (version, branch) pair incl. shapes the repository generator never produces (empty bundles, 252-254 element counts, "
            "script lengths across CompactSize forms, v6 with Ironwood) must serialise to the bytes of an independent reference serialiser, parse back field-by-field "
            "equal with equal txid and auth commitment and re-serialise identically; v1-v4 txid = sha256d. Every located count field in each longer-than-minimal form, "
            "counts of MAX+1, out-of-range amounts and every strict prefix must be rejected; all other mutations must parse to a fixed point or be rejected, never "
            "panic, never read past the reported position. Block headers likewise with hash = sha256d of exactly the consumed bytes. The local zcash_encoding 0.5 "
            "combinators are checked against an own CompactSize codec."),
      note="Trusted: sha2, curve/field types; the registry zcash_encoding 0.4 that zcash_primitives links cannot be mutated in a worktree (Script::read stands in).")

claim("C11",
      technique="proptest differential against an independent ZIP 32 / BIP 32-44 derivation and a Require/Allow/Omit receiver model; exhaustive regression grid; trial decryption matrix",
      text=("USK/UFVK/UIVK and legacy Sapling/transparent encodings round-trip to the same bytes and derive the same addresses; address(j, request) at every level "
            "equals the address assembled from per-pool keys of the underlying crates with exactly the requested-and-supported receivers, errors occur exactly when "
            "the model says, find_address returns the least valid index; keys recognise their own addresses (index, scope) and no stranger's; notes encrypted to a "
            "derived Sapling/Orchard/Ironwood address decrypt (compact and full) under exactly the owner's key of the matching scope."),
      note="Trusted: sapling-crypto and orchard ZIP 32 derivation as shielded reference, hashes and the secp256k1 group law. Behaviour beyond C11's statement (value equality of decoded ExternalIvk, empty child ranges, dependency panics on corrupted spending keys) is counted as observation, not asserted.")

claim("C04",
      technique="proptest differential against an independent ZIP 244 / ZIP 143-243 implementation + metamorphic single-field mutation over a per-version field catalogue",
      text=("For generated v1-v6 transactions the txid, auth commitment and every signature hash (shielded; every transparent input x six hash types incl. SINGLE "
            "beyond the outputs) must equal an independent reference pinned by the 30 published ZIP vectors; v1-v4 txid = sha256d. A 61-entry field catalogue tagged "
            "effecting/authorising per version drives one minimal valid mutation per position (curve points P+G, field elements +-1, amounts +-1, flipped ciphertext/"
            "proof/signature bits, coin value/script): the txid changes iff the position is effecting, authorising data changes the auth commitment only, and each "
            "sighash changes iff it is defined to cover the position (ANYONECANPAY/NONE/SINGLE exclusions). ~190k positions and 2.4M sighash comparisons per quick run."),
      note="Trusted: BLAKE2b/SHA-256, Jubjub/Pallas arithmetic, collision resistance. v6 has no published vectors: the v6 reference is written from the repository's rustdoc and detects structural deviations, not a consistently wrong personalisation. Orchard/Ironwood digests live in the orchard registry crate.")

claim("C13",
      technique="proptest over recipe-generated party copies of real PCZTs: field-wise union model for the Combiner over all permutations/bracketings, role-order invariance of the implied txid, byte-mutation of encodings, libFuzzer pczt_parse",
      text=("Base PCZTs are built for real (14 request templates, v5 and v6/Ironwood). Party copies are derived by per-field recipes over 63 optional field kinds "
            "(Redactor removals; Updater/Signer/low-level-signer/SpendFinalizer additions); all permutations (n<=4) and random bracketings must combine to the harness's "
            "own field-wise union, idempotently, with DataMismatch for any conflicting field in every order. Encodings are fixed points, equal to the original, with v1 "
            "chosen exactly when representable; mutated bytes never panic the parser. The txid implied by the PCZT (computed independently from the builder's parts) is "
            "unchanged across 3-12 roles in generated order; thorough adds real proving + extraction. combine-structure: copies that are prefixes of one transaction "
            "(a harness Constructor working through the wire format), signed with all six transparent sighash types, IO-finalised, redacted; flags must follow the "
            "documented rule after every role, combine must fail exactly when a frozen copy would have to grow or a field carries two values, in every order and "
            "bracketing, and every carried signature must verify under the combined transaction."),
      note="Trusted: builder parts as ground truth for effects; OsRng-produced signature bytes do not affect verdicts. Proof-field merging is only exercised in the thorough prove-extract sub-check.")

claim("C14",
      technique="proptest with a predictive reference model (acceptance, version, padded shape, ZIP 317 fee in u128, failure reasons) solved to land 0/+-1 zat from balance; decryption and secp256k1 verification of results",
      text=("Generated requests over transparent/Sapling/Orchard/Ironwood inputs and outputs, heights across every upgrade boundary, padding variants, proposed versions "
            "and three fee-rule kinds go through Builder::build (mock provers), build_for_pczt and DeferredPcztBuilder (thorough: real Orchard/Ironwood proofs); transparent "
            "inputs are P2PKH or m-of-n P2SH multisig (1<=m<=n, up to 15 keys, any signing-set order, missing keys, non-multisig redeem scripts) in every transaction version, "
            "with every library sighash compared with an independent ZIP 143/243/244 reference. Success must contain exactly the "
            "requested spends/outputs plus prescribed zero-valued padding, pay exactly the reference fee of the observed shape, let every recipient decrypt value and memo in "
            "the right pool's domain, and carry transparent signatures that verify against signature_hash and the coin's script. Failure must be explained by a predicted "
            "documented reason with the exact amount; success under any such reason is a violation."),
      note="Trusted: secp256k1, note-encryption crates, the repository's signature_hash (checked by C04). Shielded spend-auth/binding signatures are not verified (outside the statement).")

claim("C18",
      technique="model-based stateful proptest: generated well-formed migration DAGs x event histories against an independent reference of the documented step priority, dead set and lifecycle; scripted (contract-respecting and violating) stores; persistence differential on memory and SQLite stores",
      text=("400k generated histories per quick run (6-40 events: signatures, proofs, drives with scanned/estimated targets, executes, mines, rollbacks, failure reports, "
            "cancel/supersede, save/load, store errors, heights near 0 and u32::MAX). After every advance_migration: broadcast only of a Proved, due, unexpired, live "
            "transaction whose dependencies are mined, one at a time; lifecycle only moves forward except the exact rollback mapping; terminal statuses sticky; no silent "
            "stranding; the persisted state equals the in-memory one; the step equals the independently computed documented priority; termination. Round trips of arbitrary "
            "states through both stores incl. at most one non-terminal row per account."),
      note="Trusted: the rustdoc of state.rs/satisfiability.rs as the contract. A wall-clock hang monitor (120 s) only turns non-termination into a reported input.")

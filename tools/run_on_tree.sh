#!/usr/bin/env bash
# Runs a check against ANOTHER copy of the repository (a scratch worktree with a mutant applied),
# never against /repo and never writing into /verif.
#   tools/run_on_tree.sh <tree> <Cxx> <quick|thorough> [extra args...]
# Everything (engine copy, build output, evidence, violations) lives under <tree>/.verif; remove the
# tree when done. Exit code = the check's exit code.
set -eu
TREE="$(cd "$1" && pwd)"; PROP="$2"; TIER="${3:-quick}"; shift 3 || true
ROOT="$(cd "$(dirname "${BASH_SOURCE[0]}")/.." && pwd)"
W="$TREE/.verif"
mkdir -p "$W/root/work" "$W/root/evidence"
rsync -a --delete --exclude target "$ROOT/engine/" "$W/engine/"
cp "$ROOT/known_findings.json" "$W/root/" 2>/dev/null || true
rm -rf "$W/root/replays"; cp -r "$ROOT/replays" "$W/root/replays" 2>/dev/null || true
find "$W/engine" -name Cargo.toml -exec sed -i "s#\"/repo/#\"$TREE/#g" {} +
cp "$TREE/Cargo.lock" "$W/engine/Cargo.lock"
if [ ! -d "$W/target" ] && [ -d "$ROOT/engine/target/release" ]; then
  # reuse compiled registry dependencies; path crates rebuild because their paths differ
  mkdir -p "$W/target"
  cp -r "$ROOT/engine/target/release" "$W/target/release" 2>/dev/null || true
  cp "$ROOT/engine/target/.rustc_info.json" "$ROOT/engine/target/CACHEDIR.TAG" "$W/target/" 2>/dev/null || true
fi
bin="$(echo "$PROP" | tr 'A-Z' 'a-z')"
export CARGO_NET_OFFLINE=true CARGO_TARGET_DIR="$W/target" VERIF_ROOT="$W/root" VERIF_NO_FUZZ=1
if ! (cd "$W/engine" && cargo build --release --bin "$bin" >"$W/build-$bin.log" 2>&1); then
  echo "INCONCLUSIVE property=$PROP build failed on tree $TREE (see $W/build-$bin.log)"; tail -n 30 "$W/build-$bin.log"; exit 2
fi
set +e
"$W/target/release/$bin" "$TIER" "$@"
exit $?

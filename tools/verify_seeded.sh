#!/usr/bin/env bash
# Independently confirms a seeded (deliberately breaking) change and files it under /verif/seeded/<id>/:
#   1. the library patch applies to a clean checkout of /repo HEAD and the workspace's EXISTING suite passes with it,
#   2. the demonstration fails with the patch and passes without it.
# Usage: verify_seeded.sh <id> <dir-with-patch.diff,demo.diff,README.md> '<demo command>' <property>
set -u
ID="$1"; SRC="$2"; DEMO="$3"; PROP="$4"
ROOT="$(cd "$(dirname "${BASH_SOURCE[0]}")/.." && pwd)"
T=/tmp/ver-tree
export CARGO_TARGET_DIR=/tmp/ver-target CARGO_NET_OFFLINE=true
OUT="$ROOT/seeded/$ID"; mkdir -p "$OUT"
cp "$SRC/patch.diff" "$OUT/patch.diff"; cp "$SRC/demo.diff" "$OUT/demo.diff" 2>/dev/null; cp "$SRC/README.md" "$OUT/README.md" 2>/dev/null
if [ ! -d "$T" ]; then git -C /repo worktree add -q "$T" HEAD || exit 2; fi
cd "$T" && git checkout -q --detach "$(git -C /repo rev-parse HEAD)" && git checkout -q -- . && git clean -fdq -e target
HEAD=$(git rev-parse --short HEAD)
git apply "$OUT/patch.diff" || { echo "patch does not apply"; exit 2; }
echo "== existing suite with the patch"
cargo nextest run --workspace --no-fail-fast --test-threads 8 --offline > "$OUT/suite-with-patch.log" 2>&1
SUITE_RC=$?
SUMMARY=$(grep -E "^\s+Summary" "$OUT/suite-with-patch.log" | tail -1)
echo "suite rc=$SUITE_RC $SUMMARY"
git apply "$OUT/demo.diff" || { echo "demo does not apply"; exit 2; }
echo "== demo with the patch (must fail)"
bash -c "$DEMO" > "$OUT/demo-with-patch.log" 2>&1; WITH_RC=$?
git apply -R "$OUT/patch.diff" || { echo "cannot revert patch"; exit 2; }
echo "== demo without the patch (must pass)"
bash -c "$DEMO" > "$OUT/demo-without-patch.log" 2>&1; WITHOUT_RC=$?
echo "demo with patch rc=$WITH_RC, without rc=$WITHOUT_RC"
for f in suite-with-patch demo-with-patch demo-without-patch; do tail -n 40 "$OUT/$f.log" > "$OUT/$f.tail.log"; rm -f "$OUT/$f.log"; done
python3 - "$OUT" "$ID" "$PROP" "$HEAD" "$SUITE_RC" "$SUMMARY" "$WITH_RC" "$WITHOUT_RC" "$DEMO" <<'PY'
import json,sys,os
out,id_,prop,head,suite_rc,summary,with_rc,without_rc,demo=sys.argv[1:10]
meta_path=os.path.join(out,'meta.json')
meta=json.load(open(meta_path)) if os.path.exists(meta_path) else {}
meta.update({"id":id_,"breaks_property":prop,"repo_head":head,
 "verified":{"existing_suite_with_patch":{"command":"cargo nextest run --workspace --no-fail-fast --test-threads 8 --offline","exit":int(suite_rc),"summary":summary.strip()},
             "demo_command":demo,"demo_with_patch_exit":int(with_rc),"demo_without_patch_exit":int(without_rc),
             "confirmed": int(suite_rc)==0 and int(with_rc)!=0 and int(without_rc)==0}})
json.dump(meta,open(meta_path,'w'),indent=1)
print("confirmed:",meta["verified"]["confirmed"])
PY
cd / && git -C "$T" checkout -q -- . && git -C "$T" clean -fdq -e target

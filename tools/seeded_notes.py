#!/usr/bin/env python3
"""Adds the hand-written description fields to seeded/<id>/meta.json (what the change is, what it needs to manifest,
whether the check had to be strengthened to catch it) and prints the DESIGN.md table from all meta.json files."""
import json, os, sys, glob
ROOT = os.path.dirname(os.path.dirname(os.path.abspath(__file__)))
NOTES = {
 "S-C01-truncate-nullifier-map": ("truncate_to_height_internal deletes nullifier-map rows with >= instead of > the truncation height (helper + caller each look right)",
   "a spend observed before its note's block was scanned, then a rewind to exactly the spending block's height, then the gap scan: the note stays unspent for ever", "no"),
 "S-C02-rewind-commits-on-error": ("WalletWrite::rewind_to_chain_state rewritten on top of transactionally() carrying the outcome as a VALUE, so a failed rewind is committed",
   "a rewind that fails half-way (RequestedRewindInvalid after the scan queue and transactions were already changed, or an injected fault)", "yes: rewind_to_chain_state / truncate_to_chain_state were not operations of the C02 check; added"),
 "S-C03-hashreader-short-reads": ("HashReader::read hashes the wrong bytes when the inner reader returns short reads", "a pre-v5 transaction read through a reader that returns short reads (network/chunked readers); slices and Cursors never do", "yes: a chunking-reader oracle (txid/position independent of read chunking) was added to C03 and to the tx_read fuzz target"),
 "S-C04-v5-sighash-script-code": ("ZIP 244 S.2g per-input digest writes script_code instead of script_pubkey", "a transparent input whose script_code differs from its scriptPubKey (P2SH); signer and verifier inside the library still agree", "no"),
 "S-C05-batch-chunk-index": ("BatchRunner::process_outputs gives chunked outputs a wrong index", "batched scanning (>= the batching threshold) with a wallet output behind the first chunk of its transaction; inline scanning is unaffected", "no"),
 "S-C06-retention-filter-batch-start": ("put_blocks builds the anchor-retention policy only for batches that START at or above NU6.3 activation", "a batch that starts below activation and contains a grid boundary above it, in an empty block, followed by enough checkpoints for pruning", "no"),
 "S-C07-split-count-per-pool": ("number of change notes decided from the per-pool note count instead of the wallet total", "MultiOutputChangeStrategy with notes in several pools: fee below ZIP 317 for the recorded shape, value still conserved", "no"),
 "S-C08-unlock-on-store-cross-pool": ("unlock_spent_notes de-duplicated into one statement over the cross-pool view without a pool filter", "outputs in two pools sharing a row id, one locked by an in-flight proposal, a stored transaction spending the other", "no"),
 "S-C09-sum-ref-unchecked": ("by-reference Sum of Zatoshis range-checks only the total (u64 sum)", "a by-reference sum of >= 8785 terms whose u64 total wraps back into range", "yes: a long-sums sub-check (thousands of terms, totals above u64::MAX) was added to C09"),
 "S-C10-typecode-upper-bound": ("Typecode::try_from excludes 0x2000000 ('replace magic numbers by MAX_COMPACT_SIZE', exclusive range)", "a unified container holding an unknown item with typecode exactly 0x2000000", "no"),
 "S-C11-transparent-child-index-high-bytes": ("to_transparent_child_index ignores the high bytes of the diversifier index", "a diversifier index >= 2^32 whose low 32 bits are a valid non-hardened child index", "no"),
 "S-C12-lead-address-duplicate": ("the lead address is added to the index-0 bucket after the duplicate-parameter check", "zcash:<addr>?address=<addr2> (un-indexed address parameter next to a lead address)", "no"),
 "S-C13-v1-anchor-placeholder-outputs-only": ("v1 decoder restores an absent Sapling anchor only for bundles with neither spends nor outputs", "a v5 PCZT with Sapling outputs, no spends, anchor absent, through the default (v1) encoding; then combine with the original", "no"),
 "S-C14-p2sh-v4-script-code": ("apply_signatures hoists the sighash computation and uses script_pubkey as script_code for every input", "a P2SH input in a V4 transaction (only sighash_v4 reads script_code)", "yes: C14 had no P2SH inputs at all; P2SH multisig inputs, an independent ZIP 143/243/244 sighash reference and the deferred builder were added"),
 "S-C15-forced-rescan-equal-range": ("spanning-tree insert: the Equal-extent arm resolves priority without force_rescans", "a forced rescan (queue_rescans / rewind) of a range identical to an existing Scanned entry", "no"),
 "S-C16-drop-leaves-buffer": ("reconcile loop's running note total goes stale by one fee buffer per dropped part", "a refusing or over-charging preparation-cost oracle (or a fragmented wallet) so that at least one part is dropped", "no"),
 "S-C17-lowest-candidate-boundary": ("lowest anchor candidate computed with the wrong boundary function", "a funding note created more than one bucket before NU6.3 activation", "no"),
 "S-C18-record-before-promotion": ("advance_migration records satisfiability findings before applying mined promotions", "one call combining a promotion of a transaction whose expiry lies below the scanned target, pending dependents of it, and a marking finding on another in-flight transaction", "no"),
 "S-C19-distinct-indices-early-break": ("distinct_indices stops comparing early", "a solution whose repeated index is not at the first position of either half (non-trivial duplicate)", "no"),
 "S-C20-peaks-cache-after-truncate": ("truncate_leaf leaves a merged entry in the remembered peaks", "truncate at an even leaf count with >= 3 peaks, followed by enough appends to carry into the merged peak", "no"),
 "S2-C01-internal-note-skips-spend-detection": ("put_shielded_outputs no longer looks up earlier-seen spends for change (AccountInternal) notes", "X -> tx1 -> change C -> tx2 with tx2's block scanned before tx1's and X's block already scanned", "no"),
 "S2-C02-summary-tip-read-outside-transaction": ("get_wallet_summary reads the chain tip before opening its read transaction", "a writer on another connection committing a tip-changing write inside a 16-step window of the reader", "no"),
 "S2-C03-joinsplit-vpub-signed": ("JoinSplit vpub_old/vpub_new decoded as signed amounts", "a v2-v4 transaction with a JoinSplit whose vpub field has all high bytes 0xff (negative)", "no"),
 "S2-C04-v4-single-anyonecanpay-unmasked": ("ZIP 143/243 sighash compares the unmasked hash type with SIGHASH_SINGLE", "hash type exactly 0x83 on a v3/v4 transaction with input index below the output count", "no"),
 "S2-C05-skip-spend-only-tx": ("the compact scanner skips transactions without shielded outputs before looking at their spends", "a transaction with a Sapling spend and no shielded output in any pool", "no"),
 "S2-C06-remined-note-keeps-stale-position": ("received-note upsert never overwrites a recorded commitment tree position", "a wallet transaction scanned, reorganised away and mined again at another tree position", "yes: the chain model had no re-mined transactions and C06 witnessed at the model's position; Op::ReMine + tx-based ledger + witnesses at the wallet's recorded positions were added"),
 "S2-C07-dust-to-fee-with-memo-double-counted": ("AddDustToFee with a kept change memo keeps the dust both in the change note and in the fee", "AddDustToFee, a change memo, 0 < surplus < dust threshold", "no"),
 "S2-C11-ufvk-encode-drops-unknown-items": ("UnifiedFullViewingKey::encode rewritten without the unknown items", "a decoded UFVK carrying an unknown-typecode item or an item of a pool whose feature is off", "no"),
 "S2-C12-checks-depend-on-param-order": ("zero-amount / memo checks run only once the address parameter was seen", "amount=0 or memo= before address= of the same payment index", "no"),
 "S2-C13-outputs-merge-reads-inputs-flag": ("transparent Bundle::merge reads inputs_modifiable for the outputs rule", "copies whose inputs/outputs modifiable flags differ (non-ALL sighash types) and a copy with more outputs, in one order", "yes: the combine generator only produced structurally identical copies with equal flags; Constructor-extended copies and all sighash types were added"),
 "S2-C15-queue-rescans-unsorted-span": ("queue_rescans computes its query span with max(span.start, r.end)", "several rescan ranges not in ascending order, an earlier one crossing a queue row boundary", "yes: the wallet histories never called queue_rescans; a Rescan operation (1-4 ranges, any order, every priority) with the forced dominance rule asserted pointwise was added"),
 "S2-C16-exact-funding-above-cap": ("single-note exact-funding guard loses its upper bound", "the whole balance in one note worth exactly a 1-2-5 value above 10000 ZEC plus the transfer buffer", "no"),
 "S2-C08-shielding-input-height-min": ("select_spendable_notes_matching_value takes MIN instead of MAX of the shielding inputs' mined heights", "a note created by a shielding transaction with >= 2 transparent inputs mined at different heights, and a value-targeted proposal inside the confirmation window of the newest input", "yes: executed transactions were never mined by the model, so no shielding-output note existed; Chain::add_block_with_tx + MineExecuted/Cycle ops + the documented confirmation rule for shielding outputs were added"),
 "S2-C09-mul-u64-narrowed-before-range-check": ("Zatoshis * u64 computed in u128 and narrowed with `as u64` before the range check", "exact product >= 2^64 whose low 64 bits are <= MAX_MONEY", "no"),
 "S2-C10-p2sh-regtest-network-exception": ("convert_if_network guards the P2SH arm with network_matches instead of the regtest exception", "a bare P2SH address converted for the regtest network", "no"),
 "S2-C14-orchard-change-outputs-not-counted": ("orchard_action_count stops counting change outputs in bundles that permit cross-address transfers", "Orchard at NU5..NU6.2 with outputs added through add_orchard_change_output exceeding max(spends, outputs, padding)", "no"),
 "S2-C17-crossing-confirms-without-expiry-answer": ("ZIP 318 classify: the 'expiry answered at all' check is dropped on the crossing branch", "partial evidence on the crossing branch with expiry_is_canonical = None, answered false later", "no"),
 "S2-C18-store-rollback-prefilter-misses-reports": ("the SQLite store's truncation walk pre-filters rows in SQL and forgets broadcast_failure_at", "a persisted broadcast-failure report above the rollback height on a migration with nothing mined or marked above it", "yes: C18 never drove the wallet's own rollback over stored migrations; roundtrip-sqlite now truncates the wallet and compares with MigrationState::truncate_to_height"),
 "S2-C19-length-check-rounds-down": ("indices_from_minimal compares index counts (rounded down) instead of byte lengths", "an otherwise valid solution followed by 1-3 trailing bytes", "no"),
 "S2-C20-tree-new-bags-last-two-peaks": ("Tree::new bags each peak with the previous PEAK instead of the running bag", "a view built with Tree::new over >= 3 peaks", "no"),
}
rows = []
for d in sorted(glob.glob(os.path.join(ROOT, "seeded", "S*-*"))):
    mp = os.path.join(d, "meta.json")
    if not os.path.exists(mp):
        continue
    m = json.load(open(mp))
    n = NOTES.get(m["id"])
    if n:
        m["change"], m["needs_to_manifest"], m["check_strengthened"] = n
        json.dump(m, open(mp, "w"), indent=1)
    r = m.get("check_result", {})
    rows.append((m["id"], m["breaks_property"], m.get("change", "?"), m.get("needs_to_manifest", "?"),
                 ("caught: `%s` / `%s` (%ss)" % (r.get("sub_check"), r.get("signature"), r.get("seconds"))) if r.get("caught") else ("NOT CAUGHT (rc %s)" % r.get("exit") if r else "not run"),
                 m.get("check_strengthened", "?")))
if "--table" in sys.argv:
    print("| Seeded change | Prop. | What it changes | What it needs to manifest | Quick check on the patched tree | Check strengthened? |")
    print("|---|---|---|---|---|---|")
    for r in rows:
        print("| `%s` | %s | %s | %s | %s | %s |" % r)

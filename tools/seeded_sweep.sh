#!/usr/bin/env bash
# Runs, for every confirmed seeded change under /verif/seeded/<id>/, the quick check of the property it breaks
# against a scratch worktree of /repo HEAD with ONLY the library patch applied (never /repo itself), and records
# the outcome (exit code, first VIOLATION line, sub-check, signature, seconds) in seeded/<id>/meta.json under
# "check_result". Usage: tools/seeded_sweep.sh [id ...]      (default: all)
set -u
ROOT="$(cd "$(dirname "${BASH_SOURCE[0]}")/.." && pwd)"
T=/tmp/sweep-tree
ids=("$@"); if [ ${#ids[@]} -eq 0 ]; then ids=($(ls "$ROOT/seeded")); fi
git -C /repo worktree remove --force "$T" 2>/dev/null; rm -rf "$T"
git -C /repo worktree add -q --detach "$T" HEAD || exit 2
for id in "${ids[@]}"; do
  d="$ROOT/seeded/$id"; [ -f "$d/patch.diff" ] && [ -f "$d/meta.json" ] || continue
  prop=$(python3 -c "import json;print(json.load(open('$d/meta.json'))['breaks_property'])")
  (cd "$T" && git checkout -q -- . && git clean -fdq -e .verif && git apply "$d/patch.diff") || { echo "$id: patch does not apply"; continue; }
  start=$(date +%s)
  LOG=/tmp/sweep-run.log
  "$ROOT/tools/run_on_tree.sh" "$T" "$prop" quick > "$LOG" 2>&1; rc=$?
  secs=$(( $(date +%s) - start ))
  python3 - "$d/meta.json" "$rc" "$secs" "$LOG" "$(git -C /repo rev-parse --short HEAD)" "$(git -C "$ROOT" rev-parse --short HEAD)" <<'PY'
import json,sys,re
meta_p,rc,secs,log,repo_head,verif_head=sys.argv[1:7]
t=open(log,errors='replace').read()
viol=[l for l in t.splitlines() if l.startswith('VIOLATION')]
det=[l.strip() for l in t.splitlines() if 'sub-check=' in l and 'signature=' in l]
m=json.load(open(meta_p))
r={"command":f"tools/run_on_tree.sh <worktree with patch.diff applied> {m['breaks_property']} quick","exit":int(rc),"seconds":int(secs),
   "repo_head":repo_head,"verif_head":verif_head,"caught":int(rc)==1 and bool(viol)}
if det:
    mm=re.search(r'sub-check=(\S+) signature=(\S+)',det[0])
    r["sub_check"],r["signature"]=mm.group(1),mm.group(2)
    r["first_violation"]=det[0][:600]
else:
    r["tail"]=t[-600:]
m["check_result"]=r
json.dump(m,open(meta_p,'w'),indent=1)
print(m['id'],'rc',rc,r.get('sub_check'),r.get('signature'),secs,'s')
PY
done
git -C /repo worktree remove --force "$T"; rm -rf "$T" /tmp/sweep-run.log

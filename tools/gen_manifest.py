#!/usr/bin/env python3
"""Regenerates /verif/MANIFEST.json from the table below (keeps the manifest valid at all times)."""
import json, os, sys
ROOT = os.path.dirname(os.path.dirname(os.path.abspath(__file__)))

BASELINE_OFF = ("cd /repo && cargo nextest run --workspace --no-fail-fast --test-threads 8 --offline "
                "|| cargo test --workspace --no-fail-fast --offline")

# id -> (category, technique, level text, level note, design ref)
CHECKS = {}
NOT_APPLICABLE = {}

def claim(pid, technique, text, note, category="exploration", design_ref=None):
    CHECKS[pid] = dict(category=category, technique=technique, text=text, note=note,
                       design_ref=design_ref or f"DESIGN.md section 4, {pid}")

exec(open(os.path.join(ROOT, "tools", "claims.py")).read())

props = [json.loads(l)["id"] for l in open(os.path.join(ROOT, "properties.jsonl"))]
checks = []
for pid in props:
    if pid in CHECKS:
        c = CHECKS[pid]
        checks.append({
            "property_id": pid,
            "quick_cmd": f"./check {pid} quick",
            "thorough_cmd": f"./check {pid} thorough",
            "evidence_file": f"/verif/evidence/{pid}.json",
            "replay_cmd_template": f"./check {pid} --replay {{path}}",
            "engine": "engine",
            "level_claimed": {"category": c["category"], "text": c["text"], "design_ref": c["design_ref"]},
            "level_note": c["note"],
            "technique": c["technique"],
        })
na = [{"property_id": pid, "reason": NOT_APPLICABLE.get(pid, "check not built yet in this session; see DESIGN.md for the planned generated-input check")}
      for pid in props if pid not in CHECKS]
manifest = {
    "version": 1,
    "setup_cmd": "./setup.sh",
    "hooks": HOOKS,
    "engines": [
        {"name": "engine", "path": "/verif/engine", "serves_properties": sorted(CHECKS),
         "kind_free_text": "Rust cargo workspace (toolchain 1.88, path deps on /repo): vcore runner (seeded multi-worker proptest 1.4.0 + exhaustive enumeration, shrinking, replay files, label histograms, known-findings matching) and one binary per property under checks/src/bin"},
    ] + ENGINES_EXTRA,
    "checks": checks,
    "notes": NOTES,
    "not_applicable": na,
}
json.dump(manifest, open(os.path.join(ROOT, "MANIFEST.json"), "w"), indent=1)
try:
    import jsonschema
    jsonschema.validate(manifest, json.load(open("/root/.vp/MANIFEST.schema.json")))
    print("MANIFEST.json valid;", len(checks), "claimed,", len(na), "not_applicable")
except ImportError:
    print("MANIFEST.json written (jsonschema not available to validate)")

#!/usr/bin/env bash
# One-time offline setup after a fresh restore: sync lockfiles and do the cold builds.
set -eu
ROOT="$(cd "$(dirname "${BASH_SOURCE[0]}")" && pwd)"
export CARGO_NET_OFFLINE=true
mkdir -p "$ROOT/work" "$ROOT/evidence"
cp /repo/Cargo.lock "$ROOT/engine/Cargo.lock"
(cd "$ROOT/engine" && cargo build --release --bins)
if [ -d "$ROOT/fuzz" ] && [ -x "$ROOT/fuzz/build.sh" ]; then
  "$ROOT/fuzz/build.sh"
fi
echo "setup done"

#![no_main]
//! C19: equihash::is_valid_solution with parameters from a table and arbitrary input/nonce/solution.
//! Oracle: never panics (invalid parameters and lengths are errors); a solution of the wrong length
//! is never accepted.
use libfuzzer_sys::fuzz_target;

const PARAMS: [(u32, u32); 14] = [(200, 9), (144, 5), (96, 5), (48, 5), (40, 4), (96, 3), (8, 3), (104, 3), (128, 3), (528, 21), (0, 0), (64, 3), (72, 5), (120, 7)];

fuzz_target!(|data: &[u8]| {
    if data.len() < 3 {
        return;
    }
    let (n, k) = PARAMS[data[0] as usize % PARAMS.len()];
    let il = (data[1] as usize).min(data.len() - 3);
    let nl = (data[2] as usize).min(data.len() - 3 - il);
    let input = &data[3..3 + il];
    let nonce = &data[3 + il..3 + il + nl];
    let soln = &data[3 + il + nl..];
    let r = equihash::is_valid_solution(n, k, input, nonce, soln);
    if r.is_ok() {
        let bits = (n / (k + 1) + 1) as usize;
        assert_eq!(soln.len(), (1usize << k) * bits / 8, "accepted a solution of the wrong length");
    }
});

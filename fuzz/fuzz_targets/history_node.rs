#![no_main]
//! C20: chain-history node records on arbitrary bytes, all three versions. Oracle: never panics; an
//! accepted record re-serialises to bytes that parse to the same record (fixed point), and the
//! re-serialisation equals the consumed prefix (canonical CompactSize counters only).
use libfuzzer_sys::fuzz_target;
use zcash_history::{Entry, Version, V1, V2, V3};

fn check<V: Version>(data: &[u8]) {
    if let Ok(nd) = V::from_bytes(0xc2d6d0b4, data) {
        let mut out = vec![];
        V::write(&nd, &mut out).expect("write");
        assert!(out.len() <= data.len(), "wrote more than was read");
        assert_eq!(&out[..], &data[..out.len()], "node record does not re-serialise to its consumed bytes");
        let back = V::from_bytes(0xc2d6d0b4, &out).expect("own serialisation must parse");
        let mut out2 = vec![];
        V::write(&back, &mut out2).expect("write");
        assert_eq!(out, out2, "node record serialisation is not a fixed point");
    }
    if let Ok(e) = Entry::<V>::from_bytes(0xc2d6d0b4, data) {
        let mut out = vec![];
        e.write(&mut out).expect("write entry");
        let _ = Entry::<V>::from_bytes(0xc2d6d0b4, &out).expect("own entry serialisation must parse");
    }
}

fuzz_target!(|data: &[u8]| {
    if data.is_empty() {
        return;
    }
    match data[0] % 3 {
        0 => check::<V1>(&data[1..]),
        1 => check::<V2>(&data[1..]),
        _ => check::<V3>(&data[1..]),
    }
});

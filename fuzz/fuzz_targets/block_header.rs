#![no_main]
//! C03: BlockHeader::read on arbitrary bytes. Oracle: never panics; the hash is the double SHA-256 of
//! exactly the consumed bytes; writing gives back exactly the consumed bytes.
use libfuzzer_sys::fuzz_target;
use sha2::{Digest, Sha256};
use std::io::Cursor;
use zcash_primitives::block::BlockHeader;

fuzz_target!(|data: &[u8]| {
    let mut cur = Cursor::new(data);
    let Ok(h) = BlockHeader::read(&mut cur) else { return };
    let pos = cur.position() as usize;
    assert!(pos <= data.len());
    let d = Sha256::digest(Sha256::digest(&data[..pos]));
    assert_eq!(&h.hash().0[..], &d[..], "hash is not sha256d of the consumed bytes");
    let mut out = vec![];
    h.write(&mut out).expect("write");
    assert_eq!(&out[..], &data[..pos], "header does not re-serialise to the consumed bytes");
});

#![no_main]
//! C12: TransactionRequest::from_uri on arbitrary strings, and memo decoding on arbitrary bytes.
//! Oracle: never panics; an accepted URI re-renders to a URI that parses to the same request, whose
//! payments satisfy the ZIP 321 rules; memo bytes round-trip.
use libfuzzer_sys::fuzz_target;
use zcash_protocol::memo::{Memo, MemoBytes};
use zip321::TransactionRequest;

fuzz_target!(|data: &[u8]| {
    if let Ok(mb) = MemoBytes::from_bytes(data) {
        assert!(data.len() <= 512);
        assert_eq!(&mb.as_array()[..data.len()], data);
        if let Ok(m) = Memo::try_from(mb.clone()) {
            let back: MemoBytes = m.into();
            assert_eq!(back.as_array(), mb.as_array(), "Memo <-> MemoBytes changed the bytes");
        }
    } else {
        assert!(data.len() > 512, "MemoBytes rejected {} bytes", data.len());
    }
    let Ok(s) = std::str::from_utf8(data) else { return };
    let Ok(req) = TransactionRequest::from_uri(s) else { return };
    for (idx, p) in req.payments() {
        assert!(*idx <= 9999, "payment index above 9999 accepted");
        if p.memo().is_some() {
            assert!(p.recipient_address().can_receive_memo(), "memo for a recipient that cannot receive one");
        }
        if let Some(a) = p.amount() {
            if p.recipient_address().is_transparent_only() {
                assert!(u64::from(a) > 0, "zero-valued transparent output accepted");
            }
        }
    }
    let uri = req.to_uri();
    let back = TransactionRequest::from_uri(&uri).expect("own rendering must parse");
    assert_eq!(back, req, "render/parse changed the request");
});

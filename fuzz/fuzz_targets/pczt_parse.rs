#![no_main]
//! C13: Pczt::parse on arbitrary bytes. Oracle: never panics; whatever it accepts serialises to bytes
//! that parse again and serialise to the same bytes (fixed point).
use libfuzzer_sys::fuzz_target;
use pczt::Pczt;

fuzz_target!(|data: &[u8]| {
    let Ok(p) = Pczt::parse(data) else { return };
    let Ok(b1) = p.serialize() else { return };
    let p2 = Pczt::parse(&b1).expect("own serialisation must parse");
    let b2 = p2.serialize().expect("a re-parsed PCZT must serialise");
    assert_eq!(b1, b2, "PCZT serialisation is not a fixed point");
});

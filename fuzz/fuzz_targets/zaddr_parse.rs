#![no_main]
//! C10: ZcashAddress / unified containers on arbitrary strings. Oracle: never panics; an accepted
//! string re-encodes to a string that parses to the same value, and (for inputs without upper-case
//! letters) to its own trimmed form; unified containers re-encode to the input.
use libfuzzer_sys::fuzz_target;
use zcash_address::unified::{self, Encoding};
use zcash_address::ZcashAddress;

fuzz_target!(|data: &[u8]| {
    let Ok(s) = std::str::from_utf8(data) else { return };
    if let Ok(a) = ZcashAddress::try_from_encoded(s) {
        let e = a.encode();
        let b = ZcashAddress::try_from_encoded(&e).expect("own encoding must parse");
        assert_eq!(a, b, "encode/parse changed the address");
        assert_eq!(b.encode(), e, "encoding is not a fixed point");
        assert_eq!(e, s.trim(), "accepted string is not its own canonical form");
    }
    let t = s.trim();
    if let Ok((net, ua)) = unified::Address::decode(t) {
        assert_eq!(ua.encode(&net), t, "unified address does not re-encode to the accepted string");
    }
    if let Ok((net, k)) = unified::Ufvk::decode(t) {
        assert_eq!(k.encode(&net), t, "UFVK does not re-encode to the accepted string");
    }
    if let Ok((net, k)) = unified::Uivk::decode(t) {
        assert_eq!(k.encode(&net), t, "UIVK does not re-encode to the accepted string");
    }
});

#![no_main]
//! C03: Transaction::read on arbitrary bytes. Oracle: never panics; never reads past what it reports as
//! consumed; whatever it accepts re-serialises to bytes that parse back to the same transaction
//! (same txid, same authorising-data commitment, byte-identical second serialisation).
use libfuzzer_sys::fuzz_target;
use std::io::Cursor;
use zcash_primitives::transaction::Transaction;
use zcash_protocol::consensus::BranchId;

const BRANCHES: [BranchId; 10] = [
    BranchId::Sprout,
    BranchId::Overwinter,
    BranchId::Sapling,
    BranchId::Blossom,
    BranchId::Heartwood,
    BranchId::Canopy,
    BranchId::Nu5,
    BranchId::Nu6,
    BranchId::Nu6_1,
    BranchId::Nu6_3,
];

fuzz_target!(|data: &[u8]| {
    if data.is_empty() {
        return;
    }
    let branch = BRANCHES[data[0] as usize % BRANCHES.len()];
    let bytes = &data[1..];
    let mut cur = Cursor::new(bytes);
    let Ok(tx) = Transaction::read(&mut cur, branch) else { return };
    let pos = cur.position() as usize;
    assert!(pos <= bytes.len(), "reported position beyond the input");
    // nothing beyond the consumed prefix was needed
    let again = Transaction::read(&bytes[..pos], branch).expect("the consumed prefix alone must parse");
    assert_eq!(again.txid(), tx.txid(), "prefix parse differs");
    // the result must not depend on how the reader delivers the bytes
    struct Chunks<'a>(&'a [u8], usize);
    impl std::io::Read for Chunks<'_> {
        fn read(&mut self, buf: &mut [u8]) -> std::io::Result<usize> {
            let n = buf.len().min(self.1).min(self.0.len());
            buf[..n].copy_from_slice(&self.0[..n]);
            self.0 = &self.0[n..];
            Ok(n)
        }
    }
    let chunked = Transaction::read(Chunks(bytes, 1 + data[0] as usize % 13), branch).expect("a chunking reader must give the same result");
    assert_eq!(chunked.txid(), tx.txid(), "txid depends on reader chunking");
    let mut out = vec![];
    tx.write(&mut out).expect("an accepted transaction must serialise");
    let back = Transaction::read(&out[..], branch).expect("own serialisation must parse");
    assert_eq!(back.txid(), tx.txid(), "txid changed across write/read");
    assert_eq!(back.auth_commitment(), tx.auth_commitment(), "auth commitment changed across write/read");
    assert_eq!(back.version(), tx.version());
    assert_eq!(back.lock_time(), tx.lock_time());
    assert_eq!(back.expiry_height(), tx.expiry_height());
    let mut out2 = vec![];
    back.write(&mut out2).expect("serialise again");
    assert_eq!(out, out2, "serialisation is not a fixed point");
});

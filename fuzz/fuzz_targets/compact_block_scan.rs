#![no_main]
//! C05: scan_block on an arbitrary protobuf-decoded CompactBlock. Oracle: never panics on malformed
//! server data (except the documented preconditions on hash/prev_hash/height, which the target
//! repairs, and the two known findings, which it tolerates by signature so the campaign goes on);
//! an accepted block reports final tree sizes equal to its metadata.
use libfuzzer_sys::fuzz_target;
use prost::Message;
use std::sync::OnceLock;
use zcash_client_backend::{
    proto::compact_formats::CompactBlock,
    scanning::{scan_block, Nullifiers, ScanningKeys},
};
use zcash_keys::keys::UnifiedSpendingKey;
use zcash_protocol::consensus::{BlockHeight, Parameters};
use zcash_protocol::local_consensus::LocalNetwork;

fn net() -> LocalNetwork {
    let h = Some(BlockHeight::from_u32(100));
    LocalNetwork { overwinter: h, sapling: h, blossom: h, heartwood: h, canopy: h, nu5: h, nu6: h, nu6_1: h, nu6_2: h, nu6_3: Some(BlockHeight::from_u32(110)) }
}

fn keys() -> &'static ScanningKeys<u32, (u32, zip32::Scope)> {
    static K: OnceLock<ScanningKeys<u32, (u32, zip32::Scope)>> = OnceLock::new();
    K.get_or_init(|| {
        let usk = UnifiedSpendingKey::from_seed(&net(), &[7u8; 32], zip32::AccountId::ZERO).unwrap();
        ScanningKeys::from_account_ufvks([(0u32, usk.to_unified_full_viewing_key())])
    })
}

fuzz_target!(|data: &[u8]| {
    let Ok(mut cb) = CompactBlock::decode(data) else { return };
    // documented preconditions of CompactBlock::{hash, prev_hash, height}
    cb.header.clear();
    cb.hash.resize(32, 0);
    cb.prev_hash.resize(32, 0);
    cb.height = 100 + cb.height % 50;
    let _ = net().activation_height(zcash_protocol::consensus::NetworkUpgrade::Nu5);
    // known findings (listed in /verif/known_findings.json under C05): tolerate exactly those
    let known = cb.vtx.iter().any(|t| t.txid.len() != 32 || t.index >= 65536);
    if known && std::env::var("VERIF_FUZZ_STRICT").is_err() {
        return;
    }
    let meta = cb.chain_metadata.clone();
    let nfs: Nullifiers<u32> = Nullifiers::empty();
    if let Ok(sb) = scan_block(&net(), cb, keys(), &nfs, None) {
        if let Some(m) = meta {
            assert_eq!(sb.sapling().final_tree_size(), m.sapling_commitment_tree_size);
            assert_eq!(sb.orchard().final_tree_size(), m.orchard_commitment_tree_size);
            assert_eq!(sb.ironwood().final_tree_size(), m.ironwood_commitment_tree_size);
        }
    }
});

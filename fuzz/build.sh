#!/usr/bin/env bash
# Builds the libFuzzer targets (all, or the ones named) from /repo's current tree, offline.
set -eu
cd "$(dirname "${BASH_SOURCE[0]}")"
export CARGO_NET_OFFLINE=true
[ -f Cargo.lock ] || cp /repo/Cargo.lock Cargo.lock
if [ $# -eq 0 ]; then
  cargo +nightly fuzz build -s none --fuzz-dir .
else
  for t in "$@"; do cargo +nightly fuzz build -s none --fuzz-dir . "$t"; done
fi

//! vcore: the runner shared by every property check.
//!
//! * seeded, multi-worker proptest execution with a fixed case quota (no time limits inside
//!   properties; a watchdog turns a hang into exit 2 "inconclusive");
//! * exhaustive enumeration of finite index spaces with the same bookkeeping;
//! * classification (label counters), measured distinct-non-trivial counts, sample reservoir;
//! * known-findings matching by exact signature;
//! * violation files + `VIOLATION property=<id> replay=<path>` line, regenerating replay;
//! * evidence file per EVIDENCE.schema.json.
//!
//! Exit protocol: 0 held on everything explored; 1 violation; 2 inconclusive / infrastructure.

use std::collections::{BTreeMap, HashSet};
use std::fmt::Debug;
use std::panic::{catch_unwind, AssertUnwindSafe};
use std::path::PathBuf;
use std::sync::atomic::{AtomicBool, AtomicU64, Ordering};
use std::sync::{Arc, Mutex};
use std::time::Instant;

use proptest::strategy::Strategy;
use proptest::test_runner::{Config, RngAlgorithm, TestCaseError, TestError, TestRng, TestRunner};
use serde_json::{json, Value};

pub use proptest;
pub use serde_json;

#[derive(Clone, Copy, Debug, PartialEq, Eq)]
pub enum Tier {
    Quick,
    Thorough,
}

impl Tier {
    pub fn name(self) -> &'static str {
        match self {
            Tier::Quick => "quick",
            Tier::Thorough => "thorough",
        }
    }
    /// Pick a quota by tier.
    pub fn pick<T>(self, quick: T, thorough: T) -> T {
        match self {
            Tier::Quick => quick,
            Tier::Thorough => thorough,
        }
    }
}

/// What an oracle reports for one passing case.
#[derive(Clone, Debug, Default)]
pub struct Obs {
    /// Non-trivial by the property's stated rule.
    pub nontrivial: bool,
    /// Hash of the canonical form of the case (distinctness). 0 = "use the Debug form".
    pub key: u64,
    /// Labels for the classification histogram.
    pub labels: Vec<&'static str>,
    /// Extra free-form counters (added into the sub-check's counter map).
    pub counters: Vec<(&'static str, u64)>,
}

impl Obs {
    pub fn trivial() -> Self {
        Obs::default()
    }
    pub fn nontrivial() -> Self {
        Obs {
            nontrivial: true,
            ..Default::default()
        }
    }
    pub fn new(nontrivial: bool) -> Self {
        Obs {
            nontrivial,
            ..Default::default()
        }
    }
    pub fn key(mut self, k: u64) -> Self {
        self.key = k;
        self
    }
    pub fn label(mut self, l: &'static str) -> Self {
        self.labels.push(l);
        self
    }
    pub fn label_if(mut self, c: bool, l: &'static str) -> Self {
        if c {
            self.labels.push(l);
        }
        self
    }
    pub fn count(mut self, name: &'static str, n: u64) -> Self {
        self.counters.push((name, n));
        self
    }
}

/// A failed oracle.
#[derive(Clone, Debug)]
pub struct Fail {
    /// Stable identifier of *what* failed (used to match known findings). Must not contain
    /// case-specific data unless the finding is case-specific.
    pub signature: String,
    pub msg: String,
}

impl Fail {
    pub fn new(signature: impl Into<String>, msg: impl Into<String>) -> Self {
        Fail {
            signature: signature.into(),
            msg: msg.into(),
        }
    }
}

pub type CaseResult = Result<Obs, Fail>;

#[macro_export]
macro_rules! vfail {
    ($sig:expr, $($arg:tt)*) => {
        return Err($crate::Fail::new($sig, format!($($arg)*)))
    };
}

#[macro_export]
macro_rules! vensure {
    ($cond:expr, $sig:expr, $($arg:tt)*) => {
        if !($cond) {
            return Err($crate::Fail::new($sig, format!($($arg)*)));
        }
    };
}

#[macro_export]
macro_rules! vensure_eq {
    ($a:expr, $b:expr, $sig:expr, $($arg:tt)*) => {
        {
            let a = &$a;
            let b = &$b;
            if a != b {
                return Err($crate::Fail::new($sig, format!("{}: left={:?} right={:?}", format!($($arg)*), a, b)));
            }
        }
    };
}

// ---------------------------------------------------------------------------------------------
// Panic capture
// ---------------------------------------------------------------------------------------------

thread_local! {
    static QUIET: std::cell::Cell<u32> = const { std::cell::Cell::new(0) };
    static LAST_PANIC: std::cell::RefCell<Option<String>> = const { std::cell::RefCell::new(None) };
}

fn install_panic_hook() {
    static ONCE: std::sync::Once = std::sync::Once::new();
    ONCE.call_once(|| {
        let default = std::panic::take_hook();
        std::panic::set_hook(Box::new(move |info| {
            let quiet = QUIET.with(|q| q.get()) > 0;
            if quiet {
                let loc = info
                    .location()
                    .map(|l| format!("{}:{}", l.file(), l.line()))
                    .unwrap_or_default();
                let payload = if let Some(s) = info.payload().downcast_ref::<&str>() {
                    s.to_string()
                } else if let Some(s) = info.payload().downcast_ref::<String>() {
                    s.clone()
                } else {
                    "<non-string panic>".to_string()
                };
                LAST_PANIC.with(|p| *p.borrow_mut() = Some(format!("{payload} @ {loc}")));
            } else {
                default(info);
            }
        }));
    });
}

/// Runs `f`, converting a panic into `Err("payload @ file:line")`. Nothing is printed.
pub fn catch<T>(f: impl FnOnce() -> T) -> Result<T, String> {
    install_panic_hook();
    QUIET.with(|q| q.set(q.get() + 1));
    let r = catch_unwind(AssertUnwindSafe(f));
    QUIET.with(|q| q.set(q.get() - 1));
    match r {
        Ok(v) => Ok(v),
        Err(_) => Err(LAST_PANIC
            .with(|p| p.borrow_mut().take())
            .unwrap_or_else(|| "<panic>".to_string())),
    }
}

/// Strips `:line` and absolute path prefix noise from a panic location so it can be used in a
/// known-finding signature that survives unrelated edits.
pub fn panic_site(p: &str) -> String {
    // "payload @ /repo/x/y.rs:123" -> "x/y.rs"
    match p.rsplit_once(" @ ") {
        Some((_, loc)) => {
            let file = loc.rsplit_once(':').map(|(f, _)| f).unwrap_or(loc);
            file.trim_start_matches("/repo/").to_string()
        }
        None => String::new(),
    }
}

// ---------------------------------------------------------------------------------------------
// Hash helpers
// ---------------------------------------------------------------------------------------------

pub fn hash64(bytes: &[u8]) -> u64 {
    let h = blake2b_simd::Params::new().hash_length(8).hash(bytes);
    u64::from_le_bytes(h.as_bytes().try_into().unwrap())
}

pub fn hash_debug<T: Debug>(v: &T) -> u64 {
    hash64(format!("{v:?}").as_bytes())
}

fn derive_seed(seed: u64, property: &str, sub: &str, worker: u32) -> [u8; 32] {
    let mut st = blake2b_simd::Params::new().hash_length(32).to_state();
    st.update(&seed.to_le_bytes());
    st.update(property.as_bytes());
    st.update(&[0]);
    st.update(sub.as_bytes());
    st.update(&[0]);
    st.update(&worker.to_le_bytes());
    let mut out = [0u8; 32];
    out.copy_from_slice(st.finalize().as_bytes());
    out
}

/// Deterministic ChaCha RNG for auxiliary (non-proptest) use derived from the run seed.
pub fn aux_rng(seed: u64, property: &str, sub: &str, worker: u32) -> rand_chacha::ChaCha20Rng {
    use rand_core::SeedableRng;
    rand_chacha::ChaCha20Rng::from_seed(derive_seed(seed, property, sub, worker))
}

// ---------------------------------------------------------------------------------------------
// Known findings
// ---------------------------------------------------------------------------------------------

#[derive(Clone, Debug)]
pub struct KnownFinding {
    pub property: String,
    pub signature: String,
    pub status: String, // "known" | "fixed"
    pub what: String,
}

fn load_known(root: &std::path::Path) -> Vec<KnownFinding> {
    let p = root.join("known_findings.json");
    let Ok(s) = std::fs::read_to_string(&p) else {
        return vec![];
    };
    let Ok(v) = serde_json::from_str::<Value>(&s) else {
        eprintln!("vcore: cannot parse {}", p.display());
        std::process::exit(2);
    };
    v.get("findings")
        .and_then(|f| f.as_array())
        .map(|a| {
            a.iter()
                .map(|e| KnownFinding {
                    property: e["property"].as_str().unwrap_or("").to_string(),
                    signature: e["signature"].as_str().unwrap_or("").to_string(),
                    status: e["status"].as_str().unwrap_or("").to_string(),
                    what: e["what"].as_str().unwrap_or("").to_string(),
                })
                .collect()
        })
        .unwrap_or_default()
}

// ---------------------------------------------------------------------------------------------
// Context / report
// ---------------------------------------------------------------------------------------------

#[derive(Clone, Debug)]
pub struct ReplaySpec {
    pub sub: String,
    pub worker: u32,
    pub seed: u64,
    pub tier: Tier,
    pub direct: Option<Value>,
    pub kind: String,
    pub index: Option<u64>,
}

#[derive(Default, Debug)]
struct SubStats {
    evaluations: u64,
    nontrivial: u64,
    distinct_nontrivial: u64,
    distinct_capped: bool,
    labels: BTreeMap<String, u64>,
    counters: BTreeMap<String, u64>,
    samples: Vec<String>,
    exhaustive: Option<bool>,
    known_hits: BTreeMap<String, u64>,
    wall_s: f64,
    kind: &'static str,
}

pub struct Ctx {
    pub property: &'static str,
    pub level: &'static str,
    pub tier: Tier,
    pub seed: u64,
    pub workers: u32,
    pub root: PathBuf,
    pub replay: Option<ReplaySpec>,
    known: Vec<KnownFinding>,
    start: Instant,
    subs: Mutex<Vec<(String, SubStats)>>,
    violations: Mutex<Vec<(String, PathBuf)>>,
    known_printed: Mutex<HashSet<String>>,
    extra_known: Mutex<BTreeMap<String, u64>>,
    rule: Mutex<String>,
    assumptions: Mutex<Vec<String>>,
    extra: Mutex<BTreeMap<String, Value>>,
    health_failures: Mutex<Vec<String>>,
}

const DISTINCT_CAP: usize = 6_000_000;
const MAX_SAMPLES: usize = 6;
const SAMPLE_CHARS: usize = 900;

fn truncate(s: String, n: usize) -> String {
    if s.len() <= n {
        s
    } else {
        let mut end = n;
        while !s.is_char_boundary(end) {
            end -= 1;
        }
        format!("{}…[{} chars]", &s[..end], s.len())
    }
}

impl Ctx {
    /// Parses `<tier>` or `--replay <file>` from argv; reads VERIF_SEED, VERIF_ROOT, VERIF_WORKERS,
    /// VERIF_WATCHDOG_S.
    pub fn from_args(property: &'static str, level: &'static str) -> Arc<Ctx> {
        install_panic_hook();
        let args: Vec<String> = std::env::args().collect();
        let root = PathBuf::from(std::env::var("VERIF_ROOT").unwrap_or_else(|_| "/verif".into()));
        let mut tier = match std::env::var("VERIF_TIER").ok().as_deref() {
            Some("thorough") => Tier::Thorough,
            _ => Tier::Quick,
        };
        let mut seed: u64 = std::env::var("VERIF_SEED")
            .ok()
            .and_then(|s| s.trim().parse::<i128>().ok())
            .map(|v| v as u64)
            .unwrap_or(1);
        let mut replay = None;
        let mut i = 1;
        while i < args.len() {
            match args[i].as_str() {
                "quick" => tier = Tier::Quick,
                "thorough" => tier = Tier::Thorough,
                "--replay" => {
                    let path = args.get(i + 1).cloned().unwrap_or_default();
                    i += 1;
                    let s = std::fs::read_to_string(&path).unwrap_or_else(|e| {
                        eprintln!("cannot read replay file {path}: {e}");
                        std::process::exit(2)
                    });
                    let v: Value = serde_json::from_str(&s).unwrap_or_else(|e| {
                        eprintln!("cannot parse replay file {path}: {e}");
                        std::process::exit(2)
                    });
                    let rtier = if v["tier"].as_str() == Some("thorough") {
                        Tier::Thorough
                    } else {
                        Tier::Quick
                    };
                    tier = rtier;
                    seed = v["seed"].as_u64().unwrap_or(1);
                    replay = Some(ReplaySpec {
                        sub: v["sub"].as_str().unwrap_or("").to_string(),
                        worker: v["worker"].as_u64().unwrap_or(0) as u32,
                        seed,
                        tier: rtier,
                        direct: v.get("direct").cloned().filter(|d| !d.is_null()),
                        kind: v["kind"].as_str().unwrap_or("prop").to_string(),
                        index: v["index"].as_u64(),
                    });
                }
                other => {
                    eprintln!("unknown argument {other}");
                    std::process::exit(2);
                }
            }
            i += 1;
        }
        let workers = std::env::var("VERIF_WORKERS")
            .ok()
            .and_then(|s| s.parse().ok())
            .unwrap_or(16u32)
            .max(1);
        let known = load_known(&root);
        let ctx = Arc::new(Ctx {
            property,
            level,
            tier,
            seed,
            workers,
            root,
            replay,
            known,
            start: Instant::now(),
            subs: Mutex::new(vec![]),
            violations: Mutex::new(vec![]),
            known_printed: Mutex::new(HashSet::new()),
            extra_known: Mutex::new(BTreeMap::new()),
            rule: Mutex::new(String::new()),
            assumptions: Mutex::new(vec![]),
            extra: Mutex::new(BTreeMap::new()),
            health_failures: Mutex::new(vec![]),
        });
        // Watchdog: a hang is "inconclusive", never a violation.
        let secs: u64 = std::env::var("VERIF_WATCHDOG_S")
            .ok()
            .and_then(|s| s.parse().ok())
            .unwrap_or(match tier {
                Tier::Quick => 1500,
                Tier::Thorough => 6 * 3600,
            });
        let prop = property;
        std::thread::spawn(move || {
            std::thread::sleep(std::time::Duration::from_secs(secs));
            println!("INCONCLUSIVE property={prop} watchdog after {secs}s");
            std::process::exit(2);
        });
        ctx
    }

    pub fn set_rule(&self, rule: &str) {
        *self.rule.lock().unwrap() = rule.to_string();
    }
    pub fn assume(&self, a: &str) {
        self.assumptions.lock().unwrap().push(a.to_string());
    }
    pub fn extra(&self, k: &str, v: Value) {
        self.extra.lock().unwrap().insert(k.to_string(), v);
    }
    pub fn is_replay(&self) -> bool {
        self.replay.is_some()
    }

    /// `true` if this sub-check should run (always, unless replaying a different one).
    pub fn wants(&self, sub: &str) -> bool {
        match &self.replay {
            None => true,
            Some(r) => r.sub == sub,
        }
    }

    fn is_known(&self, signature: &str) -> Option<&KnownFinding> {
        self.known
            .iter()
            .find(|k| k.property == self.property && k.status == "known" && k.signature == signature)
    }

    /// Reports a known finding (once per signature) or returns the Fail for a fresh one.
    fn triage(&self, f: Fail) -> Result<String, Fail> {
        if let Some(k) = self.is_known(&f.signature) {
            let mut printed = self.known_printed.lock().unwrap();
            if printed.insert(k.signature.clone()) {
                println!(
                    "KNOWN-FINDING: property={} signature={} {}",
                    self.property, k.signature, k.what
                );
            }
            Ok(k.signature.clone())
        } else {
            Err(f)
        }
    }

    fn write_violation(
        &self,
        sub: &str,
        kind: &str,
        worker: u32,
        index: Option<u64>,
        case_debug: &str,
        fail: &Fail,
        direct: Option<Value>,
    ) {
        let dir = self.root.join("work").join("violations");
        let _ = std::fs::create_dir_all(&dir);
        let h = hash64(format!("{sub}|{}|{case_debug}", fail.signature).as_bytes());
        let path = dir.join(format!("{}-{}-{:016x}.json", self.property, sub, h));
        let doc = json!({
            "property": self.property,
            "sub": sub,
            "kind": kind,
            "tier": self.tier.name(),
            "seed": self.seed,
            "worker": worker,
            "index": index,
            "signature": fail.signature,
            "message": fail.msg,
            "shrunk_case": case_debug,
            "direct": direct,
        });
        let _ = std::fs::write(&path, serde_json::to_string_pretty(&doc).unwrap());
        println!(
            "VIOLATION property={} replay={}",
            self.property,
            path.display()
        );
        println!(
            "  sub-check={sub} signature={} message={}",
            fail.signature,
            truncate(fail.msg.clone(), 2000)
        );
        println!("  shrunk case: {}", truncate(case_debug.to_string(), 3000));
        self.violations
            .lock()
            .unwrap()
            .push((sub.to_string(), path));
    }

    /// Records a violation found outside `run_prop`/`run_enum` (e.g. by a fuzz campaign).
    pub fn external_violation(&self, sub: &str, replay_path: &std::path::Path, msg: &str) {
        println!(
            "VIOLATION property={} replay={}",
            self.property,
            replay_path.display()
        );
        println!("  sub-check={sub} message={}", truncate(msg.to_string(), 2000));
        self.violations
            .lock()
            .unwrap()
            .push((sub.to_string(), replay_path.to_path_buf()));
    }

    /// Records an externally-measured sub-check (fuzz campaign) in the evidence.
    pub fn external_sub(
        &self,
        sub: &str,
        kind: &'static str,
        evaluations: u64,
        distinct_nontrivial: u64,
        samples: Vec<String>,
        counters: BTreeMap<String, u64>,
        wall_s: f64,
    ) {
        let st = SubStats {
            evaluations,
            nontrivial: distinct_nontrivial,
            distinct_nontrivial,
            counters,
            samples,
            wall_s,
            kind,
            ..Default::default()
        };
        self.subs.lock().unwrap().push((sub.to_string(), st));
    }

    /// For oracles that want to continue a case past a known finding: returns `true` (printing the
    /// KNOWN-FINDING line once and counting the hit) iff `signature` is listed as `known` for this
    /// property; `false` means the caller must report it as a violation.
    pub fn known_hit(&self, signature: &str) -> bool {
        match self.is_known(signature) {
            Some(k) => {
                let mut printed = self.known_printed.lock().unwrap();
                if printed.insert(k.signature.clone()) {
                    println!("KNOWN-FINDING: property={} signature={} {}", self.property, k.signature, k.what);
                }
                *self.extra_known.lock().unwrap().entry(k.signature.clone()).or_default() += 1;
                true
            }
            None => false,
        }
    }

    /// Runs a libFuzzer target (built by `fuzz/build.sh`, semantic oracle inside the target) as a
    /// sub-check: first every committed regression input under `replays/<property>/<target>/`, then a
    /// seeded campaign of `runs` executions per process on `procs` processes from the committed seed
    /// corpus. A crash is a violation whose replay file is the libFuzzer artifact.
    pub fn run_fuzz(&self, target: &str, runs: u64, procs: u32, max_len: u32) {
        let sub = format!("fuzz-{target}");
        if self.is_replay() || self.violated() {
            return;
        }
        if std::env::var("VERIF_NO_FUZZ").is_ok() {
            // tools/run_on_tree.sh (mutant / seeded-change runs) does not rebuild the fuzz crate for the scratch tree
            println!("  [{}] {sub}: skipped (VERIF_NO_FUZZ)", self.property);
            return;
        }
        let t0 = Instant::now();
        let bin = self.root.join("fuzz/target/x86_64-unknown-linux-gnu/release").join(target);
        if !bin.exists() {
            self.health_failures.lock().unwrap().push(format!("fuzz target binary {} is missing (fuzz/build.sh not run?)", bin.display()));
            return;
        }
        // 1. regression inputs
        let reg_dir = self.root.join("replays").join(self.property).join(target);
        let mut regressions = 0u64;
        if let Ok(rd) = std::fs::read_dir(&reg_dir) {
            let mut files: Vec<_> = rd.flatten().map(|e| e.path()).collect();
            files.sort();
            for f in files {
                regressions += 1;
                let out = std::process::Command::new(&bin).arg(&f).env("VERIF_FUZZ_STRICT", "1").output();
                match out {
                    Ok(o) if o.status.success() => {}
                    Ok(o) => {
                        let err = String::from_utf8_lossy(&o.stderr);
                        let msg = err.lines().filter(|l| l.contains("panicked") || l.contains("assertion") || l.contains("left:") || l.contains("right:")).take(4).collect::<Vec<_>>().join(" | ");
                        self.external_violation(&sub, &f, &format!("regression input crashes the target: {msg}"));
                        return;
                    }
                    Err(e) => {
                        self.health_failures.lock().unwrap().push(format!("cannot run {}: {e}", bin.display()));
                        return;
                    }
                }
            }
        }
        // 2. campaign
        let seeds = self.root.join("fuzz/seeds").join(target);
        let vdir = self.root.join("work/violations");
        let _ = std::fs::create_dir_all(&vdir);
        let mut children = vec![];
        for p in 0..procs.max(1) {
            let corpus = self.root.join("work/fuzz-corpus").join(format!("{target}-{}-{p}", self.seed));
            let _ = std::fs::remove_dir_all(&corpus);
            let _ = std::fs::create_dir_all(&corpus);
            let fseed = (hash64(format!("{}|{}|{}|{p}", self.seed, self.property, target).as_bytes()) % 0x7fff_fffe) + 1;
            let mut cmd = std::process::Command::new(&bin);
            cmd.arg(format!("-runs={runs}"))
                .arg(format!("-seed={fseed}"))
                .arg("-len_control=0")
                .arg(format!("-max_len={max_len}"))
                .arg("-print_final_stats=1")
                .arg("-timeout=60")
                .arg("-rss_limit_mb=4096")
                .arg(format!("-artifact_prefix={}/{}-{}-", vdir.display(), self.property, target))
                .arg(&corpus);
            if seeds.exists() {
                cmd.arg(&seeds);
            }
            cmd.stdout(std::process::Stdio::null()).stderr(std::process::Stdio::piped());
            match cmd.spawn() {
                Ok(c) => children.push((c, corpus)),
                Err(e) => {
                    self.health_failures.lock().unwrap().push(format!("cannot spawn {}: {e}", bin.display()));
                    return;
                }
            }
        }
        let mut execs = 0u64;
        let mut new_units = 0u64;
        let mut cov = 0u64;
        let mut samples = vec![];
        for (c, corpus) in children {
            let out = match c.wait_with_output() {
                Ok(o) => o,
                Err(e) => {
                    self.health_failures.lock().unwrap().push(format!("fuzz process failed: {e}"));
                    return;
                }
            };
            let err = String::from_utf8_lossy(&out.stderr);
            for l in err.lines() {
                if let Some(v) = l.strip_prefix("stat::number_of_executed_units:") {
                    execs += v.trim().parse::<u64>().unwrap_or(0);
                } else if let Some(v) = l.strip_prefix("stat::new_units_added:") {
                    new_units += v.trim().parse::<u64>().unwrap_or(0);
                } else if l.contains(" cov: ") {
                    if let Some(x) = l.split(" cov: ").nth(1).and_then(|r| r.split_whitespace().next()).and_then(|n| n.parse::<u64>().ok()) {
                        cov = cov.max(x);
                    }
                }
            }
            if !out.status.success() {
                // find the artifact path libFuzzer reports
                let art = err
                    .lines()
                    .filter_map(|l| l.split("Test unit written to ").nth(1))
                    .map(|p| PathBuf::from(p.trim()))
                    .next();
                let msg = err.lines().filter(|l| l.contains("panicked") || l.contains("assertion") || l.contains("left:") || l.contains("right:") || l.contains("ERROR: libFuzzer")).take(5).collect::<Vec<_>>().join(" | ");
                match art {
                    Some(a) if msg.contains("timeout") || msg.contains("out-of-memory") => {
                        self.health_failures.lock().unwrap().push(format!("fuzz target {target}: {msg} (input {})", a.display()));
                    }
                    Some(a) => self.external_violation(&sub, &a, &msg),
                    None => self.health_failures.lock().unwrap().push(format!("fuzz target {target} ended abnormally without an artifact: {msg}")),
                }
            }
            if samples.len() < 2 {
                if let Ok(rd) = std::fs::read_dir(&corpus) {
                    for e in rd.flatten().take(2 - samples.len()) {
                        if let Ok(b) = std::fs::read(e.path()) {
                            samples.push(format!("corpus input ({} bytes): {}", b.len(), hex::encode(&b[..b.len().min(96)])));
                        }
                    }
                }
            }
            let _ = std::fs::remove_dir_all(&corpus);
        }
        let mut counters = BTreeMap::new();
        counters.insert("executions".to_string(), execs);
        counters.insert("coverage-increasing-inputs".to_string(), new_units);
        counters.insert("edges-covered".to_string(), cov);
        counters.insert("regression-inputs-replayed".to_string(), regressions);
        counters.insert("processes".to_string(), procs as u64);
        println!(
            "  [{}] {sub}: {execs} executions on {procs} process(es), {new_units} coverage-increasing inputs, {cov} edges, {regressions} regression inputs in {:.1}s",
            self.property,
            t0.elapsed().as_secs_f64()
        );
        self.external_sub(&sub, "libFuzzer campaign (coverage-guided, semantic oracle inside the target)", execs + regressions, new_units, samples, counters, t0.elapsed().as_secs_f64());
    }

    pub fn violated(&self) -> bool {
        !self.violations.lock().unwrap().is_empty()
    }

    /// Declares a minimum fraction for a label inside a sub-check (generator health).
    pub fn require_label_fraction(&self, sub: &str, label: &str, min_fraction: f64) {
        if self.is_replay() || self.violated() {
            return;
        }
        let subs = self.subs.lock().unwrap();
        if let Some((_, st)) = subs.iter().find(|(n, _)| n == sub) {
            let got = *st.labels.get(label).unwrap_or(&0) as f64 / (st.evaluations.max(1) as f64);
            if got < min_fraction {
                self.health_failures.lock().unwrap().push(format!(
                    "sub-check {sub}: label '{label}' fraction {got:.4} < required {min_fraction:.4}"
                ));
            }
        }
    }

    /// Declares a minimum absolute count for a label or counter inside a sub-check.
    pub fn require_min_count(&self, sub: &str, name: &str, min: u64) {
        if self.is_replay() || self.violated() {
            return;
        }
        let subs = self.subs.lock().unwrap();
        if let Some((_, st)) = subs.iter().find(|(n, _)| n == sub) {
            let got = st
                .labels
                .get(name)
                .or_else(|| st.counters.get(name))
                .copied()
                .unwrap_or(0);
            if got < min {
                self.health_failures
                    .lock()
                    .unwrap()
                    .push(format!("sub-check {sub}: '{name}' count {got} < required {min}"));
            }
        }
    }

    /// Runs a property over generated values. `cases` is the total quota over all workers.
    /// `make_strategy` is called once per worker thread (so the strategy itself need not be
    /// `Send`/`Sync`/`Clone`; `BoxedStrategy` from the repo's generators is fine).
    pub fn run_prop<S, G, F>(self: &Arc<Self>, sub: &str, make_strategy: G, cases: u64, f: F)
    where
        S: Strategy,
        G: Fn() -> S + Send + Sync,
        S::Value: Debug,
        F: Fn(&S::Value) -> CaseResult + Send + Sync,
    {
        self.run_prop_with(sub, make_strategy, cases, 4096, f)
    }

    pub fn run_prop_with<S, G, F>(
        self: &Arc<Self>,
        sub: &str,
        make_strategy: G,
        cases: u64,
        max_shrink_iters: u32,
        f: F,
    ) where
        S: Strategy,
        G: Fn() -> S + Send + Sync,
        S::Value: Debug,
        F: Fn(&S::Value) -> CaseResult + Send + Sync,
    {
        if !self.wants(sub) || (self.violated() && !self.is_replay()) {
            return;
        }
        let t0 = Instant::now();
        let workers = if cases < self.workers as u64 * 4 {
            1.max((cases / 4) as u32).min(self.workers)
        } else {
            self.workers
        };
        let only_worker = self.replay.as_ref().map(|r| r.worker);
        let stop = AtomicBool::new(false);
        let winner = std::sync::atomic::AtomicU32::new(u32::MAX);
        let distinct: Mutex<HashSet<u64>> = Mutex::new(HashSet::new());
        let capped = AtomicBool::new(false);
        let stats = Mutex::new(SubStats {
            kind: "proptest",
            ..Default::default()
        });
        let evals = AtomicU64::new(0);
        let f = &f;
        std::thread::scope(|scope| {
            for w in 0..workers {
                if let Some(ow) = only_worker {
                    if ow != w {
                        continue;
                    }
                }
                let quota = cases / workers as u64 + if (w as u64) < cases % workers as u64 { 1 } else { 0 };
                if quota == 0 {
                    continue;
                }
                let make_strategy = &make_strategy;
                let winner = &winner;
                let stop = &stop;
                let distinct = &distinct;
                let capped = &capped;
                let stats = &stats;
                let evals = &evals;
                let this = self.clone();
                let sub = sub.to_string();
                std::thread::Builder::new()
                    .stack_size(64 << 20)
                    .spawn_scoped(scope, move || {
                        let strategy = make_strategy();
                        let cfg = Config {
                            cases: quota.min(u32::MAX as u64) as u32,
                            failure_persistence: None,
                            max_shrink_iters,
                            max_global_rejects: 1 << 20,
                            max_local_rejects: 1 << 16,
                            source_file: None,
                            ..Config::default()
                        };
                        let seed = derive_seed(this.seed, this.property, &sub, w);
                        let rng = TestRng::from_seed(RngAlgorithm::ChaCha, &seed);
                        let mut runner = TestRunner::new_with_rng(cfg, rng);
                        let failed_once = std::cell::Cell::new(false);
                        // local buffers to limit lock traffic
                        let local = std::cell::RefCell::new(SubStats::default());
                        let local_keys = std::cell::RefCell::new(Vec::<u64>::new());
                        let last_fail: std::cell::RefCell<Option<Fail>> = std::cell::RefCell::new(None);
                        let flush = |local: &mut SubStats, keys: &mut Vec<u64>| {
                            let mut st = stats.lock().unwrap();
                            st.evaluations += local.evaluations;
                            st.nontrivial += local.nontrivial;
                            for (k, v) in std::mem::take(&mut local.labels) {
                                *st.labels.entry(k).or_default() += v;
                            }
                            for (k, v) in std::mem::take(&mut local.counters) {
                                *st.counters.entry(k).or_default() += v;
                            }
                            for (k, v) in std::mem::take(&mut local.known_hits) {
                                *st.known_hits.entry(k).or_default() += v;
                            }
                            for s in std::mem::take(&mut local.samples) {
                                if st.samples.len() < MAX_SAMPLES {
                                    st.samples.push(s);
                                }
                            }
                            local.evaluations = 0;
                            local.nontrivial = 0;
                            drop(st);
                            if !keys.is_empty() {
                                let mut d = distinct.lock().unwrap();
                                if d.len() < DISTINCT_CAP {
                                    d.extend(keys.drain(..));
                                } else {
                                    capped.store(true, Ordering::Relaxed);
                                    keys.clear();
                                }
                            }
                        };
                        let result = runner.run(&strategy, |v| {
                            if failed_once.get() {
                                // another worker reports its failure: end this shrink quickly
                                if winner.load(Ordering::Relaxed) != w {
                                    return Ok(());
                                }
                                // shrinking: evaluate the oracle only, no bookkeeping
                                return match catch(|| f(&v)) {
                                    Ok(Ok(_)) => Ok(()),
                                    Ok(Err(fl)) => match this.is_known(&fl.signature) {
                                        Some(_) => Ok(()),
                                        None => {
                                            let m = fl.msg.clone();
                                            *last_fail.borrow_mut() = Some(fl);
                                            Err(TestCaseError::fail(m))
                                        }
                                    },
                                    Err(p) => {
                                        let fl = Fail::new(
                                            format!("harness-panic:{}", panic_site(&p)),
                                            format!("uncaught panic in oracle: {p}"),
                                        );
                                        match this.is_known(&fl.signature) {
                                            Some(_) => Ok(()),
                                            None => {
                                                let m = fl.msg.clone();
                                                *last_fail.borrow_mut() = Some(fl);
                                                Err(TestCaseError::fail(m))
                                            }
                                        }
                                    }
                                };
                            }
                            if stop.load(Ordering::Relaxed) {
                                return Ok(());
                            }
                            evals.fetch_add(1, Ordering::Relaxed);
                            let r = match catch(|| f(&v)) {
                                Ok(r) => r,
                                Err(p) => Err(Fail::new(
                                    format!("harness-panic:{}", panic_site(&p)),
                                    format!("uncaught panic in oracle: {p}"),
                                )),
                            };
                            let mut l = local.borrow_mut();
                            l.evaluations += 1;
                            match r {
                                Ok(obs) => {
                                    for lb in &obs.labels {
                                        *l.labels.entry((*lb).to_string()).or_default() += 1;
                                    }
                                    for (c, n) in &obs.counters {
                                        *l.counters.entry((*c).to_string()).or_default() += n;
                                    }
                                    if obs.nontrivial {
                                        l.nontrivial += 1;
                                        let key = if obs.key != 0 { obs.key } else { hash_debug(&v) };
                                        local_keys.borrow_mut().push(key);
                                        if l.samples.len() < 2 {
                                            l.samples.push(truncate(format!("{v:?}"), SAMPLE_CHARS));
                                        }
                                    }
                                    if l.evaluations >= 512 {
                                        flush(&mut l, &mut local_keys.borrow_mut());
                                    }
                                    Ok(())
                                }
                                Err(fl) => match this.triage(fl) {
                                    Ok(sig) => {
                                        *l.known_hits.entry(sig).or_default() += 1;
                                        Ok(())
                                    }
                                    Err(fl) => {
                                        failed_once.set(true);
                                        stop.store(true, Ordering::Relaxed);
                                        let _ = winner.compare_exchange(u32::MAX, w, Ordering::SeqCst, Ordering::SeqCst);
                                        let m = fl.msg.clone();
                                        *last_fail.borrow_mut() = Some(fl);
                                        Err(TestCaseError::fail(m))
                                    }
                                },
                            }
                        });
                        flush(&mut local.borrow_mut(), &mut local_keys.borrow_mut());
                        match result {
                            Ok(()) => {}
                            Err(TestError::Fail(_, _)) if winner.load(Ordering::SeqCst) != w => {}
                            Err(TestError::Fail(reason, value)) => {
                                // Re-evaluate the shrunk value to get its own signature/message.
                                let fl = match catch(|| f(&value)) {
                                    Ok(Err(fl)) => fl,
                                    Err(p) => Fail::new(
                                        format!("harness-panic:{}", panic_site(&p)),
                                        format!("uncaught panic in oracle: {p}"),
                                    ),
                                    Ok(Ok(_)) => last_fail.borrow_mut().take().unwrap_or_else(|| {
                                        Fail::new("flaky", format!("not reproducible on shrunk value: {reason}"))
                                    }),
                                };
                                this.write_violation(&sub, "prop", w, None, &format!("{value:#?}"), &fl, None);
                            }
                            Err(TestError::Abort(reason)) => {
                                this.health_failures
                                    .lock()
                                    .unwrap()
                                    .push(format!("sub-check {sub}: proptest aborted: {reason}"));
                            }
                        }
                    })
                    .expect("spawn");
            }
        });
        let mut st = stats.into_inner().unwrap();
        let d = distinct.into_inner().unwrap();
        st.distinct_nontrivial = d.len() as u64;
        st.distinct_capped = capped.load(Ordering::Relaxed);
        st.wall_s = t0.elapsed().as_secs_f64();
        self.push_sub(sub, st);
    }

    /// Exhaustively enumerates indices `0..n`; `f(i)` builds and checks case `i`. `describe(i)` is
    /// only called for samples and failures.
    pub fn run_enum<F, D>(self: &Arc<Self>, sub: &str, n: u64, exhaustive: bool, f: F, describe: D)
    where
        F: Fn(u64) -> CaseResult + Send + Sync,
        D: Fn(u64) -> String + Send + Sync,
    {
        if !self.wants(sub) || (self.violated() && !self.is_replay()) {
            return;
        }
        let t0 = Instant::now();
        if let Some(r) = &self.replay {
            if let Some(i) = r.index {
                match catch(|| f(i)) {
                    Ok(Ok(_)) => {}
                    Ok(Err(fl)) => {
                        if let Err(fl) = self.triage(fl) {
                            self.write_violation(sub, "enum", 0, Some(i), &describe(i), &fl, None);
                        }
                    }
                    Err(p) => {
                        let fl = Fail::new(format!("harness-panic:{}", panic_site(&p)), p);
                        self.write_violation(sub, "enum", 0, Some(i), &describe(i), &fl, None);
                    }
                }
                return;
            }
        }
        let workers = self.workers.min(n.max(1) as u32).max(1);
        let stop = AtomicBool::new(false);
        let distinct: Mutex<HashSet<u64>> = Mutex::new(HashSet::new());
        let capped = AtomicBool::new(false);
        let stats = Mutex::new(SubStats {
            kind: "enumeration",
            exhaustive: Some(exhaustive),
            ..Default::default()
        });
        let first_fail: Mutex<Option<(u64, Fail)>> = Mutex::new(None);
        let next = AtomicU64::new(0);
        const CHUNK: u64 = 256;
        let f = &f;
        std::thread::scope(|scope| {
            for _w in 0..workers {
                let stop = &stop;
                let distinct = &distinct;
                let capped = &capped;
                let stats = &stats;
                let first_fail = &first_fail;
                let next = &next;
                let this = self.clone();
                let describe = &describe;
                std::thread::Builder::new()
                    .stack_size(64 << 20)
                    .spawn_scoped(scope, move || {
                        let mut local = SubStats::default();
                        let mut keys: Vec<u64> = vec![];
                        loop {
                            if stop.load(Ordering::Relaxed) {
                                break;
                            }
                            let start = next.fetch_add(CHUNK, Ordering::Relaxed);
                            if start >= n {
                                break;
                            }
                            let end = (start + CHUNK).min(n);
                            for i in start..end {
                                local.evaluations += 1;
                                let r = match catch(|| f(i)) {
                                    Ok(r) => r,
                                    Err(p) => Err(Fail::new(
                                        format!("harness-panic:{}", panic_site(&p)),
                                        format!("uncaught panic in oracle: {p}"),
                                    )),
                                };
                                match r {
                                    Ok(obs) => {
                                        for lb in &obs.labels {
                                            *local.labels.entry((*lb).to_string()).or_default() += 1;
                                        }
                                        for (c, k) in &obs.counters {
                                            *local.counters.entry((*c).to_string()).or_default() += k;
                                        }
                                        if obs.nontrivial {
                                            local.nontrivial += 1;
                                            keys.push(if obs.key != 0 {
                                                obs.key
                                            } else {
                                                hash64(&i.to_le_bytes()) ^ 0x9e3779b97f4a7c15
                                            });
                                            if local.samples.len() < 1 {
                                                local.samples.push(truncate(describe(i), SAMPLE_CHARS));
                                            }
                                        }
                                    }
                                    Err(fl) => match this.triage(fl) {
                                        Ok(sig) => {
                                            *local.known_hits.entry(sig).or_default() += 1;
                                        }
                                        Err(fl) => {
                                            let mut ff = first_fail.lock().unwrap();
                                            if ff.as_ref().map(|(j, _)| i < *j).unwrap_or(true) {
                                                *ff = Some((i, fl));
                                            }
                                            stop.store(true, Ordering::Relaxed);
                                            break;
                                        }
                                    },
                                }
                            }
                            if keys.len() > 4096 {
                                let mut d = distinct.lock().unwrap();
                                if d.len() < DISTINCT_CAP {
                                    d.extend(keys.drain(..));
                                } else {
                                    capped.store(true, Ordering::Relaxed);
                                    keys.clear();
                                }
                            }
                        }
                        let mut st = stats.lock().unwrap();
                        st.evaluations += local.evaluations;
                        st.nontrivial += local.nontrivial;
                        for (k, v) in local.labels {
                            *st.labels.entry(k).or_default() += v;
                        }
                        for (k, v) in local.counters {
                            *st.counters.entry(k).or_default() += v;
                        }
                        for (k, v) in local.known_hits {
                            *st.known_hits.entry(k).or_default() += v;
                        }
                        for s in local.samples {
                            if st.samples.len() < MAX_SAMPLES {
                                st.samples.push(s);
                            }
                        }
                        drop(st);
                        let mut d = distinct.lock().unwrap();
                        if d.len() < DISTINCT_CAP {
                            d.extend(keys.drain(..));
                        } else if !keys.is_empty() {
                            capped.store(true, Ordering::Relaxed);
                        }
                    })
                    .expect("spawn");
            }
        });
        if let Some((i, fl)) = first_fail.into_inner().unwrap() {
            self.write_violation(sub, "enum", 0, Some(i), &describe(i), &fl, None);
        }
        let mut st = stats.into_inner().unwrap();
        if stop.load(Ordering::Relaxed) {
            st.exhaustive = Some(false);
        }
        st.distinct_nontrivial = distinct.into_inner().unwrap().len() as u64;
        st.distinct_capped = capped.load(Ordering::Relaxed);
        st.wall_s = t0.elapsed().as_secs_f64();
        self.push_sub(sub, st);
    }

    fn push_sub(&self, sub: &str, st: SubStats) {
        println!(
            "  [{}] {}: {} evaluations, {} non-trivial ({} distinct){}{} in {:.1}s",
            self.property,
            sub,
            st.evaluations,
            st.nontrivial,
            st.distinct_nontrivial,
            if st.exhaustive == Some(true) { ", exhaustive" } else { "" },
            if st.known_hits.is_empty() {
                String::new()
            } else {
                format!(", known-finding hits {:?}", st.known_hits)
            },
            st.wall_s
        );
        self.subs.lock().unwrap().push((sub.to_string(), st));
    }

    /// Writes the evidence file and exits with the protocol's code.
    pub fn finish(&self) -> ! {
        let subs = self.subs.lock().unwrap();
        let violations = self.violations.lock().unwrap();
        let health = self.health_failures.lock().unwrap();
        let mut evaluations = 0u64;
        let mut distinct = 0u64;
        let mut labels: BTreeMap<String, u64> = BTreeMap::new();
        let mut samples: Vec<Value> = vec![];
        let mut sub_json = serde_json::Map::new();
        let mut excluded_known: BTreeMap<String, u64> = BTreeMap::new();
        let mut all_exhaustive_subs: Vec<String> = vec![];
        for (name, st) in subs.iter() {
            evaluations += st.evaluations;
            distinct += st.distinct_nontrivial;
            for (k, v) in &st.labels {
                *labels.entry(format!("{name}/{k}")).or_default() += v;
            }
            for (k, v) in &st.known_hits {
                *excluded_known.entry(k.clone()).or_default() += v;
            }
            for s in st.samples.iter().take(3) {
                samples.push(json!({"sub_check": name, "case": s}));
            }
            if st.exhaustive == Some(true) {
                all_exhaustive_subs.push(name.clone());
            }
            sub_json.insert(
                name.clone(),
                json!({
                    "kind": st.kind,
                    "evaluations": st.evaluations,
                    "nontrivial": st.nontrivial,
                    "distinct_nontrivial": st.distinct_nontrivial,
                    "distinct_count_capped": st.distinct_capped,
                    "exhaustive": st.exhaustive,
                    "labels": st.labels,
                    "counters": st.counters,
                    "known_finding_hits": st.known_hits,
                    "wall_s": (st.wall_s * 100.0).round() / 100.0,
                }),
            );
        }
        for (k, v) in self.extra_known.lock().unwrap().iter() {
            *excluded_known.entry(k.clone()).or_default() += v;
        }
        let all_exh = !subs.is_empty() && subs.iter().all(|(_, s)| s.exhaustive == Some(true));
        let mut coverage = serde_json::Map::new();
        coverage.insert("evaluations".into(), json!(evaluations));
        coverage.insert("distinct_nontrivial".into(), json!(distinct));
        coverage.insert("rule".into(), json!(self.rule.lock().unwrap().clone()));
        coverage.insert("samples".into(), Value::Array(samples));
        coverage.insert("labels".into(), json!(labels));
        coverage.insert("sub_checks".into(), Value::Object(sub_json));
        coverage.insert("excluded_known".into(), json!(excluded_known));
        coverage.insert("exhaustive".into(), json!(all_exh));
        coverage.insert("exhaustive_sub_checks".into(), json!(all_exhaustive_subs));
        coverage.insert("workers".into(), json!(self.workers));
        for (k, v) in self.extra.lock().unwrap().iter() {
            coverage.insert(k.clone(), v.clone());
        }
        if !health.is_empty() {
            coverage.insert("generator_health_failures".into(), json!(health.clone()));
        }
        let doc = json!({
            "property_id": self.property,
            "tier": self.tier.name(),
            "seed": self.seed,
            "level": self.level,
            "coverage": Value::Object(coverage),
            "assumptions": self.assumptions.lock().unwrap().clone(),
            "wall_s": (self.start.elapsed().as_secs_f64() * 100.0).round() / 100.0,
            "violations": violations.len(),
        });
        if std::env::var("VERIF_CHILD").is_ok() {
            // child process of a check: no evidence file, a machine-readable summary instead
            println!("CHILD-SUMMARY {}", serde_json::to_string(&doc).unwrap());
        } else if !self.is_replay() {
            let dir = self.root.join("evidence");
            let _ = std::fs::create_dir_all(&dir);
            let p = dir.join(format!("{}.json", self.property));
            if let Err(e) = std::fs::write(&p, serde_json::to_string_pretty(&doc).unwrap()) {
                eprintln!("cannot write evidence {}: {e}", p.display());
                std::process::exit(2);
            }
        }
        if !violations.is_empty() {
            println!(
                "RESULT property={} tier={} seed={} violations={}",
                self.property,
                self.tier.name(),
                self.seed,
                violations.len()
            );
            std::process::exit(1);
        }
        if !health.is_empty() {
            for h in health.iter() {
                println!("INCONCLUSIVE property={} generator-health: {h}", self.property);
            }
            std::process::exit(2);
        }
        println!(
            "RESULT property={} tier={} seed={} held on {} evaluations ({} distinct non-trivial) in {:.1}s",
            self.property,
            self.tier.name(),
            self.seed,
            evaluations,
            distinct,
            self.start.elapsed().as_secs_f64()
        );
        std::process::exit(0);
    }
}

/// Monotone index mapping for shrink-friendly selection: maps a u16-ish selector to 0..len.
pub fn pick_index(sel: u32, len: usize) -> usize {
    debug_assert!(len > 0);
    ((sel as u64 * len as u64) >> 32) as usize
}

//! C17 — Pool-migration schedules, anchors, expiries and labels stay canonical.
//!
//! Oracles: integer reference models in u64/i128 written from the rustdoc of
//! `zcash_pool_migration::scheduling` and `zcash_protocol::zip318`; brute-force minimum piercing
//! sets for the wake-up schedule; exhaustive evidence lattice for `classify`.
//! RNG domain: a scripted `u64` prefix (biased / low-entropy words) followed by a ChaCha tail.

use std::collections::BTreeMap;
use std::num::NonZeroU32;

use proptest::collection::vec as pvec;
use proptest::prelude::*;
use proptest::sample::select;
use rand_chacha::ChaCha20Rng;
use rand_core::{CryptoRng, RngCore, SeedableRng};
use vcore::{catch, pick_index, vensure, vensure_eq, vfail, CaseResult, Ctx, Fail, Obs};
use zcash_pool_migration::scheduling::{
    draw_anchor_boundary, earliest_broadcast_height, redraw_anchor_boundary, schedule,
    schedule_broadcast_heights, schedule_prep_broadcast_heights, schedule_sync_wakeups,
    shuffle_in_place, shuffle_indices, AnchorBucketInterval, DelayDistribution, SchedulingParams,
    WakeupParams, WakeupScheduleError,
};
use zcash_protocol::consensus::BlockHeight;
use zcash_protocol::value::Zatoshis;
use zcash_protocol::zip318::{
    self, classify, PoolMigrationConstants, Zip318Classification, Zip318Evidence, Zip318TxKind,
};

const MAXH: u64 = u32::MAX as u64;
/// Written from the ZIP 318 text quoted in the rustdoc (not imported from the crate).
const REF_EXPIRY_MODULUS: u64 = 34_560;
const REF_EXPIRY_WINDOW: u64 = 69_120;
const REF_AGE_CAP: u64 = 4;

fn bh(h: u32) -> BlockHeight {
    BlockHeight::from_u32(h)
}
fn clamp_h(x: i128) -> u32 {
    x.clamp(0, MAXH as i128) as u32
}

// ---------------------------------------------------------------------------------------------
// ScriptedRng
// ---------------------------------------------------------------------------------------------

const RUNAWAY_LIMIT: u64 = 1_000_000;
const RUNAWAY_MSG: &str = "c17-scripted-rng-runaway";

/// Replays `prefix`, then continues with ChaCha20 seeded from the case. Counts draws; more than
/// `RUNAWAY_LIMIT` draws aborts the call under test (reported as `rng-runaway`).
#[derive(Clone)]
struct ScriptedRng {
    prefix: Vec<u64>,
    pos: usize,
    tail: ChaCha20Rng,
    steps: u64,
}

impl ScriptedRng {
    fn new(prefix: Vec<u64>, seed: [u8; 32]) -> Self {
        ScriptedRng { prefix, pos: 0, tail: ChaCha20Rng::from_seed(seed), steps: 0 }
    }
}

impl RngCore for ScriptedRng {
    fn next_u32(&mut self) -> u32 {
        (self.next_u64() >> 32) as u32
    }
    fn next_u64(&mut self) -> u64 {
        self.steps += 1;
        if self.steps > RUNAWAY_LIMIT {
            panic!("{RUNAWAY_MSG}");
        }
        if self.pos < self.prefix.len() {
            let w = self.prefix[self.pos];
            self.pos += 1;
            w
        } else {
            self.tail.next_u64()
        }
    }
    fn fill_bytes(&mut self, dest: &mut [u8]) {
        rand_core::impls::fill_bytes_via_next(self, dest)
    }
    fn try_fill_bytes(&mut self, dest: &mut [u8]) -> Result<(), rand_core::Error> {
        self.fill_bytes(dest);
        Ok(())
    }
}
impl CryptoRng for ScriptedRng {}

/// Runs code under test; a panic becomes a Fail with `sig` (or `rng-runaway`).
fn guarded<T>(what: &str, sig: &'static str, f: impl FnOnce() -> T) -> Result<T, Fail> {
    catch(f).map_err(|p| {
        if p.contains(RUNAWAY_MSG) {
            Fail::new("rng-runaway", format!("{what}: more than {RUNAWAY_LIMIT} RNG draws in one case"))
        } else {
            Fail::new(sig, format!("{what} panicked: {p}"))
        }
    })
}

/// One symbolic element of the scripted prefix.
#[derive(Clone, Debug)]
enum Sym {
    /// A run of zero words.
    Zero(u8),
    One,
    Max,
    High,
    Bit(u8),
    /// The same word repeated (low entropy).
    Rep(u64, u8),
    Lit(u64),
    /// A word whose inverse-CDF delay lands at `cap + delta` for the case's distribution.
    NearCap { delta: i8, lo: u16 },
}

fn resolve_script(script: &[Sym], dist: Option<(u32, u32)>) -> Vec<u64> {
    let mut out = Vec::new();
    for s in script {
        match *s {
            Sym::Zero(n) => out.extend(std::iter::repeat(0u64).take(n as usize)),
            Sym::One => out.push(1),
            Sym::Max => out.push(u64::MAX),
            Sym::High => out.push(1 << 63),
            Sym::Bit(k) => out.push(1u64 << (k % 64)),
            Sym::Rep(w, n) => out.extend(std::iter::repeat(w).take(n as usize)),
            Sym::Lit(w) => out.push(w),
            Sym::NearCap { delta, lo } => match dist {
                Some((mean, cap)) => {
                    // target x in [cap+delta-0.5, cap+delta+0.5): rounds to cap+delta
                    let x = cap as f64 + delta as f64 + (lo as f64 / 65536.0 - 0.5);
                    let u = (-(x.max(0.0)) / mean as f64).exp();
                    let k = ((1.0 - u) * (1u64 << 53) as f64) as u64;
                    let k = k.min((1u64 << 53) - 1);
                    out.push((k << 11) | (lo as u64 & 0x7ff));
                }
                None => out.push((lo as u64).wrapping_mul(0x0001_0001_0001_0001)),
            },
        }
    }
    out
}

fn arb_sym() -> impl Strategy<Value = Sym> {
    prop_oneof![
        3 => (1u8..=8).prop_map(Sym::Zero),
        2 => Just(Sym::One),
        2 => Just(Sym::Max),
        2 => Just(Sym::High),
        2 => (0u8..64).prop_map(Sym::Bit),
        2 => (any::<u64>(), 1u8..=4).prop_map(|(w, n)| Sym::Rep(w, n)),
        2 => (any::<u8>(), 1u8..=4).prop_map(|(b, n)| Sym::Rep(u64::from_le_bytes([b; 8]), n)),
        4 => any::<u64>().prop_map(Sym::Lit),
        2 => (any::<u64>(), 1u32..=12).prop_map(|(w, s)| Sym::Lit(w << s)),
        3 => (-2i8..=2, any::<u16>()).prop_map(|(delta, lo)| Sym::NearCap { delta, lo }),
    ]
}

fn arb_script() -> impl Strategy<Value = (Vec<Sym>, [u8; 32])> {
    (pvec(arb_sym(), 0..=12), any::<[u8; 32]>())
}

// ---------------------------------------------------------------------------------------------
// Symbolic heights (resolved against the case's grid interval)
// ---------------------------------------------------------------------------------------------

#[derive(Clone, Copy, Debug)]
enum K {
    Low(u8),
    High(u8),
    Any(u32),
}
#[derive(Clone, Copy, Debug)]
enum Off {
    Small(i8),
    Frac(u32),
}
#[derive(Clone, Copy, Debug)]
enum H {
    Lit(u32),
    /// k-th multiple of the grid interval plus an offset.
    Grid(K, Off),
    /// k-th multiple of EXPIRY_MODULUS plus an offset.
    Expiry(K, Off),
    /// u32::MAX - k
    Top(u32),
}

fn resolve_k(k: K, modulus: u64) -> u64 {
    let m = MAXH / modulus; // largest multiple index
    match k {
        K::Low(x) => (x as u64).min(m),
        K::High(x) => m - (x as u64).min(m),
        K::Any(s) => pick_index(s, (m + 1) as usize) as u64,
    }
}
fn resolve_off(o: Off, modulus: u64) -> i128 {
    match o {
        Off::Small(x) => x as i128,
        Off::Frac(f) => pick_index(f, modulus as usize) as i128,
    }
}
impl H {
    fn resolve(self, interval: u32) -> u32 {
        match self {
            H::Lit(h) => h,
            H::Grid(k, o) => {
                let m = interval as u64;
                clamp_h((resolve_k(k, m) * m) as i128 + resolve_off(o, m))
            }
            H::Expiry(k, o) => {
                let m = REF_EXPIRY_MODULUS;
                clamp_h((resolve_k(k, m) * m) as i128 + resolve_off(o, m))
            }
            H::Top(k) => u32::MAX - k,
        }
    }
}

fn arb_k() -> impl Strategy<Value = K> {
    prop_oneof![
        3 => (0u8..=8).prop_map(K::Low),
        3 => (0u8..=8).prop_map(K::High),
        2 => any::<u32>().prop_map(K::Any),
    ]
}
fn arb_off() -> impl Strategy<Value = Off> {
    prop_oneof![
        4 => (-2i8..=2).prop_map(Off::Small),
        1 => any::<i8>().prop_map(Off::Small),
        2 => any::<u32>().prop_map(Off::Frac),
    ]
}
fn arb_h() -> impl Strategy<Value = H> {
    prop_oneof![
        1 => select(vec![0u32, 1, 2, u32::MAX, u32::MAX - 1, 1 << 31, (1 << 31) - 1]).prop_map(H::Lit),
        1 => any::<u32>().prop_map(H::Lit),
        1 => (0u32..3_500_000).prop_map(H::Lit),
        3 => (arb_k(), arb_off()).prop_map(|(k, o)| H::Grid(k, o)),
        2 => (arb_k(), arb_off()).prop_map(|(k, o)| H::Expiry(k, o)),
        1 => (0u32..=600).prop_map(H::Top),
    ]
}

fn interval_lattice() -> Vec<u32> {
    vec![
        1, 2, 3, 5, 12, 100, 143, 144, 145, 1000, 34_560, 65_536, 65_537, 1 << 30, (1 << 31) - 1, 1 << 31,
        (1 << 31) + 1, u32::MAX / 5, u32::MAX / 4, u32::MAX / 3, u32::MAX - 1, u32::MAX,
    ]
}
fn arb_interval() -> impl Strategy<Value = u32> {
    prop_oneof![
        4 => Just(144u32),
        4 => select(interval_lattice()),
        3 => 1u32..=2000,
        1 => any::<u32>().prop_map(|x| x.max(1)),
    ]
}
/// Grid intervals for the anchor draws: mostly intervals with many multiples below u32::MAX.
fn arb_anchor_interval() -> impl Strategy<Value = u32> {
    prop_oneof![
        4 => Just(144u32),
        3 => select(vec![1u32, 2, 3, 5, 12, 100, 143, 145, 1000, 34_560, 65_536, 65_537]),
        4 => 1u32..=2000,
        1 => select(interval_lattice()),
        1 => any::<u32>().prop_map(|x| x.max(1)),
    ]
}
fn mk_interval(i: u32) -> AnchorBucketInterval {
    AnchorBucketInterval::custom(NonZeroU32::new(i).expect("nonzero interval"))
}

// ---------------------------------------------------------------------------------------------
// Reference arithmetic
// ---------------------------------------------------------------------------------------------

fn ref_expiry(h: u32, modulus: u64, window: u64) -> u64 {
    let h = h as u64;
    (h - h % modulus + window).min(MAXH)
}

/// Candidate anchor set: boundaries b with b > act (if given), b >= floor, b < mr, mr - b <= 4*I.
fn ref_candidates(i: u64, act: Option<u64>, floor: u64, tip: u64) -> Vec<u64> {
    let mr = tip / i * i;
    let mut out = vec![];
    for age in 1..=REF_AGE_CAP {
        if let Some(b) = mr.checked_sub(age * i) {
            if act.map_or(true, |a| b > a) && b >= floor {
                out.push(b);
            }
        }
    }
    out
}

fn check_member(what: &str, b: u64, i: u64, act: Option<u64>, floor: u64, tip: u64) -> Result<(), Fail> {
    let mr = tip / i * i;
    let ctx = format!("{what}: got {b} for interval={i} act={act:?} floor={floor} tip={tip} most_recent={mr}");
    vensure!(b % i == 0, "anchor-not-on-grid", "{ctx}");
    if let Some(a) = act {
        vensure!(b > a, "anchor-not-above-activation", "{ctx}");
    }
    vensure!(b >= floor, "anchor-before-floor", "{ctx}");
    vensure!(b < mr, "anchor-not-below-most-recent", "{ctx}");
    vensure!(mr - b <= REF_AGE_CAP * i, "anchor-too-old", "{ctx}");
    Ok(())
}

// ---------------------------------------------------------------------------------------------
// Sub-check: grid / expiry arithmetic on one (interval, height)
// ---------------------------------------------------------------------------------------------

struct DfltConsts;
impl PoolMigrationConstants for DfltConsts {}
struct ShortWindow;
impl PoolMigrationConstants for ShortWindow {
    fn expiry_window(&self) -> (u32, u32) {
        (100, 250)
    }
}

fn height_lattice(i: u32) -> Vec<u32> {
    let i64_ = i as u64;
    let m = MAXH / i64_;
    let mut v: Vec<i128> = vec![0, 1, 2, (1 << 31) - 1, 1 << 31, (1 << 31) + 1, 2_000_000, 3_000_000];
    for k in [1u64, 2, 3, 5, m.saturating_sub(5), m.saturating_sub(1), m] {
        for d in -1i128..=1 {
            v.push((k.min(m) * i64_) as i128 + d);
        }
    }
    let em = MAXH / REF_EXPIRY_MODULUS;
    for k in [1u64, 2, em - 2, em - 1, em] {
        for d in -1i128..=1 {
            v.push((k * REF_EXPIRY_MODULUS) as i128 + d);
        }
    }
    for k in 0..4 {
        v.push(MAXH as i128 - k);
    }
    let mut v: Vec<u32> = v.into_iter().filter(|x| (0..=MAXH as i128).contains(x)).map(|x| x as u32).collect();
    v.sort();
    v.dedup();
    v
}

fn check_grid_point(i: u32, h: u32) -> CaseResult {
    let iv = mk_interval(i);
    let (iu, hu) = (i as u64, h as u64);
    vensure_eq!(iv.block_count().get(), i, "interval-block-count", "custom({i}).block_count()");
    let isb = guarded("is_boundary", "grid-panic", || iv.is_boundary(bh(h)))?;
    vensure_eq!(isb, hu % iu == 0, "grid-is-boundary", "is_boundary({h}) interval {i}");
    let below = guarded("boundary_at_or_below", "grid-panic", || u32::from(iv.boundary_at_or_below(bh(h))))?;
    vensure_eq!(below as u64, hu / iu * iu, "grid-at-or-below", "boundary_at_or_below({h}) interval {i}");
    let above = guarded("boundary_at_or_above", "grid-panic", || u32::from(iv.boundary_at_or_above(bh(h))))?;
    let want_above = (hu.div_ceil(iu) * iu).min(MAXH);
    vensure_eq!(above as u64, want_above, "grid-at-or-above", "boundary_at_or_above({h}) interval {i}");

    // canonical rolling expiry
    let want = ref_expiry(h, REF_EXPIRY_MODULUS, REF_EXPIRY_WINDOW);
    let e1 = guarded("zip318::expiry_height", "expiry-panic", || u32::from(zip318::expiry_height(bh(h))))?;
    vensure_eq!(e1 as u64, want, "expiry-not-canonical", "zip318::expiry_height({h})");
    let e2 = guarded("scheduling::expiry_height", "expiry-panic", || {
        u32::from(zcash_pool_migration::scheduling::expiry_height(bh(h)))
    })?;
    vensure_eq!(e2 as u64, want, "expiry-not-canonical", "scheduling::expiry_height({h})");
    let e3 = guarded("canonical_expiry", "expiry-panic", || u32::from(DfltConsts.canonical_expiry(bh(h))))?;
    vensure_eq!(e3 as u64, want, "expiry-default-constants-differ", "PoolMigrationConstants::canonical_expiry({h}) defaults");
    vensure!(DfltConsts.is_canonical_expiry(bh(e3), bh(h)), "expiry-is-canonical-rejects-own", "is_canonical_expiry(canonical_expiry({h}), {h})");
    let e4 = guarded("canonical_expiry", "expiry-panic", || u32::from(ShortWindow.canonical_expiry(bh(h))))?;
    vensure_eq!(e4 as u64, ref_expiry(h, 100, 250), "expiry-overridden-window", "canonical_expiry({h}) with window (100,250)");
    // the documented guarantees, where no saturation occurs
    if want < MAXH {
        vensure!(want > hu && want - hu <= REF_EXPIRY_WINDOW, "expiry-window-guarantee", "expiry {want} for height {h}");
    }
    // height-independent form: e >= window && e % modulus == 0
    let v = guarded("is_canonical_expiry_value", "expiry-panic", || DfltConsts.is_canonical_expiry_value(bh(h)))?;
    vensure_eq!(v, hu >= REF_EXPIRY_WINDOW && hu % REF_EXPIRY_MODULUS == 0, "expiry-value-form", "is_canonical_expiry_value({h})");

    // ratio-derived default distributions: cap >= mean, value = zip value * I / 144 truncated, clamped to [1, u32::MAX]
    let p = guarded("new_with_default_distributions", "params-panic", || SchedulingParams::new_with_default_distributions(iv))?;
    let scale = |v: u64| (v * iu / 144).clamp(1, MAXH) as u32;
    vensure_eq!(p.transfer_delay().mean().get(), scale(66), "default-dist-scale", "transfer mean interval {i}");
    vensure_eq!(p.transfer_delay().cap().get(), scale(576), "default-dist-scale", "transfer cap interval {i}");
    vensure_eq!(p.preparation_delay().mean().get(), scale(16), "default-dist-scale", "prep mean interval {i}");
    vensure_eq!(p.preparation_delay().cap().get(), scale(96), "default-dist-scale", "prep cap interval {i}");
    vensure_eq!(p.anchor_bucket_interval(), iv, "default-dist-interval", "interval {i}");
    Ok(Obs::nontrivial()
        .key(vcore::hash64(&[i.to_le_bytes(), h.to_le_bytes()].concat()))
        .label_if(want == MAXH, "expiry-saturated")
        .label_if(want_above == MAXH && hu % iu != 0, "above-saturated")
        .label_if(isb, "on-boundary"))
}

/// earliest_broadcast_height(interval, act, fund): least tip with a non-empty candidate set.
fn check_earliest(i: u32, act: u32, fund: u32, rng: &mut ScriptedRng) -> Result<(bool, bool), Fail> {
    let iv = mk_interval(i);
    let iu = i as u64;
    let got = guarded("earliest_broadcast_height", "earliest-panic", || {
        u32::from(earliest_broadcast_height(iv, bh(act), bh(fund)))
    })?;
    let lowest = ((act as u64 / iu + 1) * iu).max((fund as u64).div_ceil(iu) * iu);
    let truth = lowest + iu;
    let ctx = format!("interval={i} act={act} fund={fund} earliest={got} reference={truth}");
    if truth <= MAXH {
        vensure_eq!(got as u64, truth, "earliest-broadcast-height-wrong", "{ctx}");
        // reference self-consistency (monotone in tip, so these two points decide "least")
        vensure!(!ref_candidates(iu, Some(act as u64), fund as u64, truth).is_empty(), "harness-earliest-reference", "{ctx}");
        vensure!(ref_candidates(iu, Some(act as u64), fund as u64, truth - 1).is_empty(), "harness-earliest-reference", "{ctx}");
        let at = guarded("draw_anchor_boundary@earliest", "anchor-draw-panic", || draw_anchor_boundary(iv, bh(act), bh(fund), bh(got), rng))?;
        vensure!(at.is_some(), "earliest-has-no-anchor", "draw at the earliest height returned None; {ctx}");
        check_member("draw@earliest", u32::from(at.unwrap()) as u64, iu, Some(act as u64), fund as u64, got as u64)?;
        let below = guarded("draw_anchor_boundary@earliest-1", "anchor-draw-panic", || draw_anchor_boundary(iv, bh(act), bh(fund), bh(got - 1), rng))?;
        vensure!(below.is_none(), "earliest-not-least", "draw one below the earliest height returned {below:?}; {ctx}");
        Ok((true, false))
    } else {
        // no representable height has a candidate: the draw at u32::MAX must be None.
        let at = guarded("draw_anchor_boundary@max", "anchor-draw-panic", || draw_anchor_boundary(iv, bh(act), bh(fund), bh(u32::MAX), rng))?;
        vensure!(at.is_none(), "anchor-some-but-no-candidates", "draw at u32::MAX returned {at:?}; {ctx}");
        Ok((false, true))
    }
}

// ---------------------------------------------------------------------------------------------
// Sub-check: DelayDistribution::draw
// ---------------------------------------------------------------------------------------------

fn dist_lattice() -> Vec<u32> {
    vec![1, 2, 16, 66, 96, 576, 1 << 31, u32::MAX - 1, u32::MAX]
}
fn arb_dist_value() -> impl Strategy<Value = u32> {
    prop_oneof![
        5 => select(dist_lattice()),
        3 => 1u32..=700,
        1 => any::<u32>().prop_map(|x| x.max(1)),
    ]
}
/// (mean, cap): mostly ordered so that the constructor accepts; sometimes raw.
fn arb_dist() -> impl Strategy<Value = (u32, u32)> {
    prop_oneof![
        8 => (arb_dist_value(), arb_dist_value()).prop_map(|(a, b)| (a.min(b), a.max(b))),
        2 => arb_dist_value().prop_map(|a| (a, a)),
        1 => (arb_dist_value(), arb_dist_value()),
    ]
}

#[derive(Clone, Debug)]
struct DelayCase {
    mean: u32,
    cap: u32,
    n: usize,
    script: Vec<Sym>,
    seed: [u8; 32],
}

fn mk_dist(mean: u32, cap: u32) -> Result<Option<DelayDistribution>, Fail> {
    let d = guarded("DelayDistribution::new", "delay-new-panic", || {
        DelayDistribution::new(NonZeroU32::new(mean).unwrap(), NonZeroU32::new(cap).unwrap())
    })?;
    match d {
        None => vensure!(cap < mean, "delay-new-rejects-valid", "new(mean={mean}, cap={cap}) returned None"),
        Some(d) => {
            vensure!(cap >= mean, "delay-new-accepts-cap-below-mean", "new(mean={mean}, cap={cap}) returned Some");
            vensure_eq!(d.mean().get(), mean, "delay-accessor", "mean()");
            vensure_eq!(d.cap().get(), cap, "delay-accessor", "cap()");
        }
    }
    Ok(d)
}

fn check_delay(c: &DelayCase) -> CaseResult {
    let Some(dist) = mk_dist(c.mean, c.cap)? else {
        return Ok(Obs::trivial().label("params-rejected"));
    };
    let mut rng = ScriptedRng::new(resolve_script(&c.script, Some((c.mean, c.cap))), c.seed);
    let (mut rejections, mut at_cap, mut zero) = (0u64, false, false);
    for k in 0..c.n {
        let before = rng.steps;
        let d = guarded("DelayDistribution::draw", "delay-draw-panic", || dist.draw(&mut rng))?;
        vensure!(d <= c.cap, "delay-exceeds-cap", "draw #{k} = {d} > cap {} (mean {})", c.cap, c.mean);
        rejections += rng.steps - before - 1;
        at_cap |= d == c.cap;
        zero |= d == 0;
    }
    Ok(Obs::new(rejections > 0)
        .label_if(rejections > 0, "rejection")
        .label_if(at_cap, "delay-eq-cap")
        .label_if(c.script.iter().any(|s| matches!(s, Sym::NearCap { delta: 0..=1, .. })), "aimed-at-cap-boundary")
        .label_if(zero, "delay-zero")
        .label_if(c.mean == c.cap, "mean-eq-cap")
        .label_if(c.cap >= 1 << 31, "huge-cap")
        .count("draws", c.n as u64)
        .count("rejections", rejections))
}

// ---------------------------------------------------------------------------------------------
// Sub-check: cumulative broadcast heights + expiry
// ---------------------------------------------------------------------------------------------

#[derive(Clone, Debug)]
struct SchedCase {
    interval: u32,
    transfer: (u32, u32),
    prep: (u32, u32),
    start: H,
    n: usize,
    script: Vec<Sym>,
    seed: [u8; 32],
}

fn check_heights(
    what: &str,
    got: &[BlockHeight],
    start: u32,
    n: usize,
    dist: &DelayDistribution,
    mut replay: ScriptedRng,
) -> Result<(bool, bool), Fail> {
    vensure_eq!(got.len(), n, "schedule-length", "{what}");
    let cap = dist.cap().get() as u64;
    let mut prev = start as u64;
    let mut acc = start as u64;
    let mut saturated = false;
    for (k, h) in got.iter().enumerate() {
        let h = u32::from(*h) as u64;
        vensure!(h >= start as u64, "schedule-below-start", "{what}: entry {k} = {h} < start {start}");
        vensure!(h >= prev, "schedule-decreasing", "{what}: entry {k} = {h} < previous {prev}");
        vensure!(h - prev <= cap, "schedule-step-exceeds-cap", "{what}: entry {k} = {h}, previous {prev}, cap {cap}");
        // "running sum of independently drawn delays", saturating at u32::MAX
        let d = guarded("DelayDistribution::draw (replay)", "delay-draw-panic", || dist.draw(&mut replay))? as u64;
        acc = (acc + d).min(MAXH);
        vensure_eq!(h, acc, "schedule-not-cumulative-sum", "{what}: entry {k}, start {start}");
        saturated |= h == MAXH;
        prev = h;
    }
    Ok((saturated, replay.steps > n as u64))
}

fn check_sched(c: &SchedCase) -> CaseResult {
    let (Some(td), Some(pd)) = (mk_dist(c.transfer.0, c.transfer.1)?, mk_dist(c.prep.0, c.prep.1)?) else {
        return Ok(Obs::trivial().label("params-rejected"));
    };
    let iv = mk_interval(c.interval);
    let params = SchedulingParams::new(iv, td, pd);
    vensure_eq!(params.transfer_delay(), td, "params-accessor", "transfer_delay()");
    vensure_eq!(params.preparation_delay(), pd, "params-accessor", "preparation_delay()");
    vensure_eq!(params.anchor_bucket_interval(), iv, "params-accessor", "anchor_bucket_interval()");
    let start = c.start.resolve(c.interval);
    let words = resolve_script(&c.script, Some(c.transfer));
    let fresh = || ScriptedRng::new(words.clone(), c.seed);

    let mut rng = fresh();
    let hs = guarded("schedule_broadcast_heights", "schedule-panic", || schedule_broadcast_heights(&params, bh(start), c.n, &mut rng))?;
    let (sat1, rej1) = check_heights("schedule_broadcast_heights", &hs, start, c.n, &td, fresh())?;

    let mut rng = fresh();
    let ps = guarded("schedule_prep_broadcast_heights", "schedule-panic", || schedule_prep_broadcast_heights(&params, bh(start), c.n, &mut rng))?;
    let (sat2, rej2) = check_heights("schedule_prep_broadcast_heights", &ps, start, c.n, &pd, fresh())?;

    let mut rng = fresh();
    let ss = guarded("schedule", "schedule-panic", || schedule(&params, bh(start), c.n, &mut rng))?;
    let bhs: Vec<BlockHeight> = ss.iter().map(|s| s.broadcast_height()).collect();
    check_heights("schedule", &bhs, start, c.n, &td, fresh())?;
    vensure_eq!(bhs, hs, "schedule-differs-from-broadcast-heights", "schedule() vs schedule_broadcast_heights() on the same stream");
    let mut near_period = false;
    for (k, s) in ss.iter().enumerate() {
        let h = u32::from(s.broadcast_height());
        let want = ref_expiry(h, REF_EXPIRY_MODULUS, REF_EXPIRY_WINDOW);
        vensure_eq!(u32::from(s.expiry_height()) as u64, want, "expiry-not-canonical", "schedule()[{k}] broadcast {h}");
        vensure_eq!(s.expiry_height(), zip318::expiry_height(s.broadcast_height()), "expiry-differs-from-zip318", "schedule()[{k}]");
        vensure_eq!(s.expiry_height(), DfltConsts.canonical_expiry(s.broadcast_height()), "expiry-default-constants-differ", "schedule()[{k}]");
        let r = h as u64 % REF_EXPIRY_MODULUS;
        near_period |= r <= 1 || r == REF_EXPIRY_MODULUS - 1;
    }
    let sat = sat1 || sat2;
    let rej = rej1 || rej2;
    Ok(Obs::new(c.n > 0 && (rej || sat))
        .label_if(rej, "rejection")
        .label_if(sat, "saturated")
        .label_if(near_period, "expiry-period-edge")
        .label_if(c.n == 0, "empty")
        .count("heights", 3 * c.n as u64))
}

// ---------------------------------------------------------------------------------------------
// Sub-check: shuffles
// ---------------------------------------------------------------------------------------------

#[derive(Clone, Debug)]
struct ShuffleCase {
    items: Vec<u8>,
    script: Vec<Sym>,
    seed: [u8; 32],
}

fn check_shuffle(c: &ShuffleCase) -> CaseResult {
    let n = c.items.len();
    let words = resolve_script(&c.script, None);
    let mut rng = ScriptedRng::new(words.clone(), c.seed);
    let idx = guarded("shuffle_indices", "shuffle-panic", || shuffle_indices(n, &mut rng))?;
    vensure_eq!(idx.len(), n, "shuffle-length", "shuffle_indices({n})");
    let mut seen = vec![false; n];
    for &j in &idx {
        vensure!(j < n && !seen[j], "shuffle-not-permutation", "shuffle_indices({n}) = {idx:?}");
        seen[j] = true;
    }
    if n < 2 {
        vensure_eq!(idx, (0..n).collect::<Vec<_>>(), "shuffle-small-not-identity", "n={n}");
    }
    let rejected = n >= 2 && rng.steps > (n as u64 - 1);
    let moved = idx.iter().enumerate().any(|(k, j)| k != *j);

    let mut rng = ScriptedRng::new(words, c.seed);
    let mut items = c.items.clone();
    guarded("shuffle_in_place", "shuffle-panic", || shuffle_in_place(&mut items, &mut rng))?;
    let hist = |v: &[u8]| {
        let mut m: BTreeMap<u8, usize> = BTreeMap::new();
        for x in v {
            *m.entry(*x).or_default() += 1;
        }
        m
    };
    vensure_eq!(hist(&items), hist(&c.items), "shuffle-multiset-changed", "shuffle_in_place on {} items", n);
    if n < 2 {
        vensure_eq!(items, c.items, "shuffle-small-not-identity", "shuffle_in_place n={n}");
    }
    Ok(Obs::new(rejected).label_if(rejected, "rejection").label_if(n < 2, "n<2").label_if(moved, "moved").label_if(n >= 64, "n>=64"))
}

// ---------------------------------------------------------------------------------------------
// Sub-check: anchor draws
// ---------------------------------------------------------------------------------------------

#[derive(Clone, Debug)]
enum AnchorHeights {
    Free { act: H, fund: H, tip: H, prior: H },
    /// Heights placed around one grid multiple: base = k*I; x = base + j*I + off.
    Local { k: K, act: (i8, Off), fund: (i8, Off), tip: (i8, Off), prior: (i8, Off) },
}

impl AnchorHeights {
    fn resolve(&self, i: u32) -> (u32, u32, u32, u32) {
        match *self {
            AnchorHeights::Free { act, fund, tip, prior } => (act.resolve(i), fund.resolve(i), tip.resolve(i), prior.resolve(i)),
            AnchorHeights::Local { k, act, fund, tip, prior } => {
                let m = i as u64;
                let base = (resolve_k(k, m) * m) as i128;
                let at = |(j, o): (i8, Off)| clamp_h(base + j as i128 * m as i128 + resolve_off(o, m));
                (at(act), at(fund), at(tip), at(prior))
            }
        }
    }
}

fn arb_anchor_heights() -> impl Strategy<Value = AnchorHeights> {
    let jo = |lo: i8, hi: i8| (lo..=hi, arb_off());
    prop_oneof![
        1 => (arb_h(), arb_h(), arb_h(), arb_h()).prop_map(|(act, fund, tip, prior)| AnchorHeights::Free { act, fund, tip, prior }),
        5 => (arb_k(), jo(-2, 1), jo(-2, 5), jo(-1, 10), (-2i8..=8, prop_oneof![3 => Just(Off::Small(0)), 1 => arb_off()]))
            .prop_map(|(k, act, fund, tip, prior)| AnchorHeights::Local { k, act, fund, tip, prior }),
    ]
}

#[derive(Clone, Debug)]
struct AnchorCase {
    interval: u32,
    heights: AnchorHeights,
    script: Vec<Sym>,
    seed: [u8; 32],
}

fn size_label(n: usize) -> &'static str {
    match n {
        0 => "cands-0",
        1 => "cands-1",
        2 => "cands-2",
        3 => "cands-3",
        _ => "cands-4",
    }
}

fn check_anchor(c: &AnchorCase) -> CaseResult {
    let i = c.interval;
    let iu = i as u64;
    let iv = mk_interval(i);
    let (act, fund, tip, prior) = c.heights.resolve(i);
    let mut rng = ScriptedRng::new(resolve_script(&c.script, None), c.seed);
    let mr = tip as u64 / iu * iu;
    let mut rejections = 0u64;
    let mut older = false;

    let cset = ref_candidates(iu, Some(act as u64), fund as u64, tip as u64);
    for r in 0..3 {
        let before = rng.steps;
        let got = guarded("draw_anchor_boundary", "anchor-draw-panic", || draw_anchor_boundary(iv, bh(act), bh(fund), bh(tip), &mut rng))?;
        let ctx = format!("draw #{r}: interval={i} act={act} fund={fund} tip={tip} candidates={cset:?}");
        match got {
            None => {
                vensure!(cset.is_empty(), "anchor-none-but-candidates", "{ctx}");
            }
            Some(b) => {
                let b = u32::from(b) as u64;
                vensure!(!cset.is_empty(), "anchor-some-but-no-candidates", "{ctx} got {b}");
                check_member("draw_anchor_boundary", b, iu, Some(act as u64), fund as u64, tip as u64)?;
                vensure!(cset.contains(&b), "harness-candidate-reference", "{ctx} got {b}");
                rejections += rng.steps - before - 1;
                older |= mr - b > iu;
            }
        }
    }

    let rset = ref_candidates(iu, None, prior as u64, tip as u64);
    for r in 0..2 {
        let before = rng.steps;
        let got = guarded("redraw_anchor_boundary", "anchor-redraw-panic", || redraw_anchor_boundary(iv, bh(prior), bh(tip), &mut rng))?;
        let ctx = format!("redraw #{r}: interval={i} prior={prior} broadcast={tip} candidates={rset:?}");
        match got {
            None => vensure!(rset.is_empty(), "redraw-none-but-candidates", "{ctx}"),
            Some(b) => {
                let b = u32::from(b) as u64;
                vensure!(!rset.is_empty(), "redraw-some-but-no-candidates", "{ctx} got {b}");
                check_member("redraw_anchor_boundary", b, iu, None, prior as u64, tip as u64)?;
                rejections += rng.steps - before - 1;
                older |= mr - b > iu;
            }
        }
    }

    let (representable, beyond) = check_earliest(i, act, fund, &mut rng)?;

    Ok(Obs::new(rejections > 0)
        .label(size_label(cset.len()))
        .label_if(!rset.is_empty(), "redraw-some")
        .label_if(rset.is_empty(), "redraw-none")
        .label_if(rejections > 0, "rejection")
        .label_if(older, "age>1-chosen")
        .label_if(tip as u64 > MAXH - 5 * iu.min(1 << 20), "tip-near-max")
        .label_if(representable, "earliest-representable")
        .label_if(beyond, "earliest-beyond-max")
        .count("rejections", rejections))
}

/// Support of the draw: "a recency-weighted age in [1, ANCHOR_AGE_CAP] is drawn" and ANCHOR_AGE_CAP is
/// the maximum age the draw "will accept" — so with four candidates each must be reachable. 1000
/// draws from a ChaCha stream miss the rarest one (conditional probability 1/15) with probability
/// (14/15)^1000 < 1e-29.
fn check_anchor_support(c: &(u32, K, Off, [u8; 32])) -> CaseResult {
    let (i, k, off, seed) = *c;
    let iu = i as u64;
    let m = MAXH / iu;
    if m < 6 {
        return Ok(Obs::trivial().label("grid-too-coarse"));
    }
    let kk = resolve_k(k, iu).clamp(6, m);
    let tip = clamp_h((kk * iu) as i128 + resolve_off(off, iu).rem_euclid(iu as i128));
    let mr = tip as u64 / iu * iu;
    let iv = mk_interval(i);
    let cset = ref_candidates(iu, Some(0), 0, tip as u64);
    vensure_eq!(cset.len(), 4, "harness-support-setup", "interval={i} tip={tip}");
    let mut rng = ScriptedRng::new(vec![], seed);
    let mut hits = [0u32; 4];
    for _ in 0..1000 {
        let got = guarded("draw_anchor_boundary", "anchor-draw-panic", || draw_anchor_boundary(iv, bh(0), bh(0), bh(tip), &mut rng))?;
        let Some(b) = got else { vfail!("anchor-none-but-candidates", "interval={i} act=0 fund=0 tip={tip}") };
        let b = u32::from(b) as u64;
        check_member("draw_anchor_boundary", b, iu, Some(0), 0, tip as u64)?;
        hits[((mr - b) / iu - 1) as usize] += 1;
    }
    for (a, h) in hits.iter().enumerate() {
        vensure!(*h > 0, "anchor-candidate-unreachable", "age {} never drawn in 1000 draws (hits per age 1..4 = {hits:?}); interval={i} tip={tip}", a + 1);
    }
    Ok(Obs::nontrivial().label_if(hits[0] > hits[1] && hits[1] > hits[2] && hits[2] > hits[3], "recency-ordered"))
}

// ---------------------------------------------------------------------------------------------
// Sub-check: sync wake-ups
// ---------------------------------------------------------------------------------------------

#[derive(Clone, Copy, Debug)]
enum GapSym {
    /// 0 or 1: infeasible
    Tiny(u8),
    Small(u8),
    Frac(u32),
    AroundMargin(i8),
}
#[derive(Clone, Copy, Debug)]
enum TipSym {
    Frac(u32),
    /// aligned on a transfer's a+1 / a+margin / b-2 / b-1 / b / b+1
    Align(u32, u8),
}

#[derive(Clone, Debug)]
struct WakeCase {
    margin: u32,
    jitter_cap: u32,
    base: H,
    spread: u32,
    tip: TipSym,
    transfers: Vec<(u32, GapSym)>,
    /// when false, every gap is raised to >= 2 (all transfers feasible)
    allow_infeasible: bool,
    script: Vec<Sym>,
    seed: [u8; 32],
}

impl WakeCase {
    /// (tip, [(id, anchor, broadcast)])
    fn resolve(&self) -> (u32, Vec<(u32, u32, u32)>) {
        let base = self.base.resolve(144) as i128;
        let m = self.margin.max(1) as i128;
        let mut ts = vec![];
        for (k, (a_sel, gap)) in self.transfers.iter().enumerate() {
            let a = clamp_h(base + pick_index(*a_sel, self.spread as usize + 1) as i128);
            let g: i128 = match *gap {
                GapSym::Tiny(x) => (x % 2) as i128,
                GapSym::Small(x) => 2 + (x % 4) as i128,
                GapSym::Frac(f) => 2 + pick_index(f, self.spread as usize) as i128,
                GapSym::AroundMargin(d) => (m + d as i128).clamp(0, MAXH as i128),
            };
            let g = if self.allow_infeasible { g } else { g.max(2) };
            let b = clamp_h(a as i128 + g);
            ts.push((k as u32, a, b));
        }
        let tip = match self.tip {
            TipSym::Frac(f) => clamp_h(base + pick_index(f, (self.spread as usize * 5) / 4 + 2) as i128),
            TipSym::Align(sel, kind) => {
                if ts.is_empty() {
                    clamp_h(base)
                } else {
                    let (_, a, b) = ts[pick_index(sel, ts.len())];
                    let (a, b) = (a as i128, b as i128);
                    clamp_h(match kind % 6 {
                        0 => a + 1,
                        1 => a + m,
                        2 => b - 2,
                        3 => b - 1,
                        4 => b,
                        _ => b + 1,
                    })
                }
            }
        };
        (tip, ts)
    }
}

fn arb_wake(max_n: usize, min_n: usize) -> impl Strategy<Value = WakeCase> {
    let gap = prop_oneof![
        1 => (0u8..2).prop_map(GapSym::Tiny),
        6 => any::<u8>().prop_map(GapSym::Small),
        30 => any::<u32>().prop_map(GapSym::Frac),
        6 => (-2i8..=3).prop_map(GapSym::AroundMargin),
    ];
    let tip = prop_oneof![
        3 => any::<u32>().prop_map(TipSym::Frac),
        1 => Just(TipSym::Frac(0)),
        2 => (any::<u32>(), 0u8..6).prop_map(|(s, k)| TipSym::Align(s, k)),
    ];
    let base = prop_oneof![
        3 => (0u32..3_500_000).prop_map(H::Lit),
        1 => select(vec![0u32, 1, 2, 10]).prop_map(H::Lit),
        2 => (0u32..=700).prop_map(H::Top),
        1 => arb_h(),
    ];
    (
        select(vec![0u32, 1, 2, 3, 10, 10, 50, 1000, u32::MAX]),
        select(vec![0u32, 1, 2, 12, 12, 100, u32::MAX]),
        base,
        select(vec![4u32, 12, 40, 150, 600, 5000]),
        tip,
        pvec((any::<u32>(), gap), min_n..=max_n),
        prop_oneof![5 => Just(false), 1 => Just(true)],
        arb_script(),
    )
        .prop_map(|(margin, jitter_cap, base, spread, tip, transfers, allow_infeasible, (script, seed))| WakeCase {
            margin,
            jitter_cap,
            base,
            spread,
            tip,
            transfers,
            allow_infeasible,
            script,
            seed,
        })
}

#[derive(Clone, Copy, Debug)]
struct Win {
    id: u32,
    ready: u64,
    deadline: u64,
    overdue: bool,
}

/// Exact minimum number of wake-up points: every non-overdue window pierced, `tip` forced when an
/// overdue transfer exists. DP over coverage bitmasks; candidates = all window endpoints (+ tip).
fn brute_min_points(wins: &[Win], tip: u64) -> u64 {
    let live: Vec<&Win> = wins.iter().filter(|w| !w.overdue).collect();
    let any_overdue = wins.iter().any(|w| w.overdue);
    let n = live.len();
    let cover = |p: u64| -> usize {
        let mut m = 0usize;
        for (k, w) in live.iter().enumerate() {
            if w.ready <= p && p <= w.deadline {
                m |= 1 << k;
            }
        }
        m
    };
    let base = if any_overdue { 1 } else { 0 };
    let start = if any_overdue { cover(tip) } else { 0 };
    let full = (1usize << n) - 1;
    if start == full {
        return base;
    }
    let mut cands: Vec<u64> = live.iter().flat_map(|w| [w.ready, w.deadline]).collect();
    cands.sort();
    cands.dedup();
    let covers: Vec<usize> = cands.iter().map(|p| cover(*p)).collect();
    let mut dist = vec![u8::MAX; 1 << n];
    dist[start] = 0;
    for mask in 0..=full {
        let d = dist[mask];
        if d == u8::MAX {
            continue;
        }
        for c in &covers {
            let nm = mask | c;
            if dist[nm] > d + 1 {
                dist[nm] = d + 1;
            }
        }
    }
    base + dist[full] as u64
}

/// Textbook earliest-deadline greedy for interval piercing (with the forced point at `tip`).
fn greedy_min_points(wins: &[Win], tip: u64) -> u64 {
    let any_overdue = wins.iter().any(|w| w.overdue);
    let mut live: Vec<&Win> = wins.iter().filter(|w| !w.overdue).collect();
    let mut count = 0;
    if any_overdue {
        count += 1;
        live.retain(|w| !(w.ready <= tip && tip <= w.deadline));
    }
    live.sort_by_key(|w| w.deadline);
    let mut last: Option<u64> = None;
    for w in live {
        if last.map_or(true, |p| p < w.ready) {
            last = Some(w.deadline);
            count += 1;
        }
    }
    count
}

fn check_wakeups(c: &WakeCase, brute: bool) -> CaseResult {
    let (tip, ts) = c.resolve();
    let params = WakeupParams::new(c.margin, c.jitter_cap);
    vensure_eq!(params.settle_margin(), c.margin, "wakeup-params-accessor", "settle_margin()");
    vensure_eq!(params.jitter_cap(), c.jitter_cap, "wakeup-params-accessor", "jitter_cap()");
    let input: Vec<(u32, BlockHeight, BlockHeight)> = ts.iter().map(|&(id, a, b)| (id, bh(a), bh(b))).collect();
    let mut rng = ScriptedRng::new(resolve_script(&c.script, None), c.seed);
    let res = guarded("schedule_sync_wakeups", "wakeup-panic", || schedule_sync_wakeups(&params, bh(tip), &input, &mut rng))?;

    let m = c.margin.max(1) as u64;
    let t = tip as u64;
    let infeasible: Vec<u32> = ts.iter().filter(|&&(_, a, b)| (b as u64) <= a as u64 + 1).map(|x| x.0).collect();
    let ctx = format!("tip={tip} margin={} jitter_cap={} transfers(id,anchor,broadcast)={ts:?}", c.margin, c.jitter_cap);
    let wakeups = match res {
        Err(WakeupScheduleError::InfeasibleTransfer(id)) => {
            vensure!(infeasible.contains(&id), "wakeup-spurious-infeasible", "InfeasibleTransfer({id}) but that transfer has broadcast >= anchor+2; {ctx}");
            return Ok(Obs::trivial().label("infeasible"));
        }
        Ok(w) => {
            vensure!(infeasible.is_empty(), "wakeup-infeasible-not-reported", "transfers {infeasible:?} admit no wake-up but Ok was returned; {ctx}");
            w
        }
    };
    let wins: BTreeMap<u32, Win> = ts
        .iter()
        .map(|&(id, a, b)| {
            let deadline = b as u64 - 1;
            let ready = (a as u64 + m).min(deadline).max(t);
            (id, Win { id, ready, deadline, overdue: deadline < t })
        })
        .collect();
    let out: Vec<(u64, Vec<u32>)> = wakeups.iter().map(|w| (u32::from(w.height()) as u64, w.covers().to_vec())).collect();
    let ctx = format!("{ctx} wakeups={out:?}");
    let mut seen: BTreeMap<u32, u32> = BTreeMap::new();
    let mut prev: Option<u64> = None;
    let mut jittered = false;
    for (h, covers) in &out {
        vensure!(*h >= t, "wakeup-in-the-past", "wake-up at {h} below tip; {ctx}");
        if let Some(p) = prev {
            vensure!(*h > p, "wakeup-not-strictly-increasing", "{p} then {h}; {ctx}");
        }
        prev = Some(*h);
        let mut max_ready = t;
        let mut last_deadline: Option<u64> = None;
        let mut live_seen = false;
        for id in covers {
            let Some(w) = wins.get(id) else { vfail!("wakeup-unknown-id", "id {id}; {ctx}") };
            *seen.entry(*id).or_default() += 1;
            if w.overdue {
                vensure!(*h == t, "wakeup-overdue-not-immediate", "overdue transfer {id} (deadline {}) in wake-up at {h}; {ctx}", w.deadline);
                vensure!(!live_seen, "wakeup-covers-order", "overdue transfer {id} listed after a non-overdue one; {ctx}");
            } else {
                vensure!(w.ready <= *h && *h <= w.deadline, "wakeup-outside-window", "transfer {id} window [{}, {}] not pierced by its wake-up at {h}; {ctx}", w.ready, w.deadline);
                if let Some(d) = last_deadline {
                    vensure!(w.deadline >= d, "wakeup-covers-order", "covers not in deadline order at {id}; {ctx}");
                }
                last_deadline = Some(w.deadline);
                live_seen = true;
                max_ready = max_ready.max(w.ready);
            }
        }
        vensure!(*h - max_ready <= c.jitter_cap as u64, "wakeup-jitter-exceeds-cap", "wake-up at {h}, latest window opening {max_ready}; {ctx}");
        jittered |= *h > max_ready;
    }
    for id in wins.keys() {
        let k = seen.get(id).copied().unwrap_or(0);
        vensure!(k == 1, "wakeup-coverage", "transfer {id} covered {k} times; {ctx}");
    }
    let wv: Vec<Win> = wins.values().copied().collect();
    let greedy = greedy_min_points(&wv, t);
    let want = if brute {
        let b = brute_min_points(&wv, t);
        vensure_eq!(b, greedy, "harness-piercing-references-disagree", "brute force vs textbook greedy; {ctx}");
        b
    } else {
        greedy
    };
    vensure_eq!(out.len() as u64, want, "wakeup-not-minimal", "number of wake-ups vs minimum piercing number; {ctx}");

    // non-trivial: some height is inside >= 3 proving windows
    let live: Vec<&Win> = wv.iter().filter(|w| !w.overdue).collect();
    let depth = live.iter().map(|p| live.iter().filter(|w| w.ready <= p.deadline && p.deadline <= w.deadline).count()).max().unwrap_or(0);
    let n_over = wv.iter().filter(|w| w.overdue).count();
    let contains_tip = live.iter().any(|w| w.ready == t);
    Ok(Obs::new(depth >= 3)
        .label_if(depth >= 3, "overlap>=3")
        .label_if(n_over > 0, "overdue")
        .label_if(n_over > 0 && contains_tip, "overdue+window-contains-tip")
        .label_if(n_over > 0 && live.len() > 0, "overdue+live")
        .label_if(out.len() >= 3, "wakeups>=3")
        .label_if(jittered, "jittered")
        .label_if(ts.is_empty(), "empty")
        .label_if(t > MAXH - 6000, "near-max")
        .label_if(want < live.len() as u64 + if n_over > 0 { 1 } else { 0 }, "merged")
        .count("wakeups", out.len() as u64))
}

// ---------------------------------------------------------------------------------------------
// Sub-check: classify over the evidence lattice
// ---------------------------------------------------------------------------------------------

const COIN: u64 = 100_000_000;
const SRC: [Option<usize>; 8] = [None, Some(0), Some(1), Some(2), Some(3), Some(15), Some(16), Some(17)];
const DST: [Option<usize>; 4] = [None, Some(0), Some(1), Some(2)];
const TRI: [Option<bool>; 3] = [None, Some(false), Some(true)];
/// 0, on-series below every minimum, boundary values of the default and overridden ranges,
/// off-series, above caps, MAX_MONEY.
const VALS: [Option<u64>; 13] = [
    None,
    Some(0),
    Some(5),
    Some(100_000),
    Some(500_000),
    Some(999_999),
    Some(1_000_000),
    Some(3_000_000),
    Some(COIN),
    Some(2 * COIN),
    Some(10_000 * COIN),
    Some(20_000 * COIN),
    Some(21_000_000 * COIN),
];
const RADIX: [usize; 8] = [SRC.len(), DST.len(), 3, 3, VALS.len(), 3, 3, 3];
const F_SRC: usize = 0;
const F_DST: usize = 1;
const F_OTHER: usize = 2;
const F_STS: usize = 3;
const F_VAL: usize = 4;
const F_EXP: usize = 5;
const F_ANCHOR: usize = 6;
const F_FEE: usize = 7;

fn lattice_size() -> u64 {
    RADIX.iter().map(|r| *r as u64).product()
}

/// A lattice point: per field, 0 = unanswered, k>0 = k-th value of the field's domain.
type Point = [usize; 8];

fn decode(mut i: u64) -> Point {
    let mut p = [0usize; 8];
    for (f, r) in RADIX.iter().enumerate() {
        p[f] = (i % *r as u64) as usize;
        i /= *r as u64;
    }
    p
}

fn evidence(p: &Point) -> Zip318Evidence {
    Zip318Evidence::default()
        .with_source_actions(SRC[p[F_SRC]])
        .with_destination_actions(DST[p[F_DST]])
        .with_other_bundles_present(TRI[p[F_OTHER]])
        .with_source_is_send_to_self(TRI[p[F_STS]])
        .with_sole_destination_value(VALS[p[F_VAL]].map(|v| Zatoshis::from_u64(v).expect("in range")))
        .with_expiry_is_canonical(TRI[p[F_EXP]])
        .with_anchor_on_grid(TRI[p[F_ANCHOR]])
        .with_fee_is_canonical(TRI[p[F_FEE]])
}

#[derive(Clone, Copy, Debug)]
struct Consts {
    prep: usize,
    min: u64,
    cap: u64,
    overridden: bool,
}
impl PoolMigrationConstants for Consts {
    fn preparation_tx_actions(&self) -> usize {
        if self.overridden { self.prep } else { zip318::PREP_TX_ACTIONS }
    }
    fn max_residual_value(&self) -> Zatoshis {
        if self.overridden { Zatoshis::from_u64(self.min).unwrap() } else { zip318::MAX_RESIDUAL_VALUE }
    }
    fn denomination_cap(&self) -> Zatoshis {
        if self.overridden { Zatoshis::from_u64(self.cap).unwrap() } else { zip318::DENOM_CAP }
    }
}
/// ZIP 318 values written out (16 actions, 0.01 ZEC .. 10 000 ZEC) + two overrides.
const CONSTS: [Consts; 3] = [
    Consts { prep: 16, min: COIN / 100, cap: 10_000 * COIN, overridden: false },
    Consts { prep: 3, min: 100_000, cap: COIN, overridden: true },
    Consts { prep: 2, min: 1, cap: 21_000_000 * COIN, overridden: true },
];

fn ref_canonical(v: u64, min: u64, cap: u64) -> bool {
    if v == 0 || v < min || v > cap {
        return false;
    }
    let mut n = v;
    while n % 10 == 0 {
        n /= 10;
    }
    n == 1 || n == 2 || n == 5
}

/// The ZIP 318 shapes on fully answered evidence, from the type documentation: no other bundle,
/// canonical expiry, anchor on grid, canonical fee, and either (no destination bundle, exactly
/// `prep` source actions, send-to-self) or (one destination action, two source actions, a
/// canonical denomination).
fn ref_full(p: &Point, k: &Consts) -> Zip318Classification {
    let src = SRC[p[F_SRC]].unwrap();
    let dst = DST[p[F_DST]].unwrap();
    let common = !TRI[p[F_OTHER]].unwrap() && TRI[p[F_EXP]].unwrap() && TRI[p[F_ANCHOR]].unwrap() && TRI[p[F_FEE]].unwrap();
    if common && dst == 0 && src == k.prep && TRI[p[F_STS]].unwrap() {
        Zip318Classification::Conforms(Zip318TxKind::Preparation)
    } else if common && dst == 1 && src == 2 && ref_canonical(VALS[p[F_VAL]].unwrap(), k.min, k.cap) {
        Zip318Classification::Conforms(Zip318TxKind::Transfer)
    } else {
        Zip318Classification::Nonconforming
    }
}

fn cls(p: &Point, k: &Consts) -> Result<Zip318Classification, Fail> {
    let e = evidence(p);
    guarded("classify", "classify-panic", || classify(&e, k))
}

fn check_lattice_point(idx: u64) -> CaseResult {
    let l = lattice_size();
    let k = &CONSTS[(idx / l) as usize];
    let p = decode(idx % l);
    let here = cls(&p, k)?;
    let decided = here != Zip318Classification::Unknown;
    let desc = |q: &Point| format!("{:?} constants={k:?}", evidence(q));

    // encoding round trip
    vensure_eq!(Zip318Classification::from_code(here.to_code()), here, "classification-code-roundtrip", "{here:?}");

    // (i) monotone under single-field extensions inside the documented order
    let mut ext_decides = 0u64;
    let mut pairs = 0u64;
    for f in 0..8 {
        if p[f] != 0 {
            continue;
        }
        for v in 1..RADIX[f] {
            // confirmatory fields: a fixed capability of the source; along a chain None -> Some(true) only
            if (f == F_ANCHOR || f == F_FEE) && TRI[v] != Some(true) {
                continue;
            }
            let mut q = p;
            q[f] = v;
            let there = cls(&q, k)?;
            pairs += 1;
            if decided {
                vensure!(there == here, "classify-not-monotone", "decision {here:?} at {} became {there:?} at {}", desc(&p), desc(&q));
            } else if there != Zip318Classification::Unknown {
                ext_decides += 1;
            }
        }
    }

    // (ii) no refutation without a negative observation: Nonconforming => no completion conforms
    let mut completions = 0u64;
    if here == Zip318Classification::Nonconforming {
        let free: Vec<usize> = (0..8).filter(|f| p[*f] == 0).collect();
        let total: u64 = free.iter().map(|f| (RADIX[*f] - 1) as u64).product();
        for mut c in 0..total {
            let mut q = p;
            for f in &free {
                let r = (RADIX[*f] - 1) as u64;
                q[*f] = 1 + (c % r) as usize;
                c /= r;
            }
            completions += 1;
            let there = cls(&q, k)?;
            vensure!(!matches!(there, Zip318Classification::Conforms(_)), "classify-refutes-without-negative-observation", "Nonconforming at {} but the completion {} is {there:?}", desc(&p), desc(&q));
        }
    }

    // (iii) completeness on fully answered evidence
    let full = p.iter().all(|x| *x != 0);
    if full {
        let want = ref_full(&p, k);
        vensure!(here == want, "classify-full-evidence-wrong", "classify = {here:?}, ZIP 318 shape predicate = {want:?} at {}", desc(&p));
    }

    Ok(Obs::new(!decided && ext_decides > 0)
        .key(vcore::hash64(&idx.to_le_bytes()))
        .label(match here {
            Zip318Classification::Unknown => "unknown",
            Zip318Classification::Nonconforming => "nonconforming",
            Zip318Classification::Conforms(Zip318TxKind::Preparation) => "conforms-preparation",
            Zip318Classification::Conforms(Zip318TxKind::Transfer) => "conforms-transfer",
        })
        .label_if(full, "full-evidence")
        .label_if(decided && !full, "decided-on-partial-evidence")
        .count("extension-pairs", pairs)
        .count("unknown-to-decided-pairs", ext_decides)
        .count("completions-checked", completions))
}

fn code_list() -> Vec<i64> {
    let mut v: Vec<i64> = (-8..=16).collect();
    v.extend([i64::MIN, i64::MIN + 1, i64::MAX, i64::MAX - 1, 99, 255, 256, 1 << 32, -(1 << 32)]);
    v
}

fn check_code(code: i64) -> CaseResult {
    use Zip318Classification as C;
    let all = [C::Unknown, C::Nonconforming, C::Conforms(Zip318TxKind::Preparation), C::Conforms(Zip318TxKind::Transfer)];
    vensure_eq!(C::Unknown.to_code(), 0, "classification-unknown-code", "Unknown must encode as 0");
    for (a, x) in all.iter().enumerate() {
        for y in &all[a + 1..] {
            vensure!(x.to_code() != y.to_code(), "classification-code-collision", "{x:?} and {y:?}");
        }
    }
    let got = guarded("from_code", "classification-code-panic", || C::from_code(code))?;
    match all.iter().find(|c| c.to_code() == code) {
        Some(c) => vensure_eq!(got, *c, "classification-code-roundtrip", "from_code({code})"),
        None => vensure_eq!(got, C::Unknown, "classification-unrecognised-code-not-unknown", "from_code({code})"),
    }
    Ok(Obs::nontrivial().key(vcore::hash64(&code.to_le_bytes())))
}

// ---------------------------------------------------------------------------------------------
// main
// ---------------------------------------------------------------------------------------------

fn main() {
    let ctx = Ctx::from_args("C17", "exploration");
    ctx.set_rule(
        "RNG = generated u64 prefix (0, 1, MAX, 2^63, single bits, zero runs <= 8, repeated words, words aimed at \
         delay = cap+-2, uniform) then ChaCha20 from a generated seed. Heights symbolic over the full u32 range \
         (k-th grid/expiry multiple +-d, u32::MAX-k, literals), intervals/means/caps from boundary lattices + uniform. \
         Non-trivial: RNG sub-checks = >= 1 rejection (more words consumed than draws returned) or a saturated height; \
         wake-ups = some height inside >= 3 proving windows; lattice = E Unknown with a decided single-field extension; \
         grid lattice points all count. Distinct = hash of the case.",
    );
    ctx.assume("RNG streams: finite adversarial prefix + ChaCha tail (rejection sampling terminates with probability 1); an infinite all-zero stream is outside the property's domain");
    ctx.assume("evidence order per the Zip318Evidence rustdoc: required fields None -> Some(v); confirmatory fields (anchor_on_grid, fee_is_canonical) constant or None -> Some(true)");
    ctx.assume("wake-up proving window per the rustdoc: ready = max(min(anchor + max(margin,1), broadcast-1), tip), deadline = broadcast-1; overdue (deadline < tip) transfers belong to the wake-up at exactly tip");
    ctx.assume("InfeasibleTransfer may name any transfer with broadcast <= anchor+1 (the doc does not fix which)");
    ctx.assume("schedule_*_heights consume the stream exactly like successive DelayDistribution::draw calls (documented as a running sum of independent draws)");
    ctx.assume("anchor-support: every age in [1, ANCHOR_AGE_CAP] is reachable (rustdoc of draw_anchor_boundary / ANCHOR_AGE_CAP); 1000 ChaCha draws miss one with probability < 1e-29");
    ctx.assume("earliest_broadcast_height is unconstrained when the true value exceeds u32::MAX (then every draw must be None)");
    let tier = ctx.tier;

    // 1. exhaustive grid/expiry lattice
    let ivs = interval_lattice();
    let pts: Vec<(u32, u32)> = ivs.iter().flat_map(|i| height_lattice(*i).into_iter().map(move |h| (*i, h))).collect();
    {
        let (a, b) = (pts.clone(), pts.clone());
        ctx.run_enum("grid-lattice", pts.len() as u64, true, move |k| check_grid_point(a[k as usize].0, a[k as usize].1), move |k| format!("interval={} height={}", b[k as usize].0, b[k as usize].1));
    }
    // 2. exhaustive earliest-broadcast lattice: (interval, act, fund) triples
    let triples: Vec<(u32, u32, u32)> = ivs
        .iter()
        .flat_map(|i| {
            let hs = height_lattice(*i);
            let hs2 = hs.clone();
            hs.into_iter().flat_map(move |a| hs2.clone().into_iter().map(move |f| (*i, a, f)))
        })
        .collect();
    {
        let (a, b) = (triples.clone(), triples.clone());
        ctx.run_enum(
            "earliest-lattice",
            triples.len() as u64,
            true,
            move |k| {
                let (i, act, fund) = a[k as usize];
                let mut rng = ScriptedRng::new(vec![0, 1 << 63, 1 << 4], [k as u8; 32]);
                let (rep, beyond) = check_earliest(i, act, fund, &mut rng)?;
                Ok(Obs::nontrivial().key(vcore::hash64(&k.to_le_bytes())).label_if(rep, "earliest-representable").label_if(beyond, "earliest-beyond-max"))
            },
            move |k| format!("(interval, act, fund) = {:?}", b[k as usize]),
        );
    }
    // 3. classification codes + evidence lattice (exhaustive)
    {
        let codes = code_list();
        let c2 = codes.clone();
        ctx.run_enum("classification-codes", codes.len() as u64, true, move |k| check_code(codes[k as usize]), move |k| format!("code {}", c2[k as usize]));
    }
    ctx.run_enum("classify-lattice", lattice_size() * CONSTS.len() as u64, true, check_lattice_point, |i| {
        let l = lattice_size();
        format!("{:?} constants={:?}", evidence(&decode(i % l)), CONSTS[(i / l) as usize])
    });
    ctx.require_min_count("classify-lattice", "conforms-transfer", 100);
    ctx.require_min_count("classify-lattice", "conforms-preparation", 100);
    ctx.require_min_count("classify-lattice", "unknown-to-decided-pairs", 1000);
    ctx.require_min_count("classify-lattice", "decided-on-partial-evidence", 1000);

    // 4. delays
    ctx.run_prop(
        "delay-draw",
        || (arb_dist(), 1usize..=24, arb_script()).prop_map(|((mean, cap), n, (script, seed))| DelayCase { mean, cap, n, script, seed }),
        tier.pick(1_500_000, 40_000_000),
        check_delay,
    );
    ctx.require_label_fraction("delay-draw", "rejection", 0.10);
    // generator-only health (must not depend on what the code under test returns)
    ctx.require_label_fraction("delay-draw", "aimed-at-cap-boundary", 0.10);

    // 5. cumulative heights + expiry
    ctx.run_prop(
        "broadcast-schedule",
        || {
            (arb_interval(), arb_dist(), arb_dist(), arb_h(), prop_oneof![1 => 0usize..=3, 3 => 0usize..=40], arb_script()).prop_map(
                |(interval, transfer, prep, start, n, (script, seed))| SchedCase { interval, transfer, prep, start, n, script, seed },
            )
        },
        tier.pick(800_000, 20_000_000),
        check_sched,
    );
    ctx.require_label_fraction("broadcast-schedule", "rejection", 0.10);
    ctx.require_label_fraction("broadcast-schedule", "saturated", 0.03);

    // 6. shuffles
    ctx.run_prop(
        "shuffle",
        || {
            let n = prop_oneof![2 => 0usize..=3, 5 => 0usize..=70, 1 => select(vec![63usize, 64, 65, 127, 128, 129, 255, 256, 257, 1000])];
            (n.prop_flat_map(|n| pvec(0u8..16, n)), arb_script()).prop_map(|(items, (script, seed))| ShuffleCase { items, script, seed })
        },
        tier.pick(600_000, 15_000_000),
        check_shuffle,
    );
    ctx.require_label_fraction("shuffle", "rejection", 0.05);
    ctx.require_label_fraction("shuffle", "moved", 0.30);

    // 7. anchors
    ctx.run_prop(
        "anchor-draw",
        || (arb_anchor_interval(), arb_anchor_heights(), arb_script()).prop_map(|(interval, heights, (script, seed))| AnchorCase { interval, heights, script, seed }),
        tier.pick(3_000_000, 80_000_000),
        check_anchor,
    );
    ctx.require_label_fraction("anchor-draw", "rejection", 0.10);
    for l in ["cands-0", "cands-1", "cands-2", "cands-3", "cands-4", "redraw-some", "redraw-none"] {
        ctx.require_label_fraction("anchor-draw", l, 0.03);
    }

    ctx.run_prop(
        "anchor-support",
        || (arb_anchor_interval(), arb_k(), arb_off(), any::<[u8; 32]>()),
        tier.pick(20_000, 400_000),
        check_anchor_support,
    );

    // 8. wake-ups
    ctx.run_prop("wakeups-small", || arb_wake(9, 0), tier.pick(3_000_000, 80_000_000), |c| check_wakeups(c, true));
    ctx.require_label_fraction("wakeups-small", "overlap>=3", 0.15);
    ctx.require_label_fraction("wakeups-small", "overdue+window-contains-tip", 0.03);
    ctx.require_label_fraction("wakeups-small", "wakeups>=3", 0.05);
    ctx.require_label_fraction("wakeups-small", "merged", 0.15);
    ctx.require_label_fraction("wakeups-small", "infeasible", 0.02);
    ctx.run_prop("wakeups-large", move || arb_wake(tier.pick(60, 200), 10), tier.pick(500_000, 12_000_000), |c| check_wakeups(c, false));
    ctx.require_label_fraction("wakeups-large", "overlap>=3", 0.15);
    ctx.require_label_fraction("wakeups-large", "wakeups>=3", 0.05);

    ctx.finish();
}

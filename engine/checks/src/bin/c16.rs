//! C16 — Pool-migration denomination plans are canonical and conserve value.
//!
//! Code under test: `zcash_pool_migration::denomination::{plan_denominations, CanonicalOneTwoFive,
//! DenominationPlan}` and `zcash_protocol::zip318::{largest_one_two_five, is_canonical_denomination}`.
//!
//! Oracles
//! * reference model of the canonical split, written from the rustdoc ("largest {1,2,5}*10^k
//!   denomination the remaining budget can fund", fees reserved "under the optimistic
//!   one-transaction-per-14-notes model", single-note exact-funding exception), in u128;
//! * differential: the implementation under an always-`Some(0)` preparation-cost oracle must publish
//!   exactly the reference split; under the costs the planner assumed it must publish it in full and
//!   be drained;
//! * invariants on every plan for every preparation-cost oracle of the family (refusing,
//!   over-charging, hash-dependent, call-counter-dependent, huge, the real `plan_preparation`):
//!   canonical / non-increasing / <= cap / prefix of the canonical split / outputs = crossing +
//!   buffer / exact conservation / fees = oracle's count x fee / no part dropped without a refusal /
//!   no panic / RNG never touched / same plan through every entry point and RNG stream.

use std::cell::{Cell, RefCell};
use std::num::NonZeroUsize;
use std::path::PathBuf;
use std::sync::{Arc, Mutex, OnceLock};
use std::time::{Duration, Instant};

use proptest::prelude::*;
use rand_core::{CryptoRng, RngCore, SeedableRng};
use vcore::serde_json::json;
use vcore::{catch, hash64, vensure, vensure_eq, CaseResult, Ctx, Fail, Obs};
use zcash_pool_migration::denomination::{
    plan_denominations, CanonicalOneTwoFive, DenominationPlan, DenominationStrategy, DENOM_CAP,
    MAX_RESIDUAL_VALUE, MIGRATION_MAX_PREPARED_NOTES_PER_RUN,
};
use zcash_pool_migration::engine::{plan_migration_with, MigrationError};
use zcash_pool_migration::preparation::{default_portfolio, plan_preparation, FUNDING_OUTPUTS_PER_TX};
use zcash_pool_migration_memory::{regtest_network, MockBackend};
use zcash_protocol::value::{BalanceError, Zatoshis, MAX_MONEY};
use zcash_protocol::zip318::{is_canonical_denomination, largest_one_two_five};

// ---------------------------------------------------------------------------------------------
// Reference model (from the property statement and the rustdoc; shares nothing with the code)
// ---------------------------------------------------------------------------------------------

/// 0.01 ZEC, the smallest crossing the property admits.
const MIN_DENOM: u64 = 1_000_000;
/// 10,000 ZEC, the largest crossing the property admits.
const MAX_DENOM: u64 = 1_000_000_000_000;
/// The optimistic preparation model: one transaction per 14 prepared notes.
const NOTES_PER_PREP_TX: usize = 14;
const COIN: u64 = 100_000_000;

/// The `{1,2,5} * 10^k` series between 0.01 and 10,000 ZEC, ascending (19 members).
fn series() -> &'static [u64] {
    static S: OnceLock<Vec<u64>> = OnceLock::new();
    S.get_or_init(|| {
        let mut v = vec![];
        let mut p = MIN_DENOM;
        while p <= MAX_DENOM {
            for m in [1u64, 2, 5] {
                if m * p <= MAX_DENOM {
                    v.push(m * p);
                }
            }
            p *= 10;
        }
        v
    })
}

fn in_series(v: u64) -> bool {
    series().binary_search(&v).is_ok()
}

fn stub_txs(n: usize) -> usize {
    n.div_ceil(NOTES_PER_PREP_TX)
}

#[derive(Clone, Debug)]
struct RefSplit {
    parts: Vec<u64>,
    /// The single-note exact-funding exception applied (no fee reserve).
    exception: bool,
    /// At some greedy step a series member fitted or missed by at most buffer+fee+1.
    tight: bool,
}

/// The canonical split fixed by the balance and by whether a single note holds it.
fn ref_split(total: u64, single_note: bool, cap: usize, buffer: u64, fee: u64) -> RefSplit {
    if single_note && cap >= 1 && total >= buffer && in_series(total - buffer) {
        return RefSplit { parts: vec![total - buffer], exception: true, tight: true };
    }
    let (t, b, f) = (total as u128, buffer as u128, fee as u128);
    let margin = b + f + 1;
    let mut parts: Vec<u64> = vec![];
    let mut committed: u128 = 0;
    let mut tight = false;
    while parts.len() < cap {
        let txs = stub_txs(parts.len() + 1) as u128;
        let mut chosen = None;
        for &d in series().iter().rev() {
            let cost = committed + d as u128 + b + txs * f;
            if cost <= t {
                if t - cost <= margin {
                    tight = true;
                }
                chosen = Some(d);
                break;
            } else if cost - t <= margin {
                tight = true;
            }
        }
        match chosen {
            Some(d) => {
                committed += d as u128 + b;
                parts.push(d);
            }
            None => break,
        }
    }
    RefSplit { parts, exception: false, tight }
}

/// Largest `{1,2,5} * 10^k` multiple of the power-of-ten `floor` not exceeding `hi`; 0 if `hi < floor`.
fn ref_largest(hi: u64, floor: u64) -> u64 {
    let mut best = 0u128;
    let mut p = floor as u128;
    while p <= hi as u128 {
        for m in [1u128, 2, 5] {
            if m * p <= hi as u128 && m * p > best {
                best = m * p;
            }
        }
        p *= 10;
    }
    best as u64
}

// ---------------------------------------------------------------------------------------------
// Cases and the family of preparation-cost oracles
// ---------------------------------------------------------------------------------------------

#[derive(Clone, Debug, PartialEq)]
enum OracleKind {
    /// ceil(n/14): the count-only optimistic stub.
    Stub,
    /// What the planner assumed: ceil(n/14), and 0 for the lone exact-funding note.
    Assumed,
    /// Always `Some(0)`.
    Zero,
    /// Always `None`.
    Refuse,
    /// `None` for sets larger than m, the stub otherwise.
    RefuseLarger(usize),
    /// stub + delta.
    OverAdd(usize),
    /// stub x m.
    OverMul(usize),
    /// A pure but non-monotone function of a hash of the multiset.
    HashPure(u64),
    /// Inconsistent: also depends on an internal call counter.
    Stateful(u64),
    /// `Some(n)` for sets larger than `above`, the stub otherwise.
    Huge { above: usize, n: usize },
    /// The real `plan_preparation` over `Case::notes`.
    RealPrep,
}

impl OracleKind {
    fn label(&self) -> &'static str {
        match self {
            OracleKind::Stub => "oracle:stub",
            OracleKind::Assumed => "oracle:assumed",
            OracleKind::Zero => "oracle:zero",
            OracleKind::Refuse => "oracle:refuse-all",
            OracleKind::RefuseLarger(_) => "oracle:refuse-larger-than-m",
            OracleKind::OverAdd(_) => "oracle:overcharge-add",
            OracleKind::OverMul(_) => "oracle:overcharge-mul",
            OracleKind::HashPure(_) => "oracle:hash-nonmonotone",
            OracleKind::Stateful(_) => "oracle:stateful-inconsistent",
            OracleKind::Huge { .. } => "oracle:huge",
            OracleKind::RealPrep => "oracle:real-plan-preparation",
        }
    }
    fn is_pure(&self) -> bool {
        !matches!(self, OracleKind::Stateful(_))
    }
}

#[derive(Clone, Debug)]
struct Case {
    total: u64,
    count: usize,
    cap: usize,
    buffer: u64,
    fee: u64,
    oracle: OracleKind,
    /// The wallet's notes (only for `OracleKind::RealPrep`; then `total` is their sum).
    notes: Vec<u64>,
}

fn zat(v: u64) -> Zatoshis {
    Zatoshis::from_u64(v).expect("harness generates amounts within MAX_MONEY")
}

fn multiset_hash(seed: u64, counter: u64, notes: &[u64]) -> u64 {
    let mut v = notes.to_vec();
    v.sort_unstable();
    let mut bytes = Vec::with_capacity(16 + 8 * v.len());
    bytes.extend_from_slice(&seed.to_le_bytes());
    bytes.extend_from_slice(&counter.to_le_bytes());
    for x in v {
        bytes.extend_from_slice(&x.to_le_bytes());
    }
    hash64(&bytes)
}

fn hashed_answer(h: u64, n: usize) -> Option<usize> {
    match h % 8 {
        0 | 1 => None,
        2 => Some(0),
        3..=5 => Some(stub_txs(n)),
        6 => Some(stub_txs(n) + 1 + ((h >> 8) % 3) as usize),
        _ => Some(((h >> 16) % 9) as usize),
    }
}

type CallLog = Vec<(Vec<u64>, Option<usize>)>;

struct OracleRun<'a> {
    kind: &'a OracleKind,
    exception: bool,
    available: Vec<Zatoshis>,
    fee: Zatoshis,
    calls: Cell<u64>,
    log: RefCell<CallLog>,
}

impl<'a> OracleRun<'a> {
    fn new(case: &Case, kind: &'a OracleKind, exception: bool) -> Self {
        OracleRun {
            kind,
            exception,
            available: if *kind == OracleKind::RealPrep { case.notes.iter().map(|&v| zat(v)).collect() } else { vec![] },
            fee: zat(case.fee),
            calls: Cell::new(0),
            log: RefCell::new(vec![]),
        }
    }

    /// The answer for a candidate multiset; `counter` only matters for the stateful kind.
    fn answer_for(&self, notes: &[u64], counter: u64) -> Option<usize> {
        let n = notes.len();
        match self.kind {
            OracleKind::Stub => Some(stub_txs(n)),
            OracleKind::Assumed => Some(if self.exception && n == 1 { 0 } else { stub_txs(n) }),
            OracleKind::Zero => Some(0),
            OracleKind::Refuse => None,
            OracleKind::RefuseLarger(m) => (n <= *m).then(|| stub_txs(n)),
            OracleKind::OverAdd(d) => Some(stub_txs(n) + d),
            OracleKind::OverMul(m) => Some(stub_txs(n) * m),
            OracleKind::HashPure(seed) => hashed_answer(multiset_hash(*seed, 0, notes), n),
            OracleKind::Stateful(seed) => hashed_answer(multiset_hash(*seed, counter + 1, notes), n),
            OracleKind::Huge { above, n: huge } => Some(if n > *above { *huge } else { stub_txs(n) }),
            OracleKind::RealPrep => {
                let funding: Vec<Zatoshis> = notes.iter().map(|&v| zat(v)).collect();
                plan_preparation(&self.available, &funding, self.fee).ok().map(|p| p.transaction_count())
            }
        }
    }

    fn call(&self, notes: &[Zatoshis]) -> Option<usize> {
        let raw: Vec<u64> = notes.iter().map(|&v| u64::from(v)).collect();
        let c = self.calls.get();
        self.calls.set(c + 1);
        let ans = self.answer_for(&raw, c);
        self.log.borrow_mut().push((raw, ans));
        ans
    }
}

// ---------------------------------------------------------------------------------------------
// Calling the code under test
// ---------------------------------------------------------------------------------------------

const RNG_TOUCHED: &str = "C16 harness: the RNG was touched";

/// An RNG that must never be used: the strategy is documented to ignore it.
struct PanicRng;
impl RngCore for PanicRng {
    fn next_u32(&mut self) -> u32 {
        panic!("{}", RNG_TOUCHED)
    }
    fn next_u64(&mut self) -> u64 {
        panic!("{}", RNG_TOUCHED)
    }
    fn fill_bytes(&mut self, _dest: &mut [u8]) {
        panic!("{}", RNG_TOUCHED)
    }
    fn try_fill_bytes(&mut self, _dest: &mut [u8]) -> Result<(), rand_core::Error> {
        panic!("{}", RNG_TOUCHED)
    }
}
impl CryptoRng for PanicRng {}

#[derive(Clone, Copy, Debug)]
enum Via {
    /// `plan_denominations`
    Free,
    /// `CanonicalOneTwoFive::with_max_notes(..).plan(..)`
    WithMaxNotes,
    /// `CanonicalOneTwoFive::new(cap, DENOM_CAP, MAX_RESIDUAL_VALUE, buffer).plan(..)` (or
    /// `recommended(buffer)` when the cap is the crate default)
    New,
}

#[derive(Clone, Copy, Debug)]
enum RngSel {
    Panic,
    StreamA,
    StreamB,
}

fn plan_via<R: RngCore + CryptoRng>(case: &Case, via: Via, f: &dyn Fn(&[Zatoshis]) -> Option<usize>, rng: &mut R) -> DenominationPlan {
    let (total, buffer, fee) = (zat(case.total), zat(case.buffer), zat(case.fee));
    match via {
        Via::Free => plan_denominations(total, case.count, NonZeroUsize::new(case.cap).expect("cap >= 1"), buffer, fee, f, rng),
        Via::WithMaxNotes => {
            CanonicalOneTwoFive::with_max_notes(NonZeroUsize::new(case.cap).expect("cap >= 1"), buffer).plan(total, case.count, fee, f, rng)
        }
        Via::New => {
            if case.cap == MIGRATION_MAX_PREPARED_NOTES_PER_RUN.get() {
                CanonicalOneTwoFive::recommended(buffer).plan(total, case.count, fee, f, rng)
            } else {
                CanonicalOneTwoFive::new(case.cap, DENOM_CAP, MAX_RESIDUAL_VALUE, buffer).plan(total, case.count, fee, f, rng)
            }
        }
    }
}

/// `"x/y.rs"` relative to the repository root, whichever checkout the code was built from.
fn repo_site(p: &str) -> String {
    let site = vcore::panic_site(p);
    for anchor in ["zcash_pool_migration/", "components/", "engine/checks/"] {
        if let Some(i) = site.find(anchor) {
            return site[i..].to_string();
        }
    }
    site
}

fn classify_panic(p: &str, what: &str) -> Fail {
    let site = repo_site(p);
    if p.contains(RNG_TOUCHED) {
        Fail::new("rng-touched", format!("{what}: the strategy used the RNG it is documented to ignore"))
    } else if p.contains("attempt to multiply with overflow") && site.ends_with("denomination/strategies.rs") {
        Fail::new(
            "prep-fee-product-overflow",
            format!("{what}: the preparation-cost oracle's answer times the preparation fee overflowed u64 (unchecked `n as u64 * prep_tx_fee_zatoshi`): {p}"),
        )
    } else {
        Fail::new(format!("plan-panic:{site}"), format!("{what}: planning panicked: {p}"))
    }
}

fn call_plan(case: &Case, kind: &OracleKind, exception: bool, via: Via, rng: RngSel) -> Result<(DenominationPlan, CallLog), Fail> {
    let run = OracleRun::new(case, kind, exception);
    let f = |notes: &[Zatoshis]| run.call(notes);
    let r = catch(|| match rng {
        RngSel::Panic => plan_via(case, via, &f, &mut PanicRng),
        RngSel::StreamA => plan_via(case, via, &f, &mut rand_chacha::ChaCha20Rng::from_seed([0xA5; 32])),
        RngSel::StreamB => plan_via(case, via, &f, &mut rand_chacha::ChaCha8Rng::seed_from_u64(case.total ^ 0x5eed)),
    });
    match r {
        Ok(p) => Ok((p, run.log.into_inner())),
        Err(p) => Err(classify_panic(&p, &format!("{kind:?} via {via:?} with rng {rng:?}"))),
    }
}

// ---------------------------------------------------------------------------------------------
// Plan invariants
// ---------------------------------------------------------------------------------------------

struct PlanView {
    crossings: Vec<u64>,
    outputs: Vec<u64>,
    change: u64,
    prep_fees: u64,
}

/// Everything that must hold of any plan, whatever the oracle answered.
fn check_plan(plan: &DenominationPlan, case: &Case, who: &str) -> Result<PlanView, Fail> {
    let crossings: Vec<u64> = plan.crossing_values().iter().map(|&v| u64::from(v)).collect();
    let outputs: Vec<u64> = catch(|| plan.migration_outputs())
        .map_err(|p| Fail::new("migration-outputs-panic", format!("{who}: migration_outputs() panicked: {p}")))?
        .iter()
        .map(|&v| u64::from(v))
        .collect();
    for (i, &c) in crossings.iter().enumerate() {
        vensure!(
            is_canonical_denomination(zat(c)) && in_series(c),
            "non-canonical-crossing",
            "{who}: crossing[{i}] = {c} is not a 1-2-5 denomination in [0.01, 10000] ZEC (is_canonical_denomination={}, reference series={}); crossings {crossings:?}",
            is_canonical_denomination(zat(c)),
            in_series(c)
        );
    }
    for w in crossings.windows(2) {
        vensure!(w[0] >= w[1], "crossings-increase", "{who}: crossings are not non-increasing: {crossings:?}");
    }
    vensure!(crossings.len() <= case.cap, "cap-exceeded", "{who}: {} parts exceed the cap {}", crossings.len(), case.cap);
    vensure_eq!(outputs.len(), crossings.len(), "output-not-crossing-plus-buffer", "{who}: output count vs crossing count");
    for (i, (&o, &c)) in outputs.iter().zip(&crossings).enumerate() {
        vensure_eq!(o as u128, c as u128 + case.buffer as u128, "output-not-crossing-plus-buffer", "{who}: migration_outputs[{i}] vs crossing + buffer {}", case.buffer);
    }
    vensure_eq!(u64::from(plan.note_fee_buffer()), case.buffer, "plan-field-mismatch", "{who}: note_fee_buffer()");
    vensure_eq!(u64::from(plan.total_input()), case.total, "plan-field-mismatch", "{who}: total_input()");
    let crossing_sum: u128 = crossings.iter().map(|&c| c as u128).sum();
    vensure_eq!(u64::from(plan.total_migratable()) as u128, crossing_sum, "total-migratable-mismatch", "{who}: total_migratable() vs sum of crossings {crossings:?}");
    vensure!(plan.change() != Some(Zatoshis::ZERO), "change-some-zero", "{who}: change() is Some(0); it is documented to be None when the balance is consumed exactly");
    let change = plan.change().map(u64::from).unwrap_or(0);
    let prep_fees = u64::from(plan.prep_fees());
    let out_sum: u128 = outputs.iter().map(|&c| c as u128).sum();
    vensure_eq!(
        out_sum + prep_fees as u128 + change as u128,
        case.total as u128,
        "value-not-conserved",
        "{who}: prepared notes {out_sum} + reserved prep fees {prep_fees} + change {change} vs balance"
    );
    // The stored-parts constructor is the inverse of the accessors.
    let back = catch(|| {
        DenominationPlan::from_stored_parts(
            plan.crossing_values().to_vec(),
            plan.note_fee_buffer(),
            plan.change(),
            plan.prep_fees(),
            plan.total_input(),
            plan.total_migratable(),
        )
    })
    .map_err(|p| Fail::new("stored-parts-panic", format!("{who}: from_stored_parts panicked: {p}")))?;
    vensure!(back.as_ref() == Ok(plan), "stored-parts-roundtrip", "{who}: from_stored_parts(accessors of plan) = {back:?}, plan = {plan:?}");
    Ok(PlanView { crossings, outputs, change, prep_fees })
}

fn sorted_desc(v: &[u64]) -> Vec<u64> {
    let mut v = v.to_vec();
    v.sort_unstable_by(|a, b| b.cmp(a));
    v
}

/// What reconciliation against the oracle may and may not do.
fn check_reconcile(case: &Case, r: &RefSplit, v: &PlanView, log: &CallLog, exception: bool) -> Result<(), Fail> {
    let full = r.parts.len();
    let k = v.crossings.len();
    vensure!(
        k <= full && v.crossings[..] == r.parts[..k],
        "not-prefix-of-canonical-split",
        "crossings {:?} are not a prefix of the canonical split {:?}",
        v.crossings,
        r.parts
    );
    let (total, fee, buffer) = (case.total as u128, case.fee as u128, case.buffer as u128);
    let prefix_outputs = |len: usize| -> Vec<u64> { r.parts[..len].iter().map(|&c| c + case.buffer).collect() };
    let fits = |len: usize, ans: Option<usize>| -> bool {
        let notes: u128 = r.parts[..len].iter().map(|&c| c as u128 + buffer).sum();
        ans.is_some_and(|n| notes + n as u128 * fee <= total)
    };
    if k == 0 {
        vensure_eq!(v.prep_fees, 0, "empty-plan-reserves-fees", "nothing is migrated but preparation fees are reserved");
    } else {
        let want = sorted_desc(&v.outputs);
        let ok = log
            .iter()
            .any(|(arg, ans)| sorted_desc(arg) == want && fits(k, *ans) && ans.is_some_and(|n| n as u128 * fee == v.prep_fees as u128));
        vensure!(
            ok,
            "prep-fees-not-oracle-count-times-fee",
            "reserved prep fees {} are not (an affordable answer of the oracle for exactly the published notes {:?}) x fee {}; oracle calls: {:?}",
            v.prep_fees,
            v.outputs,
            case.fee,
            log
        );
    }
    for len in (k + 1)..=full {
        let want = sorted_desc(&prefix_outputs(len));
        let refused = log.iter().any(|(arg, ans)| sorted_desc(arg) == want && !fits(len, *ans));
        vensure!(
            refused,
            "part-dropped-without-refusal",
            "the split {:?} was truncated to {k} parts although the oracle never refused (None / unaffordable) its {len}-part prefix; oracle calls: {:?}",
            r.parts,
            log
        );
    }
    if case.oracle.is_pure() {
        // Independent of the call log: drop smallest-first until the oracle's fee fits.
        let run = OracleRun::new(case, &case.oracle, exception);
        let mut want_len = 0;
        for len in (1..=full).rev() {
            if fits(len, run.answer_for(&prefix_outputs(len), 0)) {
                want_len = len;
                break;
            }
        }
        vensure_eq!(k, want_len, "reconcile-not-longest-fitting-prefix", "published part count vs longest prefix of {:?} whose oracle cost fits the balance", r.parts);
    }
    Ok(())
}

fn case_key(case: &Case) -> u64 {
    vcore::hash_debug(case)
}

/// The whole oracle for one case.
fn check_case(case: &Case) -> CaseResult {
    let _guard = hang::enter(case);
    debug_assert!(case.cap >= 1 && case.total <= MAX_MONEY && case.buffer <= MAX_MONEY && case.fee <= MAX_MONEY);
    let r = ref_split(case.total, case.count == 1, case.cap, case.buffer, case.fee);
    let full = r.parts.len();

    // (1) Always-Some(0): the implementation's own canonical split, against the reference greedy.
    let (pz, _) = call_plan(case, &OracleKind::Zero, r.exception, Via::Free, RngSel::Panic)?;
    let vz = check_plan(&pz, case, "zero-cost oracle")?;
    vensure_eq!(vz.crossings, r.parts, "canonical-split-mismatch", "implementation under always-Some(0) vs reference 1-2-5 greedy");
    vensure_eq!(vz.prep_fees, 0, "zero-cost-oracle-reserves-fees", "oracle answered 0 transactions");

    // (2) Preparation costs exactly what the planner assumed: everything is published, and drained.
    let (pa, _) = call_plan(case, &OracleKind::Assumed, r.exception, Via::Free, RngSel::Panic)?;
    let va = check_plan(&pa, case, "assumed-cost oracle")?;
    vensure_eq!(va.crossings, r.parts, "assumed-cost-split-truncated", "preparation costs what the planner assumed, yet the canonical split is not published in full");
    let want_fees = if r.exception { 0 } else { stub_txs(full) as u128 * case.fee as u128 };
    vensure_eq!(va.prep_fees as u128, want_fees, "assumed-cost-fees", "reserved fees under the assumed costs ({} parts, fee {})", full, case.fee);
    if full < case.cap {
        vensure!(
            (va.change as u128) < MIN_DENOM as u128 + case.buffer as u128 + case.fee as u128,
            "not-drained",
            "cap {} not reached ({} parts) and costs as assumed, but change {} >= smallest self-funding note {} + one prep fee {}",
            case.cap,
            full,
            va.change,
            MIN_DENOM as u128 + case.buffer as u128,
            case.fee
        );
    }

    // (3) The case's own oracle.
    let (px, log) = call_plan(case, &case.oracle, r.exception, Via::Free, RngSel::Panic)?;
    let vx = check_plan(&px, case, "case oracle")?;
    check_reconcile(case, &r, &vx, &log, r.exception)?;

    // (4) Determinism: other RNG streams and the other entry points give the same plan.
    for (via, rng) in [(Via::WithMaxNotes, RngSel::StreamA), (Via::New, RngSel::StreamB)] {
        let (p2, _) = call_plan(case, &case.oracle, r.exception, via, rng)?;
        vensure!(p2 == px, "plan-not-deterministic", "plan via {via:?} with rng {rng:?} = {p2:?} differs from plan_denominations with the untouchable rng = {px:?}");
    }

    let k = vx.crossings.len();
    let dropped = full - k;
    let wide = case.buffer >= MIN_DENOM || case.fee > 10_000_000;
    Ok(Obs::new((full >= 2 && dropped >= 1) || r.tight)
        .key(case_key(case))
        .label(case.oracle.label())
        .label_if(r.tight, "boundary-tight")
        .label_if(r.exception, "single-note-exception")
        .label_if(case.count == 1, "count=1")
        .label_if(full == 0, "empty-split")
        .label_if(full == case.cap, "cap-reached")
        .label_if(full >= 15, "split>=15-parts")
        .label_if(dropped >= 1, "dropped>=1")
        .label_if(dropped >= 1 && k >= 1, "dropped>=1-and-kept>=1")
        .label_if(dropped >= 1 && k >= 2, "dropped>=1-and-kept>=2")
        .label_if(full >= 1 && k == 0, "dropped-all")
        .label_if(vx.change == 0, "change-none")
        .label_if(wide, "wide-params")
        .count("oracle-calls", log.len() as u64)
        .count("published-parts", k as u64))
}

// ---------------------------------------------------------------------------------------------
// Hang monitor: a case that never returns is "inconclusive" (exit 2), with the input saved.
// ---------------------------------------------------------------------------------------------

mod hang {
    use super::*;

    type Slot = Arc<Mutex<Option<(Instant, Case)>>>;
    static SLOTS: Mutex<Vec<Slot>> = Mutex::new(Vec::new());
    thread_local! {
        static MINE: Slot = {
            let s: Slot = Arc::new(Mutex::new(None));
            SLOTS.lock().unwrap().push(s.clone());
            s
        };
    }

    pub struct Guard;
    impl Drop for Guard {
        fn drop(&mut self) {
            MINE.with(|s| *s.lock().unwrap() = None);
        }
    }

    pub fn enter(case: &Case) -> Guard {
        MINE.with(|s| *s.lock().unwrap() = Some((Instant::now(), case.clone())));
        Guard
    }

    /// Wall clock is used only to detect non-termination; it never influences a verdict on a case.
    pub fn start(root: PathBuf, limit: Duration) {
        std::thread::spawn(move || loop {
            std::thread::sleep(Duration::from_millis(500));
            let slots = SLOTS.lock().unwrap();
            for s in slots.iter() {
                let cur = s.lock().unwrap().clone();
                if let Some((t0, case)) = cur {
                    if t0.elapsed() > limit {
                        let dir = root.join("work").join("violations");
                        let _ = std::fs::create_dir_all(&dir);
                        let path = dir.join(format!("C16-hang-{:016x}.json", case_key(&case)));
                        let doc = json!({
                            "property": "C16",
                            "kind": "hang",
                            "signature": "planning-does-not-terminate",
                            "message": format!("one case has been running for more than {} s", limit.as_secs()),
                            "case": format!("{case:#?}"),
                        });
                        let _ = std::fs::write(&path, vcore::serde_json::to_string_pretty(&doc).unwrap());
                        println!("INCONCLUSIVE property=C16 hang: a single case ran for more than {} s; input saved to {}", limit.as_secs(), path.display());
                        println!("  case: {case:?}");
                        std::process::exit(2);
                    }
                }
            }
        });
    }
}

// ---------------------------------------------------------------------------------------------
// Exhaustive boundary lattice
// ---------------------------------------------------------------------------------------------

const BUFFERS: [u64; 3] = [0, 15_000, 999_999];
const FEES: [u64; 5] = [0, 5_000, 80_000, 999_999, 10_000_000];
const N_OFFSETS: u64 = 36;

#[derive(Clone, Debug)]
struct Segment {
    /// (base balance, number of series members it is the sum of)
    bases: Vec<(u64, usize)>,
    counts: Vec<usize>,
    /// caps relative to the number of members: cap = max(1, members + rel), or absolute when `abs`.
    caps: Vec<CapSel>,
}

#[derive(Clone, Copy, Debug)]
enum CapSel {
    Rel(i64),
    Abs(usize),
}

impl Segment {
    fn len(&self) -> u64 {
        self.bases.len() as u64 * N_OFFSETS * (BUFFERS.len() * FEES.len()) as u64 * (self.counts.len() * self.caps.len()) as u64
    }
}

fn lattice_segments(thorough: bool) -> Vec<Segment> {
    let s = series();
    let n = s.len();
    let singles: Vec<(u64, usize)> = s.iter().map(|&d| (d, 1)).collect();
    let mut pairs = vec![];
    let mut triples = vec![];
    for i in 0..n {
        for j in i..n {
            pairs.push((s[i] + s[j], 2));
            for l in j..n {
                triples.push((s[i] + s[j] + s[l], 3));
            }
        }
    }
    // Splits that straddle the 14-notes-per-transaction fee step: m cap-sized parts plus one member.
    let mut steps = vec![];
    for m in [13usize, 14, 27, 28] {
        for &d in s {
            steps.push((m as u64 * MAX_DENOM + d, m + 1));
        }
    }
    vec![
        Segment { bases: singles, counts: vec![0, 1, 2, 3, 50], caps: vec![CapSel::Abs(1), CapSel::Abs(2), CapSel::Abs(64)] },
        Segment { bases: pairs, counts: vec![1, 2], caps: vec![CapSel::Abs(1), CapSel::Abs(2), CapSel::Abs(3), CapSel::Abs(64)] },
        Segment {
            bases: triples,
            counts: vec![1, 2],
            caps: if thorough { vec![CapSel::Abs(2), CapSel::Abs(3), CapSel::Abs(4), CapSel::Abs(64)] } else { vec![CapSel::Abs(3), CapSel::Abs(64)] },
        },
        Segment { bases: steps, counts: vec![2], caps: vec![CapSel::Rel(-1), CapSel::Rel(0), CapSel::Abs(64)] },
    ]
}

/// Offset `j` (0..36) around a base that is the sum of `members` series members:
/// `±(m*buffer + n*fee) + delta` with m in {0, 1, members (2 for a single)}, n in the two fee counts
/// around the optimistic model for that many notes, delta in {-1, 0, +1}.
fn lattice_offset(members: usize, buffer: u64, fee: u64, j: u64) -> i128 {
    let m = [0, 1, if members == 1 { 2 } else { members }][(j % 3) as usize] as i128;
    let txs = stub_txs(members) as i128;
    let n = [txs - 1, txs][((j / 3) % 2) as usize];
    let sign = if (j / 6) % 2 == 0 { 1 } else { -1 };
    let delta = [-1, 0, 1][((j / 12) % 3) as usize];
    sign * (m * buffer as i128 + n * fee as i128) + delta
}

fn lattice_oracle(i: u64) -> OracleKind {
    let h = hash64(&[&i.to_le_bytes()[..], &b"C16-lattice-oracle"[..]].concat());
    match h % 10 {
        0 => OracleKind::Stub,
        1 => OracleKind::Refuse,
        2 => OracleKind::RefuseLarger(0),
        3 => OracleKind::RefuseLarger(1),
        4 => OracleKind::RefuseLarger(2),
        5 => OracleKind::OverAdd(1),
        6 => OracleKind::OverAdd(7),
        7 => OracleKind::OverMul(10),
        8 => OracleKind::HashPure(h >> 8),
        _ => OracleKind::Stateful(h >> 8),
    }
}

/// Decodes lattice index `i`; `None` when base + offset leaves [0, MAX_MONEY].
fn lattice_case(segs: &[Segment], mut i: u64) -> Option<Case> {
    let index = i;
    for seg in segs {
        if i >= seg.len() {
            i -= seg.len();
            continue;
        }
        let combos = (seg.counts.len() * seg.caps.len()) as u64;
        let combo = i % combos;
        i /= combos;
        let fee = FEES[(i % FEES.len() as u64) as usize];
        i /= FEES.len() as u64;
        let buffer = BUFFERS[(i % BUFFERS.len() as u64) as usize];
        i /= BUFFERS.len() as u64;
        let j = i % N_OFFSETS;
        i /= N_OFFSETS;
        let (base, members) = seg.bases[i as usize];
        let count = seg.counts[(combo % seg.counts.len() as u64) as usize];
        let cap = match seg.caps[(combo / seg.counts.len() as u64) as usize] {
            CapSel::Abs(c) => c,
            CapSel::Rel(d) => (members as i64 + d).max(1) as usize,
        };
        let total = base as i128 + lattice_offset(members, buffer, fee, j);
        if !(0..=MAX_MONEY as i128).contains(&total) {
            return None;
        }
        return Some(Case { total: total as u64, count, cap, buffer, fee, oracle: lattice_oracle(index), notes: vec![] });
    }
    unreachable!("index beyond the lattice")
}

// ---------------------------------------------------------------------------------------------
// Random generators
// ---------------------------------------------------------------------------------------------

#[derive(Clone, Debug)]
enum TotalSpec {
    Any(u64),
    /// Sum of series members, plus some buffers and fees, plus a small delta.
    Sum { members: Vec<u64>, nb_sel: u8, nf_sel: u8, delta: i64 },
    /// About `cap` cap-sized parts (cap + rel of them) and possibly one more member.
    Whale { rel: i64, extra: Option<u64>, nb_sel: u8, nf_sel: u8, delta: i64 },
}

fn resolve_total(spec: &TotalSpec, cap: usize, buffer: u64, fee: u64) -> u64 {
    let build = |base: u128, parts: usize, nb_sel: u8, nf_sel: u8, delta: i64| -> u64 {
        let nb = [0, 1, parts, parts + 1][nb_sel as usize % 4] as u128;
        let txs = stub_txs(parts);
        let nf = [0, txs.saturating_sub(1), txs, txs + 1][nf_sel as usize % 4] as u128;
        let t = base as i128 + (nb * buffer as u128 + nf * fee as u128) as i128 + delta as i128;
        t.clamp(0, MAX_MONEY as i128) as u64
    };
    match spec {
        TotalSpec::Any(v) => *v,
        TotalSpec::Sum { members, nb_sel, nf_sel, delta } => build(members.iter().map(|&m| m as u128).sum(), members.len(), *nb_sel, *nf_sel, *delta),
        TotalSpec::Whale { rel, extra, nb_sel, nf_sel, delta } => {
            let copies = (cap as i64 + rel).max(0) as u128;
            let parts = copies as usize + extra.is_some() as usize;
            build(copies * MAX_DENOM as u128 + extra.unwrap_or(0) as u128, parts, *nb_sel, *nf_sel, *delta)
        }
    }
}

fn arb_member() -> impl Strategy<Value = u64> + Clone {
    proptest::sample::select(series().to_vec())
}

fn arb_total_spec() -> impl Strategy<Value = TotalSpec> {
    let any_total = prop_oneof![
        3 => 0u64..=MAX_MONEY,
        // log-uniform
        3 => (0u32..=51, any::<u64>()).prop_map(|(bits, x)| (x >> (63 - bits)).min(MAX_MONEY)),
        1 => 0u64..=5_000_000,
        1 => (MAX_MONEY - 1_000_000)..=MAX_MONEY,
    ];
    prop_oneof![
        4 => any_total.prop_map(TotalSpec::Any),
        3 => (proptest::collection::vec(arb_member(), 1..=4), 0u8..4, 0u8..4, -2i64..=2)
            .prop_map(|(members, nb_sel, nf_sel, delta)| TotalSpec::Sum { members, nb_sel, nf_sel, delta }),
        2 => (proptest::collection::vec(arb_member(), 5..=30), 0u8..4, 0u8..4, -2i64..=2)
            .prop_map(|(members, nb_sel, nf_sel, delta)| TotalSpec::Sum { members, nb_sel, nf_sel, delta }),
        2 => (-2i64..=1, proptest::option::of(arb_member()), 0u8..4, 0u8..4, -2i64..=2)
            .prop_map(|(rel, extra, nb_sel, nf_sel, delta)| TotalSpec::Whale { rel, extra, nb_sel, nf_sel, delta }),
    ]
}

fn arb_params() -> impl Strategy<Value = (usize, usize, u64, u64)> {
    let count = prop_oneof![
        3 => Just(1usize),
        4 => proptest::sample::select(vec![0usize, 2, 3, 50]),
        1 => 0usize..1000,
    ];
    let cap = prop_oneof![
        4 => 1usize..=64,
        1 => proptest::sample::select(vec![1usize, 2, 13, 14, 15, 28, 29, 50, 64]),
    ];
    let buffer = prop_oneof![
        5 => proptest::sample::select(BUFFERS.to_vec()),
        2 => 0u64..1_000_000,
        1 => 0u64..=MAX_MONEY,
    ];
    let fee = prop_oneof![
        5 => proptest::sample::select(FEES.to_vec()),
        2 => 0u64..=10_000_000,
        1 => 0u64..=MAX_MONEY,
    ];
    (count, cap, buffer, fee)
}

fn arb_oracle() -> impl Strategy<Value = OracleKind> {
    prop_oneof![
        2 => Just(OracleKind::Stub),
        1 => Just(OracleKind::Refuse),
        2 => (0usize..=64).prop_map(OracleKind::RefuseLarger),
        2 => prop_oneof![1usize..=3, 1usize..=1000].prop_map(OracleKind::OverAdd),
        1 => proptest::sample::select(vec![2usize, 10]).prop_map(OracleKind::OverMul),
        3 => any::<u64>().prop_map(OracleKind::HashPure),
        3 => any::<u64>().prop_map(OracleKind::Stateful),
    ]
}

fn arb_case() -> impl Strategy<Value = Case> {
    (arb_params(), arb_total_spec(), arb_oracle()).prop_map(|((count, cap, buffer, fee), spec, oracle)| Case {
        total: resolve_total(&spec, cap, buffer, fee),
        count,
        cap,
        buffer,
        fee,
        oracle,
        notes: vec![],
    })
}

/// Huge answers: their own class, so that the pre-identified overflow cannot mask anything else.
fn arb_huge_case() -> impl Strategy<Value = Case> {
    (arb_params(), arb_total_spec(), 0usize..=6, 0u8..9, any::<u64>()).prop_map(|((count, cap, buffer, fee), spec, above, which, x)| {
        let total = resolve_total(&spec, cap, buffer, fee);
        // smallest n with n * fee >= 2^64 (usize::MAX when no n overflows)
        let overflow_at: u128 = if fee >= 2 { (1u128 << 64).div_ceil(fee as u128) } else { u64::MAX as u128 };
        let n: u128 = match which {
            0 => (usize::MAX / 2) as u128,
            1 => usize::MAX as u128,
            2 => 1u128 << 63,
            3 => overflow_at,
            4 => overflow_at - 1,
            5 => (total / fee.max(1)) as u128 + 1,
            6 => 1u128 << 32,
            7 => (x | (1 << 63)) as u128,
            _ => (x >> 16) as u128,
        };
        Case { total, count, cap, buffer, fee, oracle: OracleKind::Huge { above, n: n.min(usize::MAX as u128) as usize }, notes: vec![] }
    })
}

fn check_huge_case(case: &Case) -> CaseResult {
    let OracleKind::Huge { n, .. } = case.oracle else { unreachable!() };
    let overflows = (n as u128) * (case.fee as u128) > u64::MAX as u128;
    check_case(case).map(|o| o.label_if(overflows, "product-exceeds-u64-but-not-asked").label_if(!overflows, "product-fits-u64"))
}

/// Wallet note sets for the real preparation planner.
fn arb_real_case() -> impl Strategy<Value = Case> {
    let note = prop_oneof![
        3 => (arb_member(), proptest::sample::select(vec![0u64, 15_000])).prop_map(|(d, b)| d + b),
        3 => 1u64..2_000_000_000,
        2 => 1u64..1_000_000,
        1 => 1_000_000_000u64..20_000_000_000_000,
        1 => Just(MIN_DENOM),
    ];
    let notes = prop_oneof![
        4 => proptest::collection::vec(note.clone(), 1..=6),
        3 => proptest::collection::vec(note, 1..=24),
        1 => (1u64..20_000_000, 20usize..=200).prop_map(|(v, n)| vec![v; n]),
    ];
    let cap = prop_oneof![2 => Just(50usize), 2 => 1usize..=64];
    (
        notes,
        cap,
        proptest::sample::select(vec![15_000u64, 15_000, 0, 999_999]),
        proptest::sample::select(vec![80_000u64, 80_000, 5_000, 0, 10_000_000]),
    )
        .prop_map(|(mut notes, cap, buffer, fee)| {
            while notes.iter().map(|&v| v as u128).sum::<u128>() > MAX_MONEY as u128 {
                notes.pop();
            }
            Case { total: notes.iter().sum(), count: notes.len(), cap, buffer, fee, oracle: OracleKind::RealPrep, notes }
        })
}

fn check_real_case(case: &Case) -> CaseResult {
    let obs = check_case(case)?;
    // What the engine relies on: the published multiset is one the preparation planner mints, at
    // the reserved cost.
    let (plan, _) = call_plan(case, &OracleKind::RealPrep, false, Via::Free, RngSel::Panic)?;
    let outputs = plan.migration_outputs();
    let mut prepared = false;
    if !outputs.is_empty() {
        let available: Vec<Zatoshis> = case.notes.iter().map(|&v| zat(v)).collect();
        match plan_preparation(&available, &outputs, zat(case.fee)) {
            Ok(p) => {
                vensure_eq!(
                    p.transaction_count() as u128 * case.fee as u128,
                    u64::from(plan.prep_fees()) as u128,
                    "real-preparation-cost-differs",
                    "plan_preparation over the published notes vs reserved prep fees"
                );
                prepared = p.transaction_count() > 0;
            }
            Err(e) => {
                return Err(Fail::new("real-preparation-refuses-published-plan", format!("plan_preparation refuses the published notes {outputs:?}: {e:?}")));
            }
        }
    }
    Ok(obs.label_if(prepared, "needs-preparation-txs").label_if(!outputs.is_empty() && !prepared, "direct-funding-only"))
}

/// ZIP-317 (5000 zat per action, at least two) over the two canonical shapes the engine documents:
/// the 2 Orchard + 1 Ironwood action transfer and the 16-action padded preparation transaction.
const ENGINE_BUFFER: u64 = 3 * 5_000;
const ENGINE_PREP_FEE: u64 = 16 * 5_000;

/// Wallets for the engine's plan preview (the engine computes buffer and fee itself).
fn arb_engine_case() -> impl Strategy<Value = Case> {
    let note = prop_oneof![
        4 => arb_member().prop_map(|d| d + ENGINE_BUFFER),
        2 => arb_member(),
        3 => 1u64..2_000_000_000,
        2 => 1u64..1_100_000,
        1 => 1_000_000_000u64..20_000_000_000_000,
    ];
    let notes = prop_oneof![
        2 => proptest::collection::vec(note.clone(), 1..=1),
        3 => proptest::collection::vec(note.clone(), 2..=6),
        2 => proptest::collection::vec(note, 1..=20),
        1 => (1u64..3_000_000, 20usize..=120).prop_map(|(v, n)| vec![v; n]),
    ];
    (notes, prop_oneof![2 => Just(50usize), 2 => 1usize..=64]).prop_map(|(mut notes, cap)| {
        while notes.iter().map(|&v| v as u128).sum::<u128>() > MAX_MONEY as u128 {
            notes.pop();
        }
        Case { total: notes.iter().sum(), count: notes.len(), cap, buffer: ENGINE_BUFFER, fee: ENGINE_PREP_FEE, oracle: OracleKind::RealPrep, notes }
    })
}

/// `engine::plan_migration_with` must publish exactly the denomination plan of the property for the
/// wallet it was given (balance = sum of the notes, count = number of notes, canonical fees).
fn check_engine_case(case: &Case) -> CaseResult {
    let _guard = hang::enter(case);
    let r = ref_split(case.total, case.count == 1, case.cap, case.buffer, case.fee);
    let (want, _) = call_plan(case, &OracleKind::RealPrep, false, Via::Free, RngSel::Panic)?;
    let backend = MockBackend::new(case.notes.clone(), 1_000);
    let params = regtest_network(true);
    let mut seed = [0u8; 32];
    seed[..8].copy_from_slice(&case_key(case).to_le_bytes());
    let got = catch(|| {
        let mut rng = rand_chacha::ChaCha20Rng::from_seed(seed);
        plan_migration_with(&default_portfolio(), NonZeroUsize::new(case.cap).expect("cap >= 1"), &params, &backend, &mut rng)
    })
    .map_err(|p| Fail::new(format!("engine-plan-panic:{}", repo_site(&p)), format!("plan_migration_with panicked: {p}")))?;
    let mut label = "engine:plan";
    match got {
        Ok(plan) => {
            let d = plan.denominations();
            vensure_eq!(u64::from(d.note_fee_buffer()), ENGINE_BUFFER, "engine-canonical-fee-differs", "transfer fee buffer of the engine's plan vs ZIP-317 for 3 actions");
            let v = check_plan(d, case, "engine preview")?;
            vensure!(!v.crossings.is_empty(), "engine-publishes-empty-plan", "plan_migration_with returned a plan with no crossings");
            vensure!(
                v.crossings.len() <= r.parts.len() && v.crossings[..] == r.parts[..v.crossings.len()],
                "not-prefix-of-canonical-split",
                "engine preview: crossings {:?} are not a prefix of the canonical split {:?}",
                v.crossings,
                r.parts
            );
            vensure!(d == &want, "engine-plan-differs", "engine preview {d:?} differs from plan_denominations over the same wallet {want:?}");
            vensure_eq!(plan.crossing_values(), d.crossing_values(), "engine-plan-differs", "MigrationPlan::crossing_values()");
            vensure_eq!(plan.funding_notes(), d.migration_outputs(), "engine-plan-differs", "MigrationPlan::funding_notes()");
            vensure_eq!(
                plan.preparation().transaction_count() as u128 * ENGINE_PREP_FEE as u128,
                v.prep_fees as u128,
                "real-preparation-cost-differs",
                "engine preview: preparation transactions x fee vs reserved prep fees"
            );
            let mut minted: Vec<u64> = plan.preparation().funding_notes().iter().map(|&z| u64::from(z)).collect();
            minted.sort_unstable();
            let mut outs = v.outputs.clone();
            outs.sort_unstable();
            vensure_eq!(minted, outs, "engine-preparation-mints-other-notes", "funding notes the preparation plan mints vs the denomination plan's outputs");
        }
        Err(MigrationError::NothingToMigrate) => {
            label = "engine:nothing-to-migrate";
            vensure!(r.parts.is_empty(), "engine-nothing-to-migrate-but-split-exists", "NothingToMigrate although the balance {} quantizes to {:?}", case.total, r.parts);
        }
        Err(MigrationError::UnfundableSplit) => {
            label = "engine:unfundable-split";
            vensure!(
                !r.parts.is_empty() && want.crossing_values().is_empty(),
                "engine-unfundable-split-misreported",
                "UnfundableSplit but canonical split = {:?} and plan_denominations publishes {:?}",
                r.parts,
                want.crossing_values()
            );
        }
        Err(e) => return Err(Fail::new("engine-unexpected-error", format!("plan_migration_with failed with {e:?}"))),
    }
    let k = want.crossing_values().len();
    Ok(Obs::new((r.parts.len() >= 2 && k < r.parts.len()) || r.tight)
        .key(case_key(case))
        .label(label)
        .label_if(r.exception, "single-note-exception")
        .label_if(case.count == 1, "count=1")
        .label_if(k < r.parts.len(), "dropped>=1")
        .label_if(k == case.cap, "cap-reached"))
}

// ---------------------------------------------------------------------------------------------
// Stored parts; series functions; regression list
// ---------------------------------------------------------------------------------------------

#[derive(Clone, Debug)]
struct Stored {
    crossings: Vec<u64>,
    buffer: u64,
    change: Option<u64>,
    prep_fees: u64,
    total_input: u64,
    total_migratable: u64,
}

fn arb_stored() -> impl Strategy<Value = Stored> {
    let amount = || {
        prop_oneof![
            3 => 0u64..=MAX_MONEY,
            2 => arb_member(),
            1 => (MAX_MONEY - 2_000_000)..=MAX_MONEY,
            1 => 0u64..=2_000_000,
        ]
    };
    (
        proptest::collection::vec(amount(), 0..6),
        prop_oneof![3 => proptest::sample::select(BUFFERS.to_vec()), 2 => amount()],
        proptest::option::of(amount()),
        amount(),
        amount(),
        amount(),
        any::<bool>(),
    )
        .prop_map(|(mut crossings, buffer, change, prep_fees, total_input, total_migratable, boundary)| {
            if boundary && !crossings.is_empty() {
                // put one value right at the representability boundary
                let d = (total_input % 3) as u64; // 0,1,2 -> sum = MAX-1, MAX, MAX+1
                crossings[0] = (MAX_MONEY - buffer + d).saturating_sub(1).min(MAX_MONEY);
            }
            Stored { crossings, buffer, change, prep_fees, total_input, total_migratable }
        })
}

fn check_stored(s: &Stored) -> CaseResult {
    let representable = s.crossings.iter().all(|&c| c as u128 + s.buffer as u128 <= MAX_MONEY as u128);
    let cv: Vec<Zatoshis> = s.crossings.iter().map(|&c| zat(c)).collect();
    let r = catch(|| {
        DenominationPlan::from_stored_parts(cv.clone(), zat(s.buffer), s.change.map(zat), zat(s.prep_fees), zat(s.total_input), zat(s.total_migratable))
    })
    .map_err(|p| Fail::new("stored-parts-panic", format!("from_stored_parts panicked: {p}")))?;
    let near = s.crossings.iter().any(|&c| (c as i128 + s.buffer as i128 - MAX_MONEY as i128).abs() <= 1);
    match r {
        Ok(p) => {
            vensure!(representable, "stored-parts-accepts-unrepresentable", "accepted although some crossing + buffer exceeds MAX_MONEY");
            vensure_eq!(p.crossing_values(), &cv[..], "stored-parts-not-verbatim", "crossing_values()");
            vensure_eq!(p.note_fee_buffer(), zat(s.buffer), "stored-parts-not-verbatim", "note_fee_buffer()");
            vensure_eq!(p.change(), s.change.map(zat), "stored-parts-not-verbatim", "change()");
            vensure_eq!(p.prep_fees(), zat(s.prep_fees), "stored-parts-not-verbatim", "prep_fees()");
            vensure_eq!(p.total_input(), zat(s.total_input), "stored-parts-not-verbatim", "total_input()");
            vensure_eq!(p.total_migratable(), zat(s.total_migratable), "stored-parts-not-verbatim", "total_migratable()");
            let outs = catch(|| p.migration_outputs()).map_err(|e| Fail::new("migration-outputs-panic", format!("migration_outputs() of an accepted stored plan panicked: {e}")))?;
            let want: Vec<u64> = s.crossings.iter().map(|&c| c + s.buffer).collect();
            vensure_eq!(outs.iter().map(|&v| u64::from(v)).collect::<Vec<_>>(), want, "output-not-crossing-plus-buffer", "migration_outputs() of a stored plan");
        }
        Err(e) => {
            vensure!(!representable, "stored-parts-rejects-representable", "rejected ({e:?}) although every crossing + buffer is representable");
            vensure_eq!(e, BalanceError::Overflow, "stored-parts-error-variant", "documented error");
        }
    }
    Ok(Obs::new(near || !representable).label_if(representable, "accepted").label_if(!representable, "rejected").label_if(near, "at-boundary"))
}

fn pow10(k: u32) -> u64 {
    10u64.pow(k)
}

fn series_probe_values() -> Vec<u64> {
    let mut v: Vec<u64> = vec![0, 1, u64::MAX, u64::MAX - 1, MAX_MONEY, MAX_MONEY - 1, MAX_MONEY + 1];
    for k in 0..=19u32 {
        for m in [1u64, 2, 3, 4, 5, 6, 7, 9, 10, 11, 15, 20, 25, 50, 99] {
            if let Some(x) = pow10(k).checked_mul(m) {
                for d in [-2i64, -1, 0, 1, 2] {
                    if let Some(y) = x.checked_add_signed(d) {
                        v.push(y);
                    }
                }
            }
        }
    }
    v.sort_unstable();
    v.dedup();
    v
}

const FLOOR_EXPONENTS: [u32; 7] = [0, 1, 6, 8, 12, 18, 19];

fn check_series_fns(hi: u64, floor: u64) -> CaseResult {
    let got = catch(|| largest_one_two_five(hi, floor)).map_err(|p| Fail::new("largest-one-two-five-panic", format!("largest_one_two_five({hi}, {floor}) panicked: {p}")))?;
    vensure_eq!(got, ref_largest(hi, floor), "largest-one-two-five-wrong", "largest_one_two_five({hi}, {floor}) vs reference");
    let mut canonical = false;
    if floor == MIN_DENOM && hi <= MAX_MONEY {
        canonical = in_series(hi);
        vensure_eq!(is_canonical_denomination(zat(hi)), canonical, "is-canonical-denomination-wrong", "is_canonical_denomination({hi}) vs membership in the reference series");
    }
    Ok(Obs::new(got != 0)
        .key(hash64(&[hi.to_le_bytes(), floor.to_le_bytes()].concat()))
        .label_if(got == 0, "below-floor")
        .label_if(got == hi && hi != 0, "exact-member")
        .label_if(canonical, "canonical"))
}

/// Fixed cases worth re-running forever. The expected crossings are the worked examples of the
/// rustdoc (fee-free, buffer-free, several notes).
fn regression_cases() -> Vec<(Case, Option<Vec<u64>>)> {
    let plain = |total: u64| Case { total, count: 2, cap: 64, buffer: 0, fee: 0, oracle: OracleKind::Stub, notes: vec![] };
    let c = COIN;
    vec![
        (plain(12_345 * c), Some(vec![10_000 * c, 2_000 * c, 200 * c, 100 * c, 20 * c, 20 * c, 5 * c])),
        (plain(53 * (c / 100)), Some(vec![c / 2, c / 50, c / 100])),
        (plain(540 * c), Some(vec![500 * c, 20 * c, 20 * c])),
        (plain(12_345 * (c / 100)), Some(vec![100 * c, 20 * c, 2 * c, c, c / 5, c / 5, c / 20])),
        (plain(25_000 * c), Some(vec![10_000 * c, 10_000 * c, 5_000 * c])),
        (plain(45_000 * c), Some(vec![10_000 * c, 10_000 * c, 10_000 * c, 10_000 * c, 5_000 * c])),
        (plain(0), Some(vec![])),
        (plain(MIN_DENOM - 1), Some(vec![])),
        (plain(MIN_DENOM), Some(vec![MIN_DENOM])),
        (plain(MAX_MONEY), Some(vec![MAX_DENOM; 64])),
        // One denomination plus its buffer held as one note: no fee reserve; the stub then charges one.
        (Case { total: c + 15_000, count: 1, cap: 50, buffer: 15_000, fee: 80_000, oracle: OracleKind::Stub, notes: vec![] }, None),
        (Case { total: c + 15_000, count: 2, cap: 50, buffer: 15_000, fee: 80_000, oracle: OracleKind::Stub, notes: vec![] }, None),
        (Case { total: c + 15_000, count: 1, cap: 50, buffer: 15_000, fee: 80_000, oracle: OracleKind::RealPrep, notes: vec![c + 15_000] }, Some(vec![c])),
        // 15 parts: the second preparation fee step.
        (Case { total: 99_999_300_000, count: 2, cap: 50, buffer: 15_000, fee: 80_000, oracle: OracleKind::OverAdd(1), notes: vec![] }, None),
        // Minimal reproducer of the unchecked `n as u64 * prep_tx_fee_zatoshi` (2^63 * 2 = 2^64).
        (Case { total: 1_000_002, count: 0, cap: 1, buffer: 0, fee: 2, oracle: OracleKind::Huge { above: 0, n: 1 << 63 }, notes: vec![] }, None),
        (Case { total: 2_030_000, count: 2, cap: 50, buffer: 15_000, fee: 80_000, oracle: OracleKind::Huge { above: 0, n: usize::MAX }, notes: vec![] }, None),
    ]
}

fn check_regression(i: usize) -> CaseResult {
    let cases = regression_cases();
    if i == cases.len() {
        // the constants the reference model was written against
        vensure_eq!(u64::from(MAX_RESIDUAL_VALUE), MIN_DENOM, "constants-differ", "MAX_RESIDUAL_VALUE vs 0.01 ZEC");
        vensure_eq!(u64::from(DENOM_CAP), MAX_DENOM, "constants-differ", "DENOM_CAP vs 10,000 ZEC");
        vensure_eq!(FUNDING_OUTPUTS_PER_TX, NOTES_PER_PREP_TX, "constants-differ", "FUNDING_OUTPUTS_PER_TX vs 14");
        vensure_eq!(series().len(), 19, "constants-differ", "series size");
        return Ok(Obs::nontrivial().label("constants"));
    }
    if i == cases.len() + 1 {
        // a zero cap (reachable through `CanonicalOneTwoFive::new`) publishes nothing
        let f = |_: &[Zatoshis]| Some(0usize);
        for count in [1usize, 2] {
            let p = catch(|| CanonicalOneTwoFive::new(0, DENOM_CAP, MAX_RESIDUAL_VALUE, zat(15_000)).plan(zat(COIN + 15_000), count, zat(80_000), &f, &mut PanicRng))
                .map_err(|p| classify_panic(&p, "zero cap"))?;
            vensure!(p.crossing_values().is_empty(), "cap-exceeded", "cap 0 but {:?} published", p.crossing_values());
            vensure_eq!(p.change(), Some(zat(COIN + 15_000)), "value-not-conserved", "cap 0: everything stays as change");
            vensure_eq!(p.prep_fees(), Zatoshis::ZERO, "empty-plan-reserves-fees", "cap 0");
        }
        return Ok(Obs::nontrivial().label("zero-cap"));
    }
    let (case, expected) = &cases[i];
    let obs = check_case(case)?;
    if let Some(want) = expected {
        let (p, _) = call_plan(case, &case.oracle, false, Via::Free, RngSel::Panic)?;
        let got: Vec<u64> = p.crossing_values().iter().map(|&v| u64::from(v)).collect();
        vensure_eq!(&got, want, "documented-example-differs", "crossings for balance {}", case.total);
    }
    Ok(Obs { nontrivial: true, ..obs })
}

// ---------------------------------------------------------------------------------------------

fn main() {
    let ctx = Ctx::from_args("C16", "exploration");
    ctx.set_rule(
        "Case = (balance, spendable-note count, cap 1..=64, fee buffer, preparation fee, preparation-cost oracle). \
         boundary-lattice (exhaustive): every balance B + off where B is a 1-2-5 series member (0.01..10,000 ZEC), a sum of two \
         or three members, or 13/14/27/28 cap-sized parts plus one member (the 14-notes-per-transaction fee steps), and off = \
         +-(m*buffer + n*fee) + {-1,0,1} with m in {0,1,#members}, n in the two fee counts around the optimistic model; buffer in \
         {0,15000,10^6-1}; fee in {0,5000,80000,10^6-1,10^7}; note counts {0,1,2,3,50} (singles) / {1,2}; caps around the member \
         count and 64; one oracle of the family per index chosen by a hash of the index. random-plans / huge-oracle-answers / \
         real-preparation / engine-preview (plan_migration_with over a mock backend holding the generated notes): proptest over uniform, log-uniform and boundary-constructed balances, realistic and arbitrary \
         (<= MAX_MONEY) buffers and fees, every oracle kind. Each case is planned under the always-Some(0) oracle (must equal the \
         reference greedy), under the costs the planner assumed (published in full, drained), and under its own oracle through \
         three entry points with an untouchable RNG and two ChaCha streams. Non-trivial = the canonical split has >= 2 parts and \
         reconciliation dropped >= 1 of them, or at some greedy step a series member fitted or missed the remaining budget by at \
         most buffer+fee+1 zatoshi (a denomination boundary). Distinct = hash of the whole case.",
    );
    ctx.assume("The reference split is the rustdoc's greedy: the largest series member whose cumulative cost (parts + buffers + ceil((k+1)/14) fees) fits the balance; a lone note of exactly one denomination plus its buffer reserves no fee.");
    ctx.assume("Reconciliation is the documented procedure: drop parts smallest-first until the oracle's count times the fee fits, so every dropped part was preceded by a refusal (None or unaffordable) for the longer prefix, and the reserved fees are an answer of the oracle for exactly the published notes times the fee.");
    ctx.assume("'Preparation costs what the planner assumed' = the oracle answers ceil(n/14), and 0 for the lone exact-funding note.");
    ctx.assume("Non-huge oracle answers are <= 5000 so that answer x fee stays below 2^64; answers whose product with the fee overflows are explored only in the huge-oracle-answers sub-check.");
    ctx.assume("engine-preview: the engine's canonical ZIP-317 fees are 15,000 zat (3-action transfer) and 80,000 zat (16-action preparation), as its rustdoc describes; the buffer is checked on the returned plan.");
    ctx.assume("plan_preparation is a deterministic function of its arguments (documented), so it is treated as a pure oracle.");
    let tier = ctx.tier;
    let thorough = tier == vcore::Tier::Thorough;
    let hang_limit = std::env::var("VERIF_C16_HANG_S").ok().and_then(|s| s.parse().ok()).unwrap_or(tier.pick(120u64, 600));
    hang::start(ctx.root.clone(), Duration::from_secs(hang_limit));
    ctx.extra("reference_series_zat", json!(series()));
    ctx.extra(
        "oracle_family",
        json!(["stub ceil(n/14)", "assumed", "always Some(0)", "always None", "refuses sets larger than m", "overcharge +delta", "overcharge x m", "hash of multiset (non-monotone)", "stateful (call counter)", "huge", "real plan_preparation"]),
    );

    // 0. regression list
    let n_reg = regression_cases().len() as u64 + 2;
    ctx.run_enum("regression", n_reg, true, |i| check_regression(i as usize), |i| match regression_cases().get(i as usize) {
        Some((c, e)) => format!("{c:?} expected {e:?}"),
        None => "constants / zero cap".to_string(),
    });

    // 1. the two series functions
    {
        let values = series_probe_values();
        let values2 = values.clone();
        let nf = FLOOR_EXPONENTS.len() as u64;
        ctx.run_enum(
            "series-functions-lattice",
            values.len() as u64 * nf,
            true,
            move |i| check_series_fns(values[(i / nf) as usize], pow10(FLOOR_EXPONENTS[(i % nf) as usize])),
            move |i| format!("hi={} floor=10^{}", values2[(i / nf) as usize], FLOOR_EXPONENTS[(i % nf) as usize]),
        );
        ctx.run_prop(
            "series-functions-random",
            || {
                let hi = prop_oneof![
                    2 => any::<u64>(),
                    2 => (0u32..=63, any::<u64>()).prop_map(|(b, x)| x >> b),
                    3 => (1u64..=9, 0u32..=19, -1i64..=1).prop_map(|(m, k, d)| pow10(k).saturating_mul(m).saturating_add_signed(d)),
                ];
                (hi, prop_oneof![2 => Just(6u32), 1 => 0u32..=19])
            },
            tier.pick(200_000, 5_000_000),
            |(hi, k)| check_series_fns(*hi, pow10(*k)),
        );
    }

    // 2. exhaustive boundary lattice
    {
        let segs = lattice_segments(thorough);
        let n: u64 = segs.iter().map(|s| s.len()).sum();
        let segs2 = segs.clone();
        ctx.extra("boundary_lattice_size", json!({"indices": n, "segments": segs.iter().map(|s| json!({"bases": s.bases.len(), "indices": s.len()})).collect::<Vec<_>>()}));
        ctx.run_enum(
            "boundary-lattice",
            n,
            true,
            move |i| match lattice_case(&segs, i) {
                Some(case) => check_case(&case),
                None => Ok(Obs::trivial().label("balance-out-of-range")),
            },
            move |i| format!("{:?}", lattice_case(&segs2, i)),
        );
        ctx.require_label_fraction("boundary-lattice", "boundary-tight", 0.30);
        ctx.require_label_fraction("boundary-lattice", "dropped>=1", 0.10);
        ctx.require_min_count("boundary-lattice", "single-note-exception", 200);
        ctx.require_min_count("boundary-lattice", "split>=15-parts", 1000);
    }

    // 3. random plans
    ctx.run_prop("random-plans", arb_case, tier.pick(4_000_000, 60_000_000), check_case);
    ctx.require_label_fraction("random-plans", "boundary-tight", 0.10);
    ctx.require_label_fraction("random-plans", "dropped>=1-and-kept>=1", 0.03);
    ctx.require_label_fraction("random-plans", "cap-reached", 0.03);
    ctx.require_label_fraction("random-plans", "split>=15-parts", 0.03);
    ctx.require_min_count("random-plans", "single-note-exception", 200);
    for l in ["oracle:stub", "oracle:refuse-all", "oracle:refuse-larger-than-m", "oracle:overcharge-add", "oracle:overcharge-mul", "oracle:hash-nonmonotone", "oracle:stateful-inconsistent"] {
        ctx.require_label_fraction("random-plans", l, 0.03);
    }

    // 4. huge answers (own class: the pre-identified unchecked product lives here)
    ctx.run_prop("huge-oracle-answers", arb_huge_case, tier.pick(1_000_000, 8_000_000), check_huge_case);

    // 5. the real preparation planner over generated wallets
    ctx.run_prop("real-preparation", arb_real_case, tier.pick(500_000, 6_000_000), check_real_case);
    ctx.require_label_fraction("real-preparation", "needs-preparation-txs", 0.10);

    // 6. the engine's plan preview publishes exactly that plan
    ctx.run_prop("engine-preview", arb_engine_case, tier.pick(400_000, 3_000_000), check_engine_case);
    ctx.require_label_fraction("engine-preview", "engine:plan", 0.50);
    ctx.require_min_count("engine-preview", "engine:nothing-to-migrate", 50);
    ctx.require_min_count("engine-preview", "single-note-exception", 100);

    // 7. from_stored_parts accepts exactly the representable parts
    ctx.run_prop("stored-parts", arb_stored, tier.pick(800_000, 4_000_000), check_stored);
    ctx.require_label_fraction("stored-parts", "accepted", 0.10);
    ctx.require_label_fraction("stored-parts", "rejected", 0.10);

    ctx.finish();
}

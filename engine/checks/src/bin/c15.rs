//! C15 — Scan queue priorities follow the dominance rule and syncing terminates.
//!
//! Part 1: `SpanningTree` against a pointwise reference map (exhaustive + random).
//! Part 2/3 (reduced): the real SQLite wallet driven through the repository's test utilities.

use proptest::prelude::*;
use vcore::{catch, vensure, vfail, CaseResult, Ctx, Fail, Obs};
use zcash_client_backend::data_api::scanning::{spanning_tree::SpanningTree, ScanPriority, ScanRange};
use zcash_protocol::consensus::BlockHeight;

use ScanPriority::*;

// =============================================================================================
// Part 1 — SpanningTree vs pointwise reference
// =============================================================================================

const PRIOS: [ScanPriority; 7] = [Ignored, Scanned, Historic, OpenAdjacent, FoundNote, ChainTip, Verify];
/// Reduced set for the thorough triple enumeration.
const PRIOS5: [ScanPriority; 5] = [Ignored, Scanned, Historic, ChainTip, Verify];

const MAXM: usize = 16;

#[derive(Clone, Copy, Debug, PartialEq, Eq)]
struct Ins {
    s: u8,
    e: u8,
    p: ScanPriority,
    force: bool,
}

#[derive(Clone, Debug)]
struct TreeCase {
    base: u32,
    leaf: Ins, // `force` unused
    ins: Vec<Ins>,
}

/// The documented dominance rule, pointwise (doc comment of `dominance` in spanning_tree.rs and the
/// property statement): equal => same; inserted in {Verify, Scanned} => inserted; current = Scanned
/// and not forced => Scanned; otherwise the higher priority wins.
fn dom(cur: ScanPriority, ins: ScanPriority, force: bool) -> ScanPriority {
    if cur == ins {
        cur
    } else if matches!(ins, Verify | Scanned) {
        ins
    } else if cur == Scanned && !force {
        Scanned
    } else {
        std::cmp::max(cur, ins)
    }
}

/// Reference: span [lo, hi) plus a priority for every height in it.
#[derive(Clone, Debug)]
struct RefMap {
    lo: u8,
    hi: u8,
    map: [Option<ScanPriority>; MAXM],
    // classification
    sticky: bool,
    forced_over_scanned: bool,
    override_vs: bool,
    gap_filled: bool,
    raised: bool,
}

impl RefMap {
    fn leaf(l: &Ins) -> Self {
        let mut map = [None; MAXM];
        for h in l.s..l.e {
            map[h as usize] = Some(l.p);
        }
        RefMap { lo: l.s, hi: l.e, map, sticky: false, forced_over_scanned: false, override_vs: false, gap_filled: false, raised: false }
    }
    fn insert(&mut self, i: &Ins) {
        let (olo, ohi) = (self.lo, self.hi);
        let nlo = olo.min(i.s);
        let nhi = ohi.max(i.e);
        for h in nlo..nhi {
            let inside_old = h >= olo && h < ohi;
            let inside_ins = h >= i.s && h < i.e;
            let cur = self.map[h as usize];
            let new = match (inside_old, inside_ins) {
                (true, true) => {
                    let c = cur.expect("old span is fully mapped");
                    let d = dom(c, i.p, i.force);
                    if c == Scanned && d == Scanned && i.p > Scanned && !i.force {
                        self.sticky = true;
                    }
                    if c == Scanned && d != Scanned && i.force && i.p != Verify {
                        self.forced_over_scanned = true;
                    }
                    if c != i.p && matches!(i.p, Verify | Scanned) && c > i.p {
                        self.override_vs = true;
                    }
                    if d == i.p && i.p > c {
                        self.raised = true;
                    }
                    d
                }
                (true, false) => cur.expect("old span is fully mapped"),
                (false, true) => i.p,
                (false, false) => {
                    self.gap_filled = true;
                    Historic
                }
            };
            self.map[h as usize] = Some(new);
        }
        self.lo = nlo;
        self.hi = nhi;
    }
}

fn mk_range(base: u32, i: &Ins) -> ScanRange {
    ScanRange::from_parts(BlockHeight::from(base + i.s as u32)..BlockHeight::from(base + i.e as u32), i.p)
}

fn panic_sig(prefix: &str, p: &str) -> String {
    let payload = p.rsplit_once(" @ ").map(|(a, _)| a).unwrap_or(p);
    let mut slug = String::new();
    for c in payload.chars().take(48) {
        if c.is_ascii_alphanumeric() {
            slug.push(c.to_ascii_lowercase());
        } else if !slug.ends_with('-') {
            slug.push('-');
        }
    }
    format!("{prefix}:{}", slug.trim_matches('-'))
}

/// The oracle on `into_vec()` for a given reference state.
fn check_vec(base: u32, v: &[ScanRange], r: &RefMap, what: &str) -> Result<(), Fail> {
    if r.lo == r.hi {
        vensure!(v.is_empty(), "vec-nonempty-for-empty-span", "{what}: span is empty at {} but into_vec = {v:?}", r.lo);
        return Ok(());
    }
    vensure!(!v.is_empty(), "vec-empty-for-nonempty-span", "{what}: span {}..{} but into_vec is empty", r.lo, r.hi);
    let mut prev_end: Option<u32> = None;
    let mut prev_prio: Option<ScanPriority> = None;
    for e in v {
        let (s, t) = (u32::from(e.block_range().start), u32::from(e.block_range().end));
        vensure!(s < t, "vec-empty-entry", "{what}: empty or inverted entry {e} in {v:?}");
        if let Some(pe) = prev_end {
            vensure!(s >= pe, "vec-overlap-or-unsorted", "{what}: entry {e} starts before the previous end {pe}: {v:?}");
            vensure!(s == pe, "vec-gap", "{what}: gap {pe}..{s} in {v:?}");
            vensure!(prev_prio != Some(e.priority()), "vec-adjacent-equal-unmerged", "{what}: adjacent entries of equal priority at {s}: {v:?}");
        }
        prev_end = Some(t);
        prev_prio = Some(e.priority());
    }
    let first = u32::from(v[0].block_range().start);
    let last = prev_end.unwrap();
    vensure!(
        first == base + r.lo as u32 && last == base + r.hi as u32,
        "vec-span-mismatch",
        "{what}: into_vec covers {first}..{last}, reference hull is {}..{}: {v:?}",
        base + r.lo as u32,
        base + r.hi as u32
    );
    for e in v {
        let (s, t) = (u32::from(e.block_range().start), u32::from(e.block_range().end));
        for h in s..t {
            let want = r.map[(h - base) as usize].expect("inside hull");
            vensure!(
                e.priority() == want,
                "pointwise-priority-mismatch",
                "{what}: height {h} has {:?}, dominance rule gives {:?}; into_vec = {v:?}",
                e.priority(),
                want
            );
        }
    }
    Ok(())
}

fn overlap_diff(a: &Ins, b: &Ins) -> bool {
    a.p != b.p && a.s.max(b.s) < a.e.min(b.e)
}

fn check_tree_case(c: &TreeCase, every_prefix: bool) -> CaseResult {
    let mut r = RefMap::leaf(&c.leaf);
    let mut tree = SpanningTree::Leaf(mk_range(c.base, &c.leaf));
    let n = c.ins.len();
    for (k, i) in c.ins.iter().enumerate() {
        let rng = mk_range(c.base, i);
        tree = match catch(move || tree.insert(rng, i.force)) {
            Ok(t) => t,
            Err(p) => {
                // The signature says whether an EMPTY range had been put into the tree before the panicking
                // insertion: that is the precondition of the one known panic, and a panic without it must
                // never be mistaken for it.
                let empty_before = c.leaf.s == c.leaf.e || c.ins[..k].iter().any(|j| j.s == j.e);
                let sig = format!("{}{}", panic_sig("insert-panic", &p), if empty_before { "+after-empty-range" } else { "" });
                vfail!(sig, "SpanningTree::insert panicked at insertion #{k} of {c:?}: {p}")
            }
        };
        r.insert(i);
        if every_prefix && k + 1 < n {
            let t2 = tree.clone();
            let v = match catch(move || t2.into_vec()) {
                Ok(v) => v,
                Err(p) => vfail!(panic_sig("into-vec-panic", &p), "into_vec panicked after insertion #{k} of {c:?}: {p}"),
            };
            check_vec(c.base, &v, &r, &format!("after insertion #{k} of {c:?}"))?;
        }
    }
    let v = match catch(move || tree.into_vec()) {
        Ok(v) => v,
        Err(p) => vfail!(panic_sig("into-vec-panic", &p), "into_vec panicked for {c:?}: {p}"),
    };
    check_vec(c.base, &v, &r, &format!("final state of {c:?}"))?;

    // non-trivial: >= 2 insertions (the leaf counts as the first) overlap with different priorities
    let mut all: Vec<&Ins> = Vec::with_capacity(n + 1);
    all.push(&c.leaf);
    all.extend(c.ins.iter());
    let mut nt = false;
    'o: for a in 0..all.len() {
        for b in a + 1..all.len() {
            if overlap_diff(all[a], all[b]) {
                nt = true;
                break 'o;
            }
        }
    }
    let has_empty = all.iter().any(|i| i.s == i.e);
    let mut key_bytes: Vec<u8> = Vec::with_capacity(4 + 4 * all.len());
    key_bytes.extend_from_slice(&c.base.to_le_bytes());
    for i in &all {
        key_bytes.extend_from_slice(&[i.s, i.e, i.p as u8, i.force as u8]);
    }
    Ok(Obs::new(nt)
        .key(vcore::hash64(&key_bytes))
        .label_if(has_empty, "has-empty-range")
        .label_if(r.sticky, "scanned-sticky")
        .label_if(r.forced_over_scanned, "force-overrode-scanned")
        .label_if(r.override_vs, "verify-or-scanned-lowered")
        .label_if(r.raised, "higher-priority-won")
        .label_if(r.gap_filled, "gap-became-historic")
        .label_if(v.len() >= 3, "result-3plus-entries")
        .count("result-entries", v.len() as u64))
}

/// All ranges [s, e) with 0 <= s <= e <= m, the m+1 empty ones included.
fn all_ranges(m: u8) -> Vec<(u8, u8)> {
    let mut v = vec![];
    for s in 0..=m {
        for e in s..=m {
            v.push((s, e));
        }
    }
    v
}

struct EnumSpace {
    leaves: Vec<Ins>,
    inss: Vec<Ins>,
    k: u32,
}

impl EnumSpace {
    fn new(m: u8, prios: &[ScanPriority], k: u32, include_empty: bool) -> Self {
        let ranges: Vec<(u8, u8)> = all_ranges(m).into_iter().filter(|(s, e)| include_empty || s < e).collect();
        let mut leaves = vec![];
        let mut inss = vec![];
        for &(s, e) in &ranges {
            for &p in prios {
                leaves.push(Ins { s, e, p, force: false });
                for force in [false, true] {
                    inss.push(Ins { s, e, p, force });
                }
            }
        }
        EnumSpace { leaves, inss, k }
    }
    fn size(&self) -> u64 {
        (self.leaves.len() as u64) * (self.inss.len() as u64).pow(self.k)
    }
    fn case(&self, mut i: u64) -> TreeCase {
        let ni = self.inss.len() as u64;
        let mut ins = Vec::with_capacity(self.k as usize);
        for _ in 0..self.k {
            ins.push(self.inss[(i % ni) as usize]);
            i /= ni;
        }
        ins.reverse();
        TreeCase { base: 0, leaf: self.leaves[i as usize], ins }
    }
}

/// Mostly non-empty ranges; about one insertion in 16 is empty (empty ranges are a supported input, but
/// sequences that run into the known empty-range panic are cut short, so they must not dominate).
fn arb_ins(m: u8) -> impl Strategy<Value = Ins> {
    (0..=m, 0..=m, 0usize..7, any::<bool>(), 0u8..16).prop_map(move |(a, b, p, force, esel)| {
        let (mut s, mut e) = (a.min(b), a.max(b));
        if esel == 0 {
            e = s;
        } else if s == e {
            if e < m {
                e += 1;
            } else {
                s -= 1;
            }
        }
        Ins { s, e, p: PRIOS[p], force }
    })
}

fn arb_tree_case() -> impl Strategy<Value = TreeCase> {
    (1u8..=12, prop_oneof![Just(0u32), Just(1u32), Just(419_200u32), Just(u32::MAX - 12)]).prop_flat_map(|(m, base)| {
        (arb_ins(m), proptest::collection::vec(arb_ins(m), 3..=10)).prop_map(move |(leaf, ins)| TreeCase { base, leaf, ins })
    })
}

/// Hand-picked boundary sequences kept forever: the examples of the repository's own test module
/// (as documentation of intended behaviour) plus shapes with empty ranges.
fn regression_cases() -> Vec<TreeCase> {
    fn i(s: u8, e: u8, p: ScanPriority, force: bool) -> Ins {
        Ins { s, e, p, force }
    }
    let mk = |v: Vec<Ins>| TreeCase { base: 0, leaf: v[0], ins: v[1..].to_vec() };
    vec![
        mk(vec![i(0, 3, Historic, false), i(3, 6, Scanned, false), i(6, 8, ChainTip, false), i(8, 10, ChainTip, false)]),
        mk(vec![i(0, 3, Historic, false), i(2, 5, Scanned, false), i(6, 8, ChainTip, false), i(7, 10, Scanned, false)]),
        mk(vec![i(0, 3, Historic, false), i(3, 6, Scanned, false), i(6, 6, FoundNote, false), i(6, 8, Scanned, false), i(8, 10, ChainTip, false)]),
        mk(vec![i(0, 3, Historic, false), i(3, 4, Verify, false), i(6, 8, ChainTip, false)]),
        mk(vec![i(6, 8, Scanned, false), i(10, 12, ChainTip, false), i(3, 6, Historic, false)]),
        mk(vec![i(0, 3, Verify, false), i(2, 8, Scanned, false), i(6, 10, Verify, false)]),
        mk(vec![i(0, 3, Scanned, false), i(2, 8, Historic, false), i(6, 10, Scanned, false)]),
        mk(vec![i(0, 3, ChainTip, false), i(3, 5, Scanned, false), i(5, 7, ChainTip, false), i(0, 7, ChainTip, false)]),
        mk(vec![i(0, 3, Historic, false), i(3, 5, Scanned, false), i(5, 7, ChainTip, false), i(7, 10, Scanned, false), i(4, 9, OpenAdjacent, true), i(2, 5, Ignored, true)]),
        // update_chain_tip's shape: shard entry, then a zero-length Verify above max_scanned
        mk(vec![i(0, 4, Scanned, false), i(8, 12, ChainTip, false), i(4, 4, Verify, false)]),
        // empty leaf, then growth on either side
        mk(vec![i(3, 3, FoundNote, false), i(5, 7, ChainTip, false), i(0, 1, Scanned, false)]),
        // empty range inserted at the start of a leaf, then a range that starts at the same height
        mk(vec![i(5, 10, Historic, false), i(5, 5, ChainTip, false), i(5, 12, Scanned, false)]),
    ]
}

fn part1(ctx: &std::sync::Arc<Ctx>) {
    let tier = ctx.tier;
    {
        let cases = regression_cases();
        let c2 = cases.clone();
        ctx.run_enum("tree-regression", cases.len() as u64, true, move |i| check_tree_case(&cases[i as usize], true), move |i| format!("{:?}", c2[i as usize]));
    }
    {
        let sp = std::sync::Arc::new(EnumSpace::new(8, &PRIOS, 1, true));
        let n = sp.size();
        ctx.extra("tree_exhaustive_m8_single_count", vcore::serde_json::json!(n));
        let (a, b) = (sp.clone(), sp.clone());
        ctx.run_enum("tree-exhaustive-m8-single", n, true, move |i| check_tree_case(&a.case(i), false), move |i| format!("{:?}", b.case(i)));
    }
    {
        let sp = std::sync::Arc::new(EnumSpace::new(5, &PRIOS, 2, true));
        let n = sp.size();
        ctx.extra("tree_exhaustive_m5_pairs_count", vcore::serde_json::json!(n));
        let (a, b) = (sp.clone(), sp.clone());
        ctx.run_enum("tree-exhaustive-m5-pairs", n, true, move |i| check_tree_case(&a.case(i), false), move |i| format!("{:?}", b.case(i)));
    }
    {
        // non-empty ranges only: triples with empty ranges are in the thorough tier (and pairs with empty
        // ranges are enumerated above); this keeps deeper tree shapes in the quick tier at low cost
        let sp = std::sync::Arc::new(EnumSpace::new(3, &PRIOS, 3, false));
        let n = sp.size();
        ctx.extra("tree_exhaustive_m3_triples_nonempty_count", vcore::serde_json::json!(n));
        let (a, b) = (sp.clone(), sp.clone());
        ctx.run_enum("tree-exhaustive-m3-triples-nonempty", n, true, move |i| check_tree_case(&a.case(i), false), move |i| format!("{:?}", b.case(i)));
    }
    if tier == vcore::Tier::Thorough {
        let sp = std::sync::Arc::new(EnumSpace::new(6, &PRIOS5, 3, true));
        let n = sp.size();
        ctx.extra("tree_exhaustive_m6_triples_reduced_count", vcore::serde_json::json!(n));
        let (a, b) = (sp.clone(), sp.clone());
        ctx.run_enum("tree-exhaustive-m6-triples-reduced", n, true, move |i| check_tree_case(&a.case(i), false), move |i| format!("{:?}", b.case(i)));
    }
    ctx.run_prop("tree-random-sequences", arb_tree_case, tier.pick(4_000_000, 100_000_000), |c| check_tree_case(c, true));
    ctx.require_label_fraction("tree-random-sequences", "scanned-sticky", 0.05);
    ctx.require_label_fraction("tree-random-sequences", "force-overrode-scanned", 0.05);
    ctx.require_label_fraction("tree-random-sequences", "gap-became-historic", 0.05);
    ctx.require_label_fraction("tree-random-sequences", "has-empty-range", 0.05);
}

// =============================================================================================
// Part 2/3 (reduced) — the SQLite scan queue and the documented client loop
// =============================================================================================

mod wallet {
    use std::collections::{BTreeMap, BTreeSet};
    use std::num::NonZeroU8;

    use incrementalmerkletree::frontier::Frontier;

    use proptest::prelude::*;
    use vcore::{catch, vensure, vfail, CaseResult, Fail, Obs};
    use zcash_client_backend::data_api::{
        scanning::{ScanPriority, ScanRange},
        chain::{ChainState, CommitmentTreeRoot},
        testing::{AddressType, InitialChainState, TestBuilder, TestState},
        WalletRead, WalletWrite,
    };
    use zcash_client_sqlite::{
        error::SqliteClientError,
        testing::{
            db::{TestDb, TestDbFactory},
            BlockCache,
        },
    };
    use zcash_primitives::block::BlockHash;
    use zcash_protocol::{
        consensus::{BlockHeight, NetworkUpgrade, Parameters},
        local_consensus::LocalNetwork,
        value::Zatoshis,
    };

    use super::dom;
    use ScanPriority::*;

    type St = TestState<BlockCache, TestDb, LocalNetwork>;

    #[derive(Clone, Debug)]
    pub enum Op {
        /// Mine `k` blocks; block `note_at` (if any) carries a Sapling note for the wallet, the rest are
        /// empty. `tip`: tell the wallet about the new tip afterwards.
        Gen { k: u8, note_at: Option<u8>, tip: bool },
        /// `update_chain_tip(latest mined block)`.
        Tip,
        /// Scan `chunk` blocks from the start or the end of the first suggested range.
        Scan { from_end: bool, chunk: u8 },
        /// `truncate_to_height(base - depth)` (base = chain top, or the highest scanned block), then mine
        /// `regrow` new blocks on the retained chain and update the tip.
        Rewind { rel_to_scanned: bool, depth: u8, regrow: u8, note_at: Option<u8> },
        /// Mine empty blocks until the chain top is `max scanned + PRUNING_DEPTH(100) + delta`, then update
        /// the tip: around delta = 0 `update_chain_tip` switches between a `ChainTip` range, a zero-length
        /// `Verify` range and a non-empty `Verify` range (sharded configuration).
        GenFar { delta: i8 },
        /// `queue_rescans(ranges, priority)` (a forced rescan, as issued after `check_witnesses`): 1-4 non-empty
        /// ranges inside [birthday, tip + 1), in ANY order and possibly overlapping; `prio` indexes
        /// [Historic, OpenAdjacent, FoundNote, ChainTip, Verify].
        Rescan { ranges: Vec<(u32, u8)>, prio: u8 },
    }

    #[derive(Clone, Debug)]
    pub struct History {
        /// false: wallet from Sapling activation without subtree roots (linear sync, `Historic` ranges).
        /// true: wallet with a completed first shard and a current birthday (`ChainTip`/`Verify` ranges).
        pub sharded: bool,
        pub ops: Vec<Op>,
        /// (from_end, chunk) decisions for the final client loop, cycled.
        pub final_plan: Vec<(bool, u8)>,
    }

    /// Histories are generated as rounds (mine -> tip -> some scan steps -> maybe a rewind -> more scan
    /// steps) so that most of them actually scan, find notes and rewind scanned blocks; a stray `Tip` is
    /// sprinkled in. The flattened op list is what the oracle executes.
    pub fn arb_history(max_rounds: usize, max_chunk: u8) -> impl Strategy<Value = History> {
        let note = || proptest::option::weighted(0.6, 0u8..8);
        let scan = move || (any::<bool>(), 1u8..=max_chunk).prop_map(|(from_end, chunk)| Op::Scan { from_end, chunk });
        let gen = (1u8..=8, note(), proptest::bool::weighted(0.85)).prop_map(|(k, n, tip)| Op::Gen { k, note_at: n.map(|x| x.min(k - 1)), tip });
        let rew = (any::<bool>(), 0u8..=4, 0u8..=5, note()).prop_map(|(rel_to_scanned, depth, regrow, n)| Op::Rewind {
            rel_to_scanned,
            depth,
            regrow,
            note_at: if regrow == 0 { None } else { n.map(|x| x.min(regrow - 1)) },
        });
        let resc = (proptest::collection::vec((any::<u32>(), 1u8..=6), 1..=4), 0u8..5).prop_map(|(ranges, prio)| Op::Rescan { ranges, prio });
        let round = (
            gen,
            proptest::bool::weighted(0.15),
            proptest::collection::vec(scan(), 0..=4),
            proptest::option::weighted(0.5, rew),
            proptest::collection::vec(scan(), 0..=2),
            proptest::option::weighted(0.35, (resc, proptest::collection::vec(scan(), 0..=2))),
        )
            .prop_map(|(g, stray_tip, scans, rew, post, resc)| {
                let mut v = vec![g];
                if stray_tip {
                    v.push(Op::Tip);
                }
                v.extend(scans);
                if let Some(r) = rew {
                    v.push(r);
                    v.extend(post);
                }
                if let Some((r, after)) = resc {
                    v.push(r);
                    v.extend(after);
                }
                v
            });
        let far = proptest::option::weighted(
            0.5,
            (any::<u32>(), prop_oneof![4 => Just(0i8), 2 => Just(-1i8), 2 => Just(1i8), 1 => Just(-20i8), 3 => 2i8..=25]),
        );
        (
            any::<bool>(),
            proptest::collection::vec(round, 1..=max_rounds),
            far,
            proptest::collection::vec(scan(), 0..=3),
            proptest::collection::vec((any::<bool>(), 1u8..=3), 1..=5),
        )
            .prop_map(|(sharded, mut rounds, far, after_far, final_plan)| {
                if let Some((sel, delta)) = far {
                    // after the scans of a round, so that there is a max-scanned height to be far from
                    let r = vcore::pick_index(sel, rounds.len());
                    rounds[r].push(Op::GenFar { delta });
                    rounds[r].extend(after_far);
                }
                History { sharded, ops: rounds.into_iter().flatten().collect(), final_plan }
            })
    }

    #[derive(Clone, Debug, PartialEq, Eq)]
    struct Row {
        s: u32,
        e: u32,
        p: ScanPriority,
    }

    /// `scan_queue.priority` codes (schema of the anchored state); cross-checked against
    /// `suggest_scan_ranges` for every suggested row.
    fn parse_code(c: i64) -> Option<ScanPriority> {
        Some(match c {
            0 => Ignored,
            10 => Scanned,
            20 => Historic,
            30 => OpenAdjacent,
            40 => FoundNote,
            50 => ChainTip,
            60 => Verify,
            _ => return None,
        })
    }

    fn read_rows(st: &St) -> Result<Vec<Row>, Fail> {
        let conn = st.wallet().conn();
        let mut stmt = conn
            .prepare("SELECT block_range_start, block_range_end, priority FROM scan_queue ORDER BY block_range_start, block_range_end")
            .map_err(|e| Fail::new("harness-sql", format!("prepare: {e}")))?;
        let rows = stmt
            .query_map([], |r| Ok((r.get::<_, i64>(0)?, r.get::<_, i64>(1)?, r.get::<_, i64>(2)?)))
            .map_err(|e| Fail::new("harness-sql", format!("query: {e}")))?;
        let mut out = vec![];
        for r in rows {
            let (s, e, c) = r.map_err(|e| Fail::new("harness-sql", format!("row: {e}")))?;
            let p = match parse_code(c) {
                Some(p) => p,
                None => vfail!("queue-unknown-priority-code", "scan_queue row ({s},{e}) has unknown priority code {c}"),
            };
            vensure!(s >= 0 && e >= 0 && s <= u32::MAX as i64 && e <= u32::MAX as i64, "queue-row-out-of-u32", "row ({s},{e},{c})");
            out.push(Row { s: s as u32, e: e as u32, p });
        }
        Ok(out)
    }

    fn blocks_heights(st: &St) -> Result<BTreeSet<u32>, Fail> {
        let conn = st.wallet().conn();
        let mut stmt = conn.prepare("SELECT height FROM blocks ORDER BY height").map_err(|e| Fail::new("harness-sql", format!("prepare: {e}")))?;
        let rows = stmt.query_map([], |r| r.get::<_, u32>(0)).map_err(|e| Fail::new("harness-sql", format!("query: {e}")))?;
        let mut out = BTreeSet::new();
        for r in rows {
            out.insert(r.map_err(|e| Fail::new("harness-sql", format!("row: {e}")))?);
        }
        Ok(out)
    }

    /// The partition invariant on the rows of `scan_queue`.
    fn check_partition(rows: &[Row], what: &str) -> Result<(), Fail> {
        let mut prev: Option<&Row> = None;
        for r in rows {
            vensure!(r.s < r.e, "queue-empty-row", "{what}: empty or inverted row {r:?} in {rows:?}");
            if let Some(p) = prev {
                vensure!(r.s >= p.e, "queue-overlap", "{what}: rows {p:?} and {r:?} overlap: {rows:?}");
                vensure!(r.s == p.e, "queue-gap", "{what}: gap between {p:?} and {r:?}: {rows:?}");
                vensure!(r.p != p.p, "queue-adjacent-equal-unmerged", "{what}: adjacent rows of equal priority {p:?} {r:?}: {rows:?}");
            }
            prev = Some(r);
        }
        Ok(())
    }

    fn pointwise(rows: &[Row]) -> BTreeMap<u32, ScanPriority> {
        let mut m = BTreeMap::new();
        for r in rows {
            for h in r.s..r.e {
                m.insert(h, r.p);
            }
        }
        m
    }

    struct Model {
        birthday: u32,
        chain_top: Option<u32>,
        wallet_tip: Option<u32>,
        scanned: BTreeSet<u32>,
        /// heights scanned since the last tip update / rewind
        since_event: BTreeSet<u32>,
        generated_total: u64,
        reopened_total: u64,
        scan_steps: u64,
        // classification
        rewinds_effective: u32,
        rewinds_rejected: u32,
        foundnote_extensions: u32,
        scans_from_end: u32,
        notes_mined: u32,
        tips_at_max_scanned: u32,
        far_blocks: u32,
        saw_verify: bool,
        saw_chaintip: bool,
        saw_foundnote: bool,
        zero_len_verify_tips: u32,
        sharded: bool,
        /// some earlier rewind removed scanned blocks
        rewound_scanned: bool,
        rescans: u32,
        rescans_multi_unsorted: u32,
        rescans_reopened_scanned: u32,
    }

    impl Model {
        fn fully_scanned(&self) -> Option<u32> {
            let mut h = self.birthday;
            if !self.scanned.contains(&h) {
                return None;
            }
            while self.scanned.contains(&(h + 1)) {
                h += 1;
            }
            Some(h)
        }
    }

    /// Invariants that must hold after every operation.
    fn check_state(st: &St, m: &mut Model, what: &str) -> Result<(Vec<Row>, Vec<ScanRange>), Fail> {
        let rows = read_rows(st)?;
        check_partition(&rows, what)?;
        let map = pointwise(&rows);

        // suggest_scan_ranges vs the rows
        let sugg = match catch(|| st.wallet().suggest_scan_ranges()) {
            Ok(Ok(s)) => s,
            Ok(Err(e)) => vfail!("suggest-error", "{what}: suggest_scan_ranges failed: {e:?}"),
            Err(p) => vfail!("suggest-panic", "{what}: suggest_scan_ranges panicked: {p}"),
        };
        let mut prev_p: Option<ScanPriority> = None;
        let mut seen: BTreeSet<(u32, u32)> = BTreeSet::new();
        for r in &sugg {
            let (s, e) = (u32::from(r.block_range().start), u32::from(r.block_range().end));
            vensure!(s < e, "suggest-empty-range", "{what}: suggested range {r} is empty; all: {sugg:?}");
            vensure!(seen.insert((s, e)), "suggest-duplicate", "{what}: {r} suggested twice: {sugg:?}");
            vensure!(r.priority() > Scanned, "suggest-scanned-or-ignored", "{what}: {r} suggested although its priority says there is nothing to scan");
            vensure!(
                rows.iter().any(|w| w.s == s && w.e == e && w.p == r.priority()),
                "suggest-not-a-queue-row",
                "{what}: suggested {r} is not a row of scan_queue {rows:?}"
            );
            vensure!(s >= m.birthday, "suggest-below-birthday", "{what}: suggested {r} starts below the wallet birthday {}", m.birthday);
            match m.wallet_tip {
                Some(t) => vensure!(e <= t + 1, "suggest-above-tip", "{what}: suggested {r} ends above tip+1 = {}", t + 1),
                None => vfail!("suggest-without-tip", "{what}: {r} suggested although the wallet was never told a chain tip"),
            }
            if let Some(pp) = prev_p {
                vensure!(pp >= r.priority(), "suggest-order", "{what}: suggestions not in descending priority: {sugg:?}");
            }
            prev_p = Some(r.priority());
            match r.priority() {
                Verify => m.saw_verify = true,
                ChainTip => m.saw_chaintip = true,
                FoundNote => m.saw_foundnote = true,
                _ => {}
            }
        }
        for w in &rows {
            if w.p >= Historic {
                vensure!(seen.contains(&(w.s, w.e)), "suggest-missing-row", "{what}: queue row {w:?} needs scanning but is not suggested: {sugg:?}");
            }
        }

        // Scanned in the queue <=> scanned by the client (on the current branch)
        for (h, p) in &map {
            if *h < m.birthday {
                continue;
            }
            let scanned = m.scanned.contains(h);
            vensure!(!(scanned && *p != Scanned), "scanned-block-not-marked-scanned", "{what}: height {h} was scanned but the queue says {p:?}: {rows:?}");
            vensure!(!(!scanned && *p == Scanned), "unscanned-block-marked-scanned", "{what}: height {h} was never scanned on this branch but the queue says Scanned: {rows:?}");
        }
        for h in &m.scanned {
            vensure!(map.contains_key(h), "scanned-block-outside-queue", "{what}: scanned height {h} is not covered by the queue {rows:?}");
        }

        // block_fully_scanned = greatest h with birthday..=h all scanned
        let bfs = match catch(|| st.wallet().block_fully_scanned()) {
            Ok(Ok(b)) => b.map(|b| u32::from(b.block_height())),
            Ok(Err(e)) => vfail!("block-fully-scanned-error", "{what}: block_fully_scanned failed: {e:?}"),
            Err(p) => vfail!("block-fully-scanned-panic", "{what}: block_fully_scanned panicked: {p}"),
        };
        vensure!(bfs == m.fully_scanned(), "block-fully-scanned-mismatch", "{what}: block_fully_scanned = {bfs:?}, model = {:?}; queue {rows:?}", m.fully_scanned());
        Ok((rows, sugg))
    }

    fn mine(st: &mut St, m: &mut Model, k: u8, note_at: Option<u8>) {
        let dfvk = st.test_account_sapling().expect("sapling account").clone();
        for j in 0..k {
            let h = if note_at == Some(j) {
                m.notes_mined += 1;
                st.generate_next_block(&dfvk, AddressType::DefaultExternal, Zatoshis::const_from_u64(60_000)).0
            } else {
                st.generate_empty_block().0
            };
            m.chain_top = Some(u32::from(h));
            m.generated_total += 1;
        }
    }

    fn tip(st: &mut St, m: &mut Model, what: &str) -> Result<(), Fail> {
        let Some(t) = m.chain_top else { return Ok(()) };
        match catch(|| st.wallet_mut().update_chain_tip(BlockHeight::from(t))) {
            Ok(Ok(())) => {}
            Ok(Err(e)) => vfail!("update-chain-tip-error", "{what}: update_chain_tip({t}) failed: {e:?}"),
            Err(p) => vfail!(super::panic_sig("update-chain-tip-panic", &p), "{what}: update_chain_tip({t}) panicked: {p}"),
        }
        if m.scanned.iter().next_back() == Some(&t) {
            m.tips_at_max_scanned += 1;
        }
        if m.sharded && m.scanned.iter().next_back().is_some_and(|s| s + 100 == t) {
            m.zero_len_verify_tips += 1;
        }
        m.wallet_tip = Some(t);
        m.since_event.clear();
        Ok(())
    }

    /// "Wallet(PutBlocksCommitmentTree { pool: Sapling, .., error: Insert(Conflict(Address {..})) })"
    /// -> "wallet-putblockscommitmenttree-sapling-insert-conflict" (type names that only carry data skipped).
    fn camel_idents(debug: &str, n: usize) -> String {
        let mut out: Vec<String> = vec![];
        let mut cur = String::new();
        for c in debug.chars().chain(std::iter::once(' ')) {
            if c.is_ascii_alphanumeric() || c == '_' {
                cur.push(c);
            } else {
                if cur.chars().next().is_some_and(|f| f.is_ascii_uppercase())
                    && !matches!(cur.as_str(), "BlockHeight" | "Address" | "Level" | "Position" | "Some" | "None" | "BlockHash" | "TxId")
                    && out.len() < n
                {
                    out.push(cur.to_ascii_lowercase());
                }
                cur.clear();
            }
        }
        out.join("-")
    }

    /// One step of the client loop. Returns false if nothing is suggested.
    fn scan_step(st: &mut St, m: &mut Model, from_end: bool, chunk: u8, what: &str) -> Result<bool, Fail> {
        let (rows, sugg) = check_state(st, m, what)?;
        let Some(first) = sugg.first().cloned() else { return Ok(false) };
        let (s, e) = (u32::from(first.block_range().start), u32::from(first.block_range().end));
        vensure!(
            !(s..e).all(|h| m.since_event.contains(&h)),
            "suggested-again-after-scanned",
            "{what}: {first} is suggested although all of it was scanned since the last tip update/rewind; queue {rows:?}"
        );
        let n = (chunk as u32).min(e - s);
        // `Verify` ranges are scanned from their start (connectivity check), as the documented loop does.
        let from_end = from_end && first.priority() != Verify;
        let from = if from_end { e - n } else { s };
        let before = pointwise(&rows);
        let res = catch(|| st.try_scan_cached_blocks(BlockHeight::from(from), n as usize));
        match res {
            Ok(Ok(_)) => {}
            Ok(Err(err)) => {
                // signature = the error's variant path (+ whether scanned blocks had been rewound before:
                // the precondition of the one known commitment-tree conflict)
                let d = format!("{err:?}");
                let sig = format!("scan-error:{}{}", camel_idents(&d, 6), if m.rewound_scanned { "+after-rewind-of-scanned-blocks" } else { "" });
                vfail!(sig, "{what}: scanning {from}..{} of suggested {first} failed: {d}", from + n)
            }
            Err(p) => vfail!(super::panic_sig("scan-panic", &p), "{what}: scanning {from}..{} of suggested {first} panicked: {p}", from + n),
        }
        m.scan_steps += 1;
        if from_end && n < e - s {
            m.scans_from_end += 1;
        }
        for h in from..from + n {
            m.scanned.insert(h);
            m.since_event.insert(h);
        }
        // "Scanning a range marks exactly that range scanned"
        let rows2 = read_rows(st)?;
        check_partition(&rows2, what)?;
        let after = pointwise(&rows2);
        let mut extended = false;
        for (h, p2) in &after {
            let inside = *h >= from && *h < from + n;
            match before.get(h) {
                _ if inside => vensure!(*p2 == Scanned, "scan-range-not-marked-scanned", "{what}: scanned {from}..{}, height {h} is {p2:?}; queue {rows2:?}", from + n),
                Some(p1) if p1 == p2 => {}
                Some(p1) => {
                    // the only documented side effect: the FoundNote extension, merged by dominance
                    let allowed = *p2 == FoundNote && dom(*p1, FoundNote, false) == FoundNote;
                    vensure!(
                        allowed,
                        "scan-changed-other-heights",
                        "{what}: scanned {from}..{}, but height {h} outside it changed {p1:?} -> {p2:?}; before {rows:?} after {rows2:?}",
                        from + n
                    );
                    extended = true;
                }
                None => {
                    vensure!(
                        matches!(*p2, FoundNote | Historic),
                        "scan-extended-queue-with-wrong-priority",
                        "{what}: scanned {from}..{}, height {h} newly covered with {p2:?}; after {rows2:?}",
                        from + n
                    );
                    extended = true;
                }
            }
        }
        for h in before.keys() {
            vensure!(after.contains_key(h), "scan-dropped-heights", "{what}: scanning {from}..{} removed height {h} from the queue; before {rows:?} after {rows2:?}", from + n);
        }
        if extended {
            m.foundnote_extensions += 1;
        }
        Ok(true)
    }

    fn rewind(st: &mut St, m: &mut Model, rel_to_scanned: bool, depth: u8, regrow: u8, note_at: Option<u8>, what: &str) -> Result<(), Fail> {
        let (Some(top), Some(_)) = (m.chain_top, m.wallet_tip) else { return Ok(()) };
        let base = if rel_to_scanned { m.scanned.iter().next_back().copied().unwrap_or(top) } else { top };
        let req = base.saturating_sub(depth as u32).max(m.birthday);
        let r = catch(|| st.wallet_mut().truncate_to_height(BlockHeight::from(req)));
        let got = match r {
            Ok(Ok(h)) => u32::from(h),
            Ok(Err(SqliteClientError::RequestedRewindInvalid { .. })) => {
                // documented refusal; the wallet is unchanged (transactional)
                m.rewinds_rejected += 1;
                return Ok(());
            }
            Ok(Err(e)) => vfail!("truncate-error", "{what}: truncate_to_height({req}) failed: {e:?}"),
            Err(p) => vfail!(super::panic_sig("truncate-panic", &p), "{what}: truncate_to_height({req}) panicked: {p}"),
        };
        vensure!(got <= req, "truncate-above-requested", "{what}: truncate_to_height({req}) returned {got}");
        // bring the test chain (cache) to the same height; the wallet call inside is a repeat
        if let Err(p) = catch(|| st.truncate_to_height(BlockHeight::from(got))) {
            vfail!("harness-truncate-repeat", "{what}: repeating truncate_to_height({got}) panicked: {p}");
        }
        let removed = m.scanned.split_off(&(got + 1));
        if !removed.is_empty() {
            m.rewinds_effective += 1;
            m.rewound_scanned = true;
        }
        m.reopened_total += removed.len() as u64;
        m.chain_top = Some(got);
        m.wallet_tip = Some(got);
        m.since_event.clear();
        check_state(st, m, &format!("{what} (after truncation to {got})"))?;
        mine(st, m, regrow, note_at);
        tip(st, m, what)?;
        Ok(())
    }

    /// `WalletDb::queue_rescans`: afterwards the queue must still be a partition and every height must carry the
    /// dominance rule (forced) applied to its previous priority once per range that contains it.
    fn rescan(st: &mut St, m: &mut Model, ranges: &[(u32, u8)], prio: u8, what: &str) -> Result<(), Fail> {
        let Some(t) = m.wallet_tip else { return Ok(()) };
        if t < m.birthday {
            return Ok(());
        }
        let prio = [Historic, OpenAdjacent, FoundNote, ChainTip, Verify][prio as usize % 5];
        let span = (t + 1 - m.birthday) as usize;
        let resolved: Vec<(u32, u32)> = ranges
            .iter()
            .map(|(sel, len)| {
                let s = m.birthday + vcore::pick_index(*sel, span) as u32;
                (s, (s + *len as u32).min(t + 1))
            })
            .collect();
        let rows = read_rows(st)?;
        let before = pointwise(&rows);
        let ne = match nonempty::NonEmpty::from_vec(resolved.iter().map(|(s, e)| BlockHeight::from(*s)..BlockHeight::from(*e)).collect()) {
            Some(ne) => ne,
            None => return Ok(()),
        };
        match catch(|| st.wallet_mut().db_mut().queue_rescans(ne, prio)) {
            Ok(Ok(())) => {}
            Ok(Err(e)) => vfail!("queue-rescans-error", "{what}: queue_rescans({resolved:?}, {prio:?}) failed: {e:?}; queue before {rows:?}"),
            Err(p) => vfail!(super::panic_sig("queue-rescans-panic", &p), "{what}: queue_rescans({resolved:?}, {prio:?}) panicked: {p}; queue before {rows:?}"),
        }
        m.rescans += 1;
        if resolved.windows(2).any(|w| w[1].0 < w[0].0) {
            m.rescans_multi_unsorted += 1;
        }
        let rows2 = read_rows(st)?;
        check_partition(&rows2, what)?;
        let after = pointwise(&rows2);
        let mut reopened = 0u64;
        for (h, p1) in &before {
            let mut want = *p1;
            for (s, e) in &resolved {
                if h >= s && h < e {
                    want = dom(want, prio, true);
                }
            }
            let got = after.get(h);
            vensure!(
                got == Some(&want),
                "rescan-pointwise-priority-mismatch",
                "{what}: queue_rescans({resolved:?}, {prio:?}): height {h} was {p1:?}, is {got:?}, the dominance rule (forced) gives {want:?}; before {rows:?} after {rows2:?}"
            );
            if want != Scanned && m.scanned.remove(h) {
                reopened += 1;
            }
            if want != *p1 {
                m.since_event.remove(h);
            }
        }
        for (h, p2) in &after {
            if !before.contains_key(h) {
                let inside = resolved.iter().any(|(s, e)| h >= s && h < e);
                vensure!(
                    (inside && *p2 == prio) || (!inside && *p2 == Historic),
                    "rescan-extended-queue-with-wrong-priority",
                    "{what}: queue_rescans({resolved:?}, {prio:?}): height {h} newly covered with {p2:?}; before {rows:?} after {rows2:?}"
                );
            }
        }
        if reopened > 0 {
            m.rescans_reopened_scanned += 1;
            m.reopened_total += reopened;
        }
        Ok(())
    }

    fn build_linear() -> St {
        TestBuilder::new()
            .with_data_store_factory(TestDbFactory::default())
            .with_block_cache(BlockCache::new())
            .with_account_from_sapling_activation(BlockHash([0; 32]))
            .build()
    }

    const SHARD_END_OFFSET: u32 = 50;
    const BIRTHDAY_OFFSET: u32 = 26;

    /// The set-up of the repository's own `test_with_nu5_birthday_offset`: the first 2^16-leaf shard of the
    /// Sapling and Orchard trees is complete (its root is known to the wallet and ends at
    /// activation + 50), the wallet's birthday is 27 blocks later, 1235 leaves into the second shard.
    fn build_sharded() -> St {
        TestBuilder::new()
            .with_data_store_factory(TestDbFactory::default())
            .with_block_cache(BlockCache::new())
            .with_initial_chain_state(|rng, network| {
                let shard_end = network.activation_height(NetworkUpgrade::Nu5).unwrap() + SHARD_END_OFFSET;
                let tree_size: u64 = (1 << 16) + 1235;
                let (sapling_roots, sapling_tree) = Frontier::random_with_prior_subtree_roots(rng, tree_size, NonZeroU8::new(16).unwrap());
                let (orchard_roots, orchard_tree) = Frontier::random_with_prior_subtree_roots(rng, tree_size, NonZeroU8::new(16).unwrap());
                InitialChainState {
                    chain_state: ChainState::new(shard_end + BIRTHDAY_OFFSET, BlockHash([0; 32]), sapling_tree, orchard_tree, Frontier::empty()),
                    prior_sapling_roots: sapling_roots.into_iter().map(|r| CommitmentTreeRoot::from_parts(shard_end, r)).collect(),
                    prior_orchard_roots: orchard_roots.into_iter().map(|r| CommitmentTreeRoot::from_parts(shard_end, r)).collect(),
                }
            })
            .with_account_having_current_birthday()
            .build()
    }

    /// Fixed histories kept forever.
    pub fn regression_histories() -> Vec<History> {
        let scan1 = Op::Scan { from_end: false, chunk: 1 };
        let gen1 = |note: bool| Op::Gen { k: 1, note_at: note.then_some(0), tip: true };
        vec![
            // in-order, block-by-block sync; 3-block reorg below two scanned note blocks; block-by-block
            // re-sync of the new fork (the stale-annotation commitment tree conflict, see known findings)
            History {
                sharded: false,
                ops: vec![
                    gen1(true),
                    scan1.clone(),
                    gen1(true),
                    scan1.clone(),
                    gen1(true),
                    scan1.clone(),
                    gen1(false),
                    scan1.clone(),
                    Op::Rewind { rel_to_scanned: true, depth: 3, regrow: 3, note_at: Some(0) },
                ],
                final_plan: vec![(false, 1)],
            },
            // a note found while scanning the END of a range: FoundNote extension down to the birthday
            History {
                sharded: false,
                ops: vec![Op::Gen { k: 6, note_at: Some(5), tip: true }, Op::Scan { from_end: true, chunk: 1 }, Op::Scan { from_end: true, chunk: 2 }],
                final_plan: vec![(true, 2), (false, 1)],
            },
            // sharded wallet: tip exactly PRUNING_DEPTH above max-scanned (zero-length Verify range), one
            // block further (1-block Verify range), then a rewind into the verified region
            History {
                sharded: true,
                ops: vec![
                    Op::Gen { k: 3, note_at: Some(1), tip: true },
                    Op::Scan { from_end: false, chunk: 3 },
                    Op::GenFar { delta: 0 },
                    gen1(false),
                    Op::Scan { from_end: false, chunk: 6 },
                    Op::Scan { from_end: true, chunk: 6 },
                    Op::Rewind { rel_to_scanned: true, depth: 1, regrow: 2, note_at: None },
                ],
                final_plan: vec![(true, 3), (false, 2)],
            },
        ]
    }

    pub fn check_history(hist: &History, max_height: u32) -> CaseResult {
        let mut st: St = if hist.sharded { build_sharded() } else { build_linear() };
        let sap = u32::from(st.sapling_activation_height());
        let birthday = if hist.sharded { sap + SHARD_END_OFFSET + BIRTHDAY_OFFSET + 1 } else { sap };
        match st.wallet().get_wallet_birthday() {
            Ok(Some(b)) if u32::from(b) == birthday => {}
            other => vfail!("harness-birthday", "unexpected wallet birthday {other:?}, expected {birthday}"),
        }
        let mut m = Model {
            birthday,
            chain_top: None,
            wallet_tip: None,
            scanned: BTreeSet::new(),
            since_event: BTreeSet::new(),
            generated_total: 0,
            reopened_total: 0,
            scan_steps: 0,
            rewinds_effective: 0,
            rewinds_rejected: 0,
            foundnote_extensions: 0,
            scans_from_end: 0,
            notes_mined: 0,
            tips_at_max_scanned: 0,
            far_blocks: 0,
            saw_verify: false,
            saw_chaintip: false,
            saw_foundnote: false,
            zero_len_verify_tips: 0,
            sharded: hist.sharded,
            rewound_scanned: false,
            rescans: 0,
            rescans_multi_unsorted: 0,
            rescans_reopened_scanned: 0,
        };
        check_state(&st, &mut m, "fresh wallet")?;

        for (i, op) in hist.ops.iter().enumerate() {
            let what = format!("op #{i} {op:?}");
            match op {
                Op::GenFar { delta } => {
                    if let (Some(top), Some(s)) = (m.chain_top, m.scanned.iter().next_back().copied()) {
                        let target = (s as i64 + 100 + *delta as i64) as u32;
                        if target > top && target - top <= 140 {
                            let k = target - top;
                            for _ in 0..k {
                                let h = st.generate_empty_block().0;
                                m.chain_top = Some(u32::from(h));
                            }
                            m.generated_total += k as u64;
                            m.far_blocks += k;
                            tip(&mut st, &mut m, &what)?;
                        }
                    }
                }
                Op::Gen { k, note_at, tip: t } => {
                    let room = (birthday + max_height + m.far_blocks).saturating_sub(m.chain_top.map_or(birthday, |t| t + 1));
                    let k = (*k as u32).min(room) as u8;
                    mine(&mut st, &mut m, k, *note_at);
                    if *t {
                        tip(&mut st, &mut m, &what)?;
                    }
                }
                Op::Tip => tip(&mut st, &mut m, &what)?,
                Op::Scan { from_end, chunk } => {
                    scan_step(&mut st, &mut m, *from_end, *chunk, &what)?;
                }
                Op::Rewind { rel_to_scanned, depth, regrow, note_at } => {
                    let room = (birthday + max_height + m.far_blocks).saturating_sub(m.chain_top.map_or(birthday, |t| t + 1));
                    let regrow = (*regrow as u32).min(room + *depth as u32) as u8;
                    rewind(&mut st, &mut m, *rel_to_scanned, *depth, regrow, *note_at, &what)?;
                }
                Op::Rescan { ranges, prio } => rescan(&mut st, &mut m, ranges, *prio, &what)?,
            }
            check_state(&st, &mut m, &format!("after {what}"))?;
        }

        // Part 3: the documented client loop to completion.
        let mut final_steps = 0u64;
        if let Some(top) = m.chain_top {
            tip(&mut st, &mut m, "final tip update")?;
            check_state(&st, &mut m, "after final tip update")?;
            let unscanned = (birthday..=top).filter(|h| !m.scanned.contains(h)).count() as u64;
            let bound = unscanned + 2;
            loop {
                let (from_end, chunk) = hist.final_plan[(final_steps as usize) % hist.final_plan.len()];
                let chunk = if unscanned > 40 { chunk * 12 } else { chunk };
                let what = format!("final loop step {final_steps}");
                if !scan_step(&mut st, &mut m, from_end, chunk, &what)? {
                    break;
                }
                final_steps += 1;
                vensure!(
                    final_steps <= bound,
                    "sync-loop-exceeds-bound",
                    "client loop still has suggestions after {final_steps} steps; {unscanned} blocks were unscanned at its start (bound {bound})"
                );
            }
            let (rows, _) = check_state(&st, &mut m, "terminal state")?;
            let want = vec![Row { s: birthday, e: top + 1, p: Scanned }];
            let got: Vec<Row> = rows.iter().filter(|r| r.e > birthday).cloned().collect();
            vensure!(got == want, "terminal-queue-not-all-scanned", "nothing left to suggest but the queue is {rows:?}, expected {want:?}");
            let blocks = blocks_heights(&st)?;
            for h in birthday..=top {
                vensure!(blocks.contains(&h), "terminal-block-missing", "sync finished but block {h} (birthday {birthday}, tip {top}) is not in the blocks table");
            }
            vensure!(blocks.iter().next_back() == Some(&top), "terminal-blocks-above-tip", "blocks table reaches {:?}, tip is {top}", blocks.iter().next_back());
            let bfs = st.wallet().block_fully_scanned().ok().flatten().map(|b| u32::from(b.block_height()));
            let bms = st.wallet().block_max_scanned().ok().flatten().map(|b| u32::from(b.block_height()));
            vensure!(bfs == Some(top), "terminal-fully-scanned", "block_fully_scanned = {bfs:?}, tip {top}");
            vensure!(bms == Some(top), "terminal-max-scanned", "block_max_scanned = {bms:?}, tip {top}");
        }
        let total_bound = m.generated_total + m.reopened_total + 2 * (hist.ops.len() as u64 + 1);
        vensure!(m.scan_steps <= total_bound, "scan-steps-exceed-history-bound", "{} scan steps, bound {total_bound}", m.scan_steps);

        let nontrivial = m.rewinds_effective > 0 || m.foundnote_extensions > 0;
        Ok(Obs::new(nontrivial)
            .label_if(m.rewinds_effective > 0, "rewind-reopened-scanned-blocks")
            .label_if(m.rewinds_rejected > 0, "rewind-rejected")
            .label_if(m.foundnote_extensions > 0, "foundnote-extension")
            .label_if(m.scans_from_end > 0, "partial-scan-from-end")
            .label_if(m.notes_mined > 0, "note-mined")
            .label_if(m.tips_at_max_scanned > 0, "tip-update-at-max-scanned")
            .label_if(final_steps >= 3, "final-loop-3plus-steps")
            .label_if(m.chain_top.is_none(), "no-blocks")
            .label_if(m.sharded, "sharded-wallet")
            .label_if(m.saw_verify, "verify-range-suggested")
            .label_if(m.saw_chaintip, "chaintip-range-suggested")
            .label_if(m.saw_foundnote, "foundnote-range-suggested")
            .label_if(m.zero_len_verify_tips > 0, "tip-update-zero-length-verify")
            .label_if(m.far_blocks > 0, "far-tip-jump")
            .label_if(m.rescans > 0, "forced-rescan")
            .label_if(m.rescans_multi_unsorted > 0, "forced-rescan-unsorted-ranges")
            .label_if(m.rescans_reopened_scanned > 0, "forced-rescan-reopened-scanned-blocks")
            .count("scan-steps", m.scan_steps)
            .count("blocks-mined", m.generated_total)
            .count("blocks-reopened", m.reopened_total))
    }
}

fn part23(ctx: &std::sync::Arc<Ctx>) {
    let tier = ctx.tier;
    let max_rounds = tier.pick(4usize, 8usize);
    let max_height = tier.pick(30u32, 60u32);
    {
        let hs = wallet::regression_histories();
        let hs2 = hs.clone();
        ctx.run_enum("wallet-regression", hs.len() as u64, true, move |i| wallet::check_history(&hs[i as usize], 200), move |i| format!("{:?}", hs2[i as usize]));
    }
    ctx.run_prop_with(
        "wallet-histories",
        move || wallet::arb_history(max_rounds, 6),
        tier.pick(1_500, 12_000),
        64,
        move |h| wallet::check_history(h, max_height),
    );
    // generator health (observed on the unchanged tree: ~0.5, ~0.15, ~0.7, ~0.5, ~0.45, ~0.1)
    ctx.require_label_fraction("wallet-histories", "rewind-reopened-scanned-blocks", 0.20);
    ctx.require_label_fraction("wallet-histories", "foundnote-extension", 0.05);
    ctx.require_label_fraction("wallet-histories", "partial-scan-from-end", 0.30);
    ctx.require_label_fraction("wallet-histories", "final-loop-3plus-steps", 0.15);
    ctx.require_label_fraction("wallet-histories", "chaintip-range-suggested", 0.20);
    ctx.require_label_fraction("wallet-histories", "verify-range-suggested", 0.03);
}

fn main() {
    // The bundled SQLite keeps allocation statistics under one global mutex that every connection of
    // the process takes on every malloc/free; with 16 wallet workers that serialises the run. The
    // statistics are not used by anything here, so switch them off before SQLite is initialised.
    let rc = unsafe { rusqlite::ffi::sqlite3_config(rusqlite::ffi::SQLITE_CONFIG_MEMSTATUS, 0 as std::os::raw::c_int) };
    assert_eq!(rc, rusqlite::ffi::SQLITE_OK, "sqlite3_config(MEMSTATUS)");
    let ctx = Ctx::from_args("C15", "exploration");
    ctx.set_rule(
        "Part 1: a case = initial leaf + sequence of (range, priority, force) insertions over endpoints 0..=m, empty ranges \
         included. Exhaustive: m=8 every leaf x every single insertion; m=5 every leaf x every ordered pair; m=3 every ordered triple of \
         non-empty ranges (all priorities); (thorough) m=6 every triple over {Ignored,Scanned,Historic,ChainTip,Verify}. Random: 3-10 insertions, m<=12, into_vec checked after \
         every insertion. Non-trivial = at least two insertions (leaf included) with intersecting ranges and different \
         priorities; distinct = hash of the whole sequence. Part 2/3: a case = history of mine/tip/scan-chunk(start|end)/rewind \
         ops on a fresh SQLite wallet followed by the documented client loop; non-trivial = a rewind that re-opened scanned \
         blocks or a FoundNote extension; distinct = Debug form of the history.",
    );
    ctx.assume("reference map written from the documented dominance rule, not from the implementation's case analysis");
    ctx.assume("Part 2/3 trusts the repository's test utilities (TestBuilder/TestState fake chain, BlockCache) and the scan_queue priority codes 0/10/../60");
    ctx.assume("Part 2/3 wallet has no subtree roots (linear-sync configuration): Verify/ChainTip ranges produced by update_chain_tip are not exercised there, only in Part 1");
    part1(&ctx);
    part23(&ctx);
    ctx.finish();
}

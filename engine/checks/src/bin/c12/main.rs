//! C12 — ZIP 321 payment requests round-trip and only valid requests parse.
//!
//! Oracles: (1) round trip through `to_uri`/`from_uri` plus an independent reference parser that
//! decodes the rendering (amount decimals, base64url memo, percent-encoding) and an exact u128 total;
//! (2) amount string <-> zatoshis against independent decimal arithmetic (structured set exhaustively
//! + random); (3) acceptance == reference validity predicate on grammar-generated URIs with one ZIP 321
//! rule violated at a time (three-valued: ambiguous corners only get the safety direction);
//! (4) memo padding / Memo<->MemoBytes / base64 round trips; (5) no panic on mutated/arbitrary strings.

mod gen;
mod grammar;
mod reference;

use std::collections::{BTreeMap, BTreeSet};
use std::str::FromStr;

use proptest::prelude::*;
use vcore::{catch, hash64, vensure, vensure_eq, vfail, CaseResult, Ctx, Fail, Obs};
use zcash_address::ZcashAddress;
use zcash_protocol::{
    memo::{self, Memo, MemoBytes},
    value::Zatoshis,
};
use zip321::{memo_from_base64, memo_to_base64, Payment, PaymentError, TransactionRequest, Zip321Error};

use gen::*;
use grammar::*;
use reference::*;

const ZADDR: &str = "ztestsapling10yy2ex5dcqkclhc7z7yrnjq2z6feyjad56ptwlfgmy77dmaqqrl9gyhprdx59qgmsnyfska2kez";
const TADDR: &str = "tmEZhbWHTpdKMw5it8YDspUXSMGQyFwovpU";
const RADDR: &str = "zregtestsapling1qqqqqqqqqqqqqqqqqqcguyvaw2vjk4sdyeg0lc970u659lvhqq7t0np6hlup5lusxle7505hlz3";

fn from_uri(uri: &str) -> Result<Result<TransactionRequest, Zip321Error>, Fail> {
    catch(|| TransactionRequest::from_uri(uri)).map_err(|p| Fail::new("from-uri-panic", format!("from_uri({uri:?}) panicked: {p}")))
}

fn to_uri(req: &TransactionRequest) -> Result<String, Fail> {
    catch(|| req.to_uri()).map_err(|p| Fail::new("to-uri-panic", format!("to_uri panicked: {p} on {req:?}")))
}

// ---------------------------------------------------------------------------------------------
// Safety direction: whatever the parser accepted satisfies the rules and re-renders faithfully
// ---------------------------------------------------------------------------------------------

fn safety(uri: &str, req: &TransactionRequest) -> Result<(), Fail> {
    for (i, p) in req.payments() {
        vensure!(*i <= 9999, "accepted-index-above-9999", "{uri:?}: payment index {i}");
        let a = p.recipient_address();
        if p.memo().is_some() {
            vensure!(ref_can_memo(a), "accepted-memo-for-non-memo-recipient", "{uri:?}: payment {i} has a memo for {}", a.encode());
        }
        if let Some(z) = p.amount() {
            vensure!(u64::from(z) <= MAX_MONEY, "accepted-amount-above-max", "{uri:?}: payment {i} amount {z:?}");
            vensure!(!(u64::from(z) == 0 && ref_transparent_only(a)), "accepted-zero-transparent", "{uri:?}: payment {i} zero to {}", a.encode());
        }
        let mut names = BTreeSet::new();
        for (n, _) in p.other_params() {
            vensure!(!n.starts_with("req-"), "accepted-unknown-req-param", "{uri:?}: payment {i} carries {n}");
            vensure!(!KNOWN.contains(&n.as_str()), "accepted-reserved-as-other", "{uri:?}: payment {i} other param {n}");
            vensure!(names.insert(n.clone()), "accepted-duplicate-param", "{uri:?}: payment {i} has {n} twice");
        }
    }
    let uri2 = to_uri(req)?;
    let again = from_uri(&uri2)?;
    match again {
        Ok(r2) => vensure!(&r2 == req, "rerender-differs", "{uri:?} parsed to {req:?}; re-rendered {uri2:?} parses to {r2:?}"),
        Err(e) => vfail!("rerender-rejected", "{uri:?} accepted, but its re-rendering {uri2:?} is rejected: {e:?}"),
    }
    if !req.payments().is_empty() {
        match ref_parse(&uri2, true) {
            Verdict::Valid(r) => vensure!(r == to_rreq(req), "rerender-not-faithful", "re-rendering {uri2:?} decodes (reference) to {r:?}, request is {req:?}"),
            Verdict::Invalid(rule, _) => vfail!("rerender-ungrammatical", "re-rendering {uri2:?} violates ZIP 321 ({rule})"),
            Verdict::Ambiguous(why) => vfail!("rerender-ungrammatical", "re-rendering {uri2:?} is not plainly valid ZIP 321 ({why})"),
        }
    }
    Ok(())
}

struct UriOutcome {
    verdict: &'static str,
    rule: &'static str,
    accepted: bool,
    npay: usize,
}

/// Differential check of one URI string against the reference.
fn check_uri(uri: &str) -> Result<UriOutcome, Fail> {
    let got = from_uri(uri)?;
    let verdict = ref_parse(uri, false);
    let accepted = got.is_ok();
    let npay = got.as_ref().map(|r| r.payments().len()).unwrap_or(0);
    let (v, rule) = match (&verdict, &got) {
        (Verdict::Valid(exp), Ok(req)) => {
            let r = to_rreq(req);
            vensure!(&r == exp, "parse-wrong-value", "{uri:?}: parsed {r:?}, reference {exp:?}");
            safety(uri, req)?;
            ("valid", "")
        }
        (Verdict::Valid(_), Err(e)) => vfail!("rejects-valid-uri", "{uri:?} is valid ZIP 321 but from_uri returned {e:?}"),
        (Verdict::Invalid(rule, _), Ok(req)) => {
            return Err(Fail::new(format!("accepts-invalid:{rule}"), format!("{uri:?} violates ZIP 321 ({rule}) but parsed to {req:?}")))
        }
        (Verdict::Invalid(rule, sem), Err(e)) => {
            if let Some(sem) = sem {
                // otherwise well-formed: the documented error variant and index
                let ok = match (sem, e) {
                    (Sem::Dup(n, i), Zip321Error::DuplicateParameter(p, j)) => &p.name() == n && i == j,
                    (Sem::Missing(i), Zip321Error::RecipientMissing(j)) => i == j,
                    (Sem::Memo(i), Zip321Error::TransparentMemo(j)) => i == j,
                    (Sem::Zero(i), Zip321Error::ZeroValuedTransparentOutput(j)) => i == j,
                    _ => false,
                };
                vensure!(ok, "error-variant", "{uri:?}: the only defect is {sem:?} but the error is {e:?}");
            }
            ("invalid", *rule)
        }
        (Verdict::Ambiguous(why), Ok(req)) => {
            safety(uri, req)?;
            ("ambiguous", *why)
        }
        (Verdict::Ambiguous(why), Err(_)) => ("ambiguous", *why),
    };
    Ok(UriOutcome { verdict: v, rule, accepted, npay })
}

fn uri_obs(uri: &str, o: &UriOutcome, nontrivial: bool) -> Obs {
    Obs::new(nontrivial)
        .key(hash64(uri.as_bytes()))
        .label(match o.verdict {
            "valid" => "ref-valid",
            "invalid" => "ref-invalid",
            _ => "ref-ambiguous",
        })
        .label_if(o.accepted, "accepted")
        .label_if(!o.accepted, "rejected")
        .label_if(o.verdict == "ambiguous", amb_label(o.rule, o.accepted))
        .label_if(o.npay >= 2, "multi-payment")
        .label_if(o.accepted && uri.contains('%'), "percent-encoded")
}

// ---------------------------------------------------------------------------------------------
// (0) fixed examples: ZIP 321 examples + boundary URIs; also a self-test of the reference
// ---------------------------------------------------------------------------------------------

fn examples() -> Vec<(String, Expect)> {
    use Expect::*;
    let z = ZADDR;
    let t = TADDR;
    let mut v: Vec<(String, Expect)> = vec![
        ("zcash:".into(), Ambiguous),
        ("zcash:?".into(), Ambiguous),
        (format!("zcash:{z}?amount=1&memo=VGhpcyBpcyBhIHNpbXBsZSBtZW1vLg&message=Thank%20you%20for%20your%20purchase"), Valid),
        (format!("zcash:?address={t}&amount=123.456&address.1={z}&amount.1=0.789&memo.1=VGhpcyBpcyBhIHVuaWNvZGUgbWVtbyDinKjwn6aE8J-PhvCfjok"), Valid),
        (format!("zcash:{z}?amount=20999999.99999999"), Valid),
        (format!("zcash:{z}?amount=21000000"), Valid),
        (format!("zcash:{z}?amount=21000000.00000000"), Valid),
        (format!("zcash:{RADDR}?amount=1&memo=VGhpcyBpcyBhIHNpbXBsZSBtZW1vLg&message=Thank%20you%20for%20your%20purchase"), Valid),
        (format!("zcash:{z}"), Valid),
        (format!("zcash:{z}?amount=0"), Valid),
        (format!("zcash:{z}?message="), Valid),
        (format!("zcash:{z}?memo="), Valid),
        (format!("zcash:?address.9999={z}&amount.9999=0.00000001"), Valid),
        (format!("zcash:?amount.1=1&address.1={t}"), Valid),
        (format!("zcash:{t}?label=a+b%2B%26%3D%25"), Valid),
        (format!("zcash:{t}?x-y+z=1&X=2"), Valid),
        (format!("zcash:{z}?amount=0001.5"), Valid),
        ("".into(), Invalid),
        (format!("zcash:?amount=3491405.05201255&address.1={z}&amount.1=5740296.87793245"), Invalid),
        (format!("zcash:?address={t}&amount=1&amount.1=2&address.2={z}"), Invalid),
        (format!("zcash:?address.0={z}&amount.0=2"), Invalid),
        (format!("zcash:?amount=1.234&amount=2.345&address={t}"), Invalid),
        (format!("zcash:?amount.1=1.234&amount.1=2.345&address.1={t}"), Invalid),
        (format!("zcash:?address={t}&amount=123.456&memo=eyAia2V5IjogIlRoaXMgaXMgYSBKU09OLXN0cnVjdHVyZWQgbWVtby4iIH0&address.1={z}&amount.1=0.789"), Invalid),
        (format!("zcash:{z}?amount=9223372036854775808"), Invalid),
        (format!("zcash:{z}?amount=18446744073709551624"), Invalid),
        (format!("zcash:{z}?amount=21000000.00000001"), Invalid),
        (format!("zcash:{z}?amount=-1"), Invalid),
        (format!("zcash:?amount.10000=1.23&address.10000={t}"), Invalid),
        (format!("zcash:?address={t}&amount=123."), Invalid),
        (format!("zcash:?address={t}&amount=123.45&req-unknown=x"), Invalid),
        (format!("zcash:{t}?amount=0"), Invalid),
        (format!("zcash:{t}?amount=0.00000000"), Invalid),
        (format!("zcash:{z}?address={z}"), Invalid),
        (format!("zcash:?address.01={z}"), Invalid),
        (format!("zcash:?address.1={z}&amount.01=1"), Invalid),
        (format!("zcash:{z}?amount=1.000000000"), Invalid),
        (format!("zcash:{z}?amount=1e3"), Invalid),
        (format!("zcash:{z}?amount="), Invalid),
        (format!("zcash:{z}?amount=.5"), Invalid),
        (format!("zcash:{z}?label=%FF"), Invalid),
        (format!("zcash:{z}?label=a b"), Invalid),
        (format!("zcash:{z}?memo=AAECA"), Invalid),
        (format!("zcash:{z}?memo={}", ref_b64_encode(&[7u8; 513])), Invalid),
        (format!("zcash:{z}?memo={}", ref_b64_encode(&[7u8; 512])), Valid),
        (format!("bitcoin:{z}?amount=1"), Invalid),
        (format!("zcash:{z}x?amount=1"), Invalid),
        (format!("zcash:{z}?x=1&x=2"), Invalid),
        (format!("zcash:{z}?label=%"), Ambiguous),
        (format!("zcash:{z}?amount=1&"), Ambiguous),
        (format!("zcash:{z}?flag"), Ambiguous),
        (format!("ZCASH:{z}"), Ambiguous),
        (format!("zcash: {z}"), Ambiguous),
        (format!("zcash:{z}?memo=QR"), Ambiguous),
        (format!("zcash:{z}?Amount=1"), Ambiguous),
    ];
    // index boundaries
    for (i, e) in [("1", Valid), ("9", Valid), ("10", Valid), ("999", Valid), ("1000", Valid), ("9999", Valid), ("0", Invalid), ("00", Invalid), ("01", Invalid), ("10000", Invalid), ("99999", Invalid), ("", Invalid), ("1a", Invalid), ("+1", Invalid)] {
        v.push((format!("zcash:?address.{i}={z}&amount.{i}=1"), e));
    }
    v
}

fn check_example(i: u64, ex: &[(String, Expect)]) -> CaseResult {
    let (uri, want) = &ex[i as usize];
    let o = check_uri(uri)?;
    let got = match o.verdict {
        "valid" => Expect::Valid,
        "invalid" => Expect::Invalid,
        _ => Expect::Ambiguous,
    };
    vensure!(got == *want, "reference-selftest", "{uri:?}: reference says {got:?} ({}), table says {want:?}", o.rule);
    Ok(uri_obs(uri, &o, true))
}

// ---------------------------------------------------------------------------------------------
// (1) round trip of generated requests
// ---------------------------------------------------------------------------------------------

fn zat(z: u64) -> Zatoshis {
    Zatoshis::from_u64(z).expect("generated within range")
}

fn check_roundtrip(pays: &[PayParts]) -> CaseResult {
    let mut map: BTreeMap<usize, Payment> = BTreeMap::new();
    let mut model = RReq::new();
    let mut seq: Vec<Payment> = vec![];
    let mut obs = Obs::new(false);
    let mut rejected_parts = 0u64;
    for p in pays {
        if map.contains_key(&p.idx) {
            continue;
        }
        // address codec: the canonical form is what one encode/parse round trip yields
        let enc = p.addr.encode();
        let addr = ZcashAddress::try_from_encoded(&enc).map_err(|e| Fail::new("address-roundtrip", format!("{:?} encodes to {enc:?} which does not parse: {e:?}", p.addr)))?;
        vensure_eq!(addr.encode(), enc, "address-roundtrip", "encode(parse(encode(a)))");
        let ra = classify(&p.addr);
        let b58 = matches!(ra.kind, RKind::Sprout | RKind::P2pkh | RKind::P2sh);
        if !(b58 && ra.net == zcash_protocol::consensus::NetworkType::Regtest) {
            vensure!(addr == p.addr, "address-roundtrip", "{:?} -> {enc:?} -> {addr:?}", p.addr);
        }
        obs = obs.label(kind_label(&addr));
        let can_memo = ref_can_memo(&addr);
        let t_only = ref_transparent_only(&addr);
        // the library's own classification against the reference one
        vensure_eq!(addr.can_receive_memo(), can_memo, "can-receive-memo", "{}", enc);
        vensure_eq!(addr.is_transparent_only(), t_only, "is-transparent-only", "{}", enc);

        let mut other: Vec<(String, String)> = vec![];
        for (n, v) in &p.other {
            if !other.iter().any(|(m, _)| m == n) {
                other.push((n.clone(), v.clone()));
            }
        }
        let mk = |amount: Option<u64>, memo: &Option<Vec<u8>>| -> Result<Result<Payment, PaymentError>, Fail> {
            let mb = match memo {
                Some(m) => Some(MemoBytes::from_bytes(m).map_err(|e| Fail::new("memobytes-from-bytes", format!("{} bytes rejected: {e:?}", m.len())))?),
                None => None,
            };
            catch(|| Payment::new(addr.clone(), amount.map(zat), mb, p.label.clone(), p.message.clone(), other.clone()))
                .map_err(|pn| Fail::new("payment-new-panic", pn))
        };
        // Payment::new accepts <=> reference predicate
        let bad_memo = p.memo.is_some() && !can_memo;
        let bad_zero = t_only && p.amount == Some(0);
        let (mut amount, mut memo) = (p.amount, p.memo.clone());
        let payment = match mk(amount, &memo)? {
            Ok(pm) => {
                vensure!(!bad_memo, "payment-new-accepts-memo", "Payment::new accepted a memo for {enc}");
                vensure!(!bad_zero, "payment-new-accepts-zero-transparent", "Payment::new accepted a zero-valued output to {enc}");
                pm
            }
            Err(e) => {
                vensure!(bad_memo || bad_zero, "payment-new-rejects-valid", "Payment::new({enc}, {amount:?}, memo={}) = {e:?}", memo.is_some());
                match e {
                    PaymentError::TransparentMemo => vensure!(bad_memo, "payment-new-error-variant", "{e:?} without a memo problem"),
                    PaymentError::ZeroValuedTransparentOutput => vensure!(bad_zero, "payment-new-error-variant", "{e:?} without a zero-value problem"),
                }
                rejected_parts += 1;
                if bad_memo {
                    memo = None;
                }
                if bad_zero {
                    amount = Some(1);
                }
                mk(amount, &memo)?.map_err(|e| Fail::new("payment-new-rejects-valid", format!("repaired payment to {enc} rejected: {e:?}")))?
            }
        };
        // getters return what went in
        vensure!(payment.recipient_address() == &addr, "payment-getter", "recipient_address");
        vensure_eq!(payment.amount().map(u64::from), amount, "payment-getter", "amount");
        vensure_eq!(payment.memo().map(|m| m.as_array().to_vec()), memo.as_ref().map(|m| pad512(m)), "payment-getter", "memo");
        vensure_eq!(payment.label(), p.label.as_ref(), "payment-getter", "label");
        vensure_eq!(payment.message(), p.message.as_ref(), "payment-getter", "message");
        vensure_eq!(payment.other_params(), &other[..], "payment-getter", "other_params");
        if let Some(m) = &memo {
            vensure_eq!(payment.memo().unwrap().as_slice(), strip_zeros(m), "memo-as-slice", "as_slice of a {}-byte memo", m.len());
        }
        model.insert(p.idx, RPay { addr: addr.clone(), amount, memo: memo.as_ref().map(|m| pad512(m)), label: p.label.clone(), message: p.message.clone(), other });
        seq.push(payment.clone());
        map.insert(p.idx, payment);
    }

    let req = TransactionRequest::from_indexed(map.clone()).map_err(|e| Fail::new("from-indexed-rejects", format!("indices {:?}: {e:?}", map.keys().collect::<Vec<_>>())))?;
    vensure!(to_rreq(&req) == model, "from-indexed-changes", "payments() differs from the input map");
    let uri = to_uri(&req)?;

    // the rendering is grammatical ZIP 321 and decodes (independently) to the request
    match ref_parse(&uri, true) {
        Verdict::Valid(r) => vensure!(r == model, "render-not-faithful", "{uri:?} decodes (reference) to {r:?}; request {model:?}"),
        Verdict::Invalid(rule, _) => vfail!("render-ungrammatical", "to_uri produced {uri:?} which violates ZIP 321 ({rule}); request {model:?}"),
        Verdict::Ambiguous(why) => vfail!("render-ungrammatical", "to_uri produced {uri:?} which is not plainly valid ZIP 321 ({why})"),
    }
    // to_uri -> from_uri is the identity
    let parsed = from_uri(&uri)?.map_err(|e| Fail::new("roundtrip-rejected", format!("{uri:?} (own rendering) rejected: {e:?}")))?;
    vensure!(parsed == req, "roundtrip-differs", "{uri:?}: parsed {parsed:?} != original {req:?}");
    for (i, p) in parsed.payments() {
        vensure_eq!(p.memo().map(|m| m.as_array().to_vec()), model[i].memo, "memo-roundtrip", "memo of payment {i}");
    }
    // re-rendering is stable
    let uri2 = to_uri(&parsed)?;
    vensure_eq!(uri2, uri, "rerender-differs", "to_uri(from_uri(u)) != u");

    // total(): exact in u128
    let amounts: Vec<Option<u64>> = model.values().map(|p| p.amount).collect();
    let sum_some: u128 = amounts.iter().flatten().map(|a| *a as u128).sum();
    let any_none = amounts.iter().any(|a| a.is_none());
    let total = catch(|| req.total()).map_err(|p| Fail::new("total-panic", p))?;
    match (any_none, sum_some > MAX_MONEY as u128) {
        (false, false) => vensure!(total == Ok(Some(zat(sum_some as u64))), "total-inexact", "amounts {amounts:?}: total() = {total:?}, exact {sum_some}"),
        (false, true) => vensure!(total.is_err(), "total-overflow-not-reported", "amounts {amounts:?} sum to {sum_some} > MAX_MONEY but total() = {total:?}"),
        (true, false) => vensure!(total == Ok(None), "total-with-unspecified-amount", "amounts {amounts:?}: total() = {total:?}, documented Ok(None)"),
        // both documented clauses apply; either outcome is acceptable, but never a value
        (true, true) => vensure!(!matches!(total, Ok(Some(_))), "total-with-unspecified-amount", "amounts {amounts:?}: total() = {total:?}"),
    }

    // TransactionRequest::new assigns sequential indices and validates
    let n = seq.len();
    let seq_req = catch(|| TransactionRequest::new(seq.clone())).map_err(|p| Fail::new("new-panic", p))?;
    let seq_req = seq_req.map_err(|e| Fail::new("new-rejects-valid", format!("TransactionRequest::new of {n} valid payments: {e:?}")))?;
    let want: BTreeMap<usize, Payment> = seq.into_iter().enumerate().collect();
    vensure!(seq_req.payments() == &want, "new-wrong-indices", "TransactionRequest::new did not number payments 0..{n}");
    let su = to_uri(&seq_req)?;
    let sp = from_uri(&su)?.map_err(|e| Fail::new("roundtrip-rejected", format!("{su:?} rejected: {e:?}")))?;
    vensure!(sp == seq_req, "roundtrip-differs", "sequential request {su:?}");

    let pct = uri.contains('%');
    let multi = model.len() >= 2;
    Ok(obs
        .label_if(multi, "multi-payment")
        .label_if(pct, "percent-encoded")
        .label_if(model.values().any(|p| p.memo.is_some()), "has-memo")
        .label_if(model.values().any(|p| p.memo.as_ref().map(|m| strip_zeros(m).len() == 512).unwrap_or(false)), "memo-full-512")
        .label_if(rejected_parts > 0, "payment-new-rejected")
        .label_if(sum_some > MAX_MONEY as u128, "total-overflow")
        .label_if(any_none, "total-unspecified")
        .label_if(model.keys().any(|k| *k >= 1000), "index-4-digits")
        .label_if(!model.contains_key(&0), "no-index-0")
        .count("payments", model.len() as u64)
        .key(hash64(uri.as_bytes()))
        .set_nontrivial(multi || pct))
}

trait ObsExt {
    fn set_nontrivial(self, b: bool) -> Self;
}
impl ObsExt for Obs {
    fn set_nontrivial(mut self, b: bool) -> Self {
        self.nontrivial = b;
        self
    }
}

// ---------------------------------------------------------------------------------------------
// (2) amount <-> decimal string
// ---------------------------------------------------------------------------------------------

fn amount_of(uri: &str) -> Result<Result<Option<u64>, Zip321Error>, Fail> {
    Ok(from_uri(uri)?.map(|r| r.payments().get(&0).and_then(|p| p.amount()).map(u64::from)))
}

/// `z` may exceed MAX_MONEY (then every spelling must be rejected).
fn check_amount(z: u128) -> CaseResult {
    let prefix = format!("zcash:{ZADDR}?amount=");
    let min = ref_amount_min(z);
    let min_digits = min.find('.').map(|i| min.len() - i - 1).unwrap_or(0);
    let mut spellings: Vec<String> = vec![min.clone(), format!("00{min}")];
    for k in min_digits.max(1)..=8 {
        spellings.push(ref_amount_k(z, k));
    }
    if z <= MAX_MONEY as u128 {
        let z64 = z as u64;
        // zatoshis -> string (through the only public renderer)
        let addr = ZcashAddress::try_from_encoded(ZADDR).expect("fixed address");
        let req = TransactionRequest::from_indexed(BTreeMap::from([(0usize, Payment::without_memo(addr, zat(z64)))])).expect("index 0");
        let uri = to_uri(&req)?;
        // any grammatical rendering is fine; take the text of the (only) amount parameter
        let Some(s) = uri.split(['?', '&']).find_map(|item| item.strip_prefix("amount=")) else { vfail!("amount-uri-shape", "{uri:?} carries no amount parameter") };
        match ref_parse_amount(s) {
            Some(v) => vensure!(v == z64, "amount-render-inexact", "{z64} zatoshis rendered as {s:?} = {v} zatoshis"),
            None => vfail!("amount-render-malformed", "{z64} zatoshis rendered as {s:?}, not a ZIP 321 amount"),
        }
        // string -> zatoshis, every equivalent spelling
        for s in &spellings {
            let got = amount_of(&format!("{prefix}{s}"))?;
            vensure!(got == Ok(Some(z64)), "amount-parse-inexact", "amount={s} parsed as {got:?}, exact {z64}");
        }
    } else {
        for s in &spellings {
            let got = amount_of(&format!("{prefix}{s}"))?;
            vensure!(got.is_err(), "amount-accepts-above-max", "amount={s} ({z} zatoshis > MAX_MONEY) parsed as {got:?}");
        }
    }
    // nine fractional digits are never valid, even when the ninth is zero
    let nine = format!("{}0", ref_amount_k(z, 8));
    let got = amount_of(&format!("{prefix}{nine}"))?;
    vensure!(got.is_err(), "amount-accepts-9-decimals", "amount={nine} parsed as {got:?}");
    let near = z <= 1 || z.abs_diff(MAX_MONEY as u128) <= 1 || min_digits == 8 || min.trim_end_matches('0') != min;
    Ok(Obs::new(near).key(hash64(&z.to_le_bytes())).label_if(z > MAX_MONEY as u128, "above-max").label_if(min_digits == 8, "eight-decimals").label_if(min_digits == 0, "whole-coins"))
}

// ---------------------------------------------------------------------------------------------
// (4) memos
// ---------------------------------------------------------------------------------------------

fn check_memo(bytes: &[u8]) -> CaseResult {
    let r = catch(|| MemoBytes::from_bytes(bytes)).map_err(|p| Fail::new("memobytes-panic", p))?;
    let mut obs = Obs::new(bytes.len() >= 2).key(hash64(bytes)).label_if(bytes.last() == Some(&0), "trailing-zero");
    if bytes.len() > 512 {
        vensure!(r == Err(memo::Error::TooLong(bytes.len())), "memobytes-too-long", "{} bytes: {r:?}", bytes.len());
        vensure!(matches!(Memo::from_bytes(bytes), Err(memo::Error::TooLong(_))), "memo-too-long", "Memo::from_bytes of {} bytes", bytes.len());
        let s = ref_b64_encode(bytes);
        let d = catch(|| memo_from_base64(&s)).map_err(|p| Fail::new("memo-base64-panic", p))?;
        vensure!(matches!(d, Err(Zip321Error::MemoBytesError(memo::Error::TooLong(_)))), "memo-base64-too-long", "{} bytes: {d:?}", bytes.len());
        let got = from_uri(&format!("zcash:{ZADDR}?memo={s}"))?;
        vensure!(got.is_err(), "accepts-invalid:memo-too-long", "{}-byte memo accepted", bytes.len());
        return Ok(obs.label("too-long"));
    }
    let mb = r.map_err(|e| Fail::new("memobytes-from-bytes", format!("{} bytes rejected: {e:?}", bytes.len())))?;
    let full = pad512(bytes);
    let stripped = strip_zeros(bytes);
    vensure_eq!(&mb.as_array()[..], &full[..], "memobytes-padding", "as_array of {} bytes", bytes.len());
    vensure_eq!(mb.as_slice(), stripped, "memobytes-as-slice", "as_slice of {} bytes", bytes.len());
    vensure_eq!(&mb.clone().into_bytes()[..], &full[..], "memobytes-padding", "into_bytes");
    vensure!(MemoBytes::from_bytes(&full).ok().as_ref() == Some(&mb), "memobytes-padding", "from_bytes(padded) differs");

    // Memo <-> MemoBytes (ZIP 302 classification written from the spec)
    let parsed = catch(|| Memo::try_from(&mb)).map_err(|p| Fail::new("memo-parse-panic", p))?;
    let b0 = full[0];
    if b0 == 0xF6 && full[1..].iter().all(|b| *b == 0) {
        vensure!(parsed == Ok(Memo::Empty), "memo-classify", "0xF6 00.. parsed as {parsed:?}");
        vensure!(MemoBytes::empty() == mb, "memo-empty", "MemoBytes::empty() differs from F6 00..");
        obs = obs.label("memo-empty");
    } else if b0 == 0xFF {
        match &parsed {
            Ok(Memo::Arbitrary(a)) => vensure_eq!(&a[..], &full[1..], "memo-classify", "arbitrary payload"),
            other => vfail!("memo-classify", "0xFF.. parsed as {other:?}"),
        }
        obs = obs.label("memo-arbitrary");
    } else if b0 <= 0xF4 {
        match (std::str::from_utf8(stripped), &parsed) {
            (Ok(s), Ok(Memo::Text(t))) => vensure_eq!(&**t, s, "memo-classify", "text"),
            (Err(_), Err(memo::Error::InvalidUtf8(_))) => {}
            (exp, got) => vfail!("memo-classify", "lead byte {b0:#x}: reference utf8={:?}, parsed {got:?}", exp.is_ok()),
        }
        obs = obs.label(if parsed.is_ok() { "memo-text" } else { "memo-invalid-utf8" });
    } else {
        match &parsed {
            Ok(Memo::Future(f)) => vensure!(f == &mb, "memo-classify", "future memo bytes differ"),
            other => vfail!("memo-classify", "lead byte {b0:#x} parsed as {other:?}"),
        }
        obs = obs.label("memo-future");
    }
    vensure!(Memo::from_bytes(bytes) == parsed, "memo-from-bytes", "Memo::from_bytes differs from TryFrom<&MemoBytes>");
    vensure!(Memo::try_from(mb.clone()) == parsed, "memo-from-bytes", "TryFrom<MemoBytes> differs from TryFrom<&MemoBytes>");
    if let Ok(m) = &parsed {
        vensure!(m.encode() == mb, "memo-encode-roundtrip", "encode(parse(b)) != b for {m:?}");
        vensure!(MemoBytes::from(m.clone()) == mb && MemoBytes::from(m) == mb, "memo-encode-roundtrip", "From<Memo> differs");
    }
    // from_str
    if let Ok(s) = std::str::from_utf8(bytes) {
        let m = Memo::from_str(s);
        if s.is_empty() {
            vensure!(m == Ok(Memo::Empty), "memo-from-str", "empty string: {m:?}");
        } else {
            match &m {
                Ok(Memo::Text(t)) => {
                    vensure_eq!(&**t, s, "memo-from-str", "text");
                    let enc = m.as_ref().unwrap().encode();
                    vensure_eq!(&enc.as_array()[..], &full[..], "memo-from-str", "encoding of the text memo");
                }
                other => vfail!("memo-from-str", "{s:?}: {other:?}"),
            }
        }
    }

    // base64url transport (zip321)
    let s = memo_to_base64(&mb);
    match ref_b64_decode(&s) {
        Ok((d, true)) if d.len() <= 512 && pad512(&d) == full => {}
        other => vfail!("memo-base64-encode", "memo_to_base64 gave {s:?} which decodes (reference) to {other:?}"),
    }
    for enc in [s.clone(), ref_b64_encode(stripped), ref_b64_encode(&full), ref_b64_encode(bytes)] {
        let d = catch(|| memo_from_base64(&enc)).map_err(|p| Fail::new("memo-base64-panic", p))?;
        vensure!(d.as_ref() == Ok(&mb), "memo-base64-decode", "memo_from_base64({enc:?}) = {d:?}");
    }
    // through a URI, bytes unchanged
    let uri = format!("zcash:{ZADDR}?memo={}", ref_b64_encode(bytes));
    let got = from_uri(&uri)?.map_err(|e| Fail::new("rejects-valid-uri", format!("{uri:?}: {e:?}")))?;
    let pm = got.payments().get(&0).and_then(|p| p.memo().cloned());
    vensure!(pm.as_ref() == Some(&mb), "memo-roundtrip", "memo of {} bytes came back as {pm:?}", bytes.len());
    let uri2 = to_uri(&got)?;
    let got2 = from_uri(&uri2)?.map_err(|e| Fail::new("rerender-rejected", format!("{uri2:?}: {e:?}")))?;
    vensure!(got2 == got, "memo-roundtrip", "re-rendered memo differs");
    Ok(obs.label_if(bytes.len() == 512, "len-512").label_if(bytes.is_empty(), "len-0"))
}

/// Memo values built from the typed side.
fn check_memo_typed(text: &str, arb: &[u8]) -> CaseResult {
    let m = Memo::from_str(text);
    if text.len() > 512 {
        vensure!(m == Err(memo::Error::TooLong(text.len())), "memo-from-str", "{} bytes: {m:?}", text.len());
    } else {
        let m = m.map_err(|e| Fail::new("memo-from-str", format!("{text:?}: {e:?}")))?;
        let back = Memo::try_from(m.encode());
        // trailing NULs are padding by definition (as_slice "excluding null padding")
        let trimmed = text.trim_end_matches('\0');
        if text.is_empty() {
            vensure!(back == Ok(Memo::Empty), "memo-typed-roundtrip", "empty: {back:?}");
        } else {
            match &back {
                Ok(Memo::Text(t)) => vensure_eq!(&**t, trimmed, "memo-typed-roundtrip", "text memo"),
                other => vfail!("memo-typed-roundtrip", "{text:?} -> {other:?}"),
            }
        }
    }
    let mut a = [0u8; 511];
    let n = arb.len().min(511);
    a[..n].copy_from_slice(&arb[..n]);
    let m = Memo::Arbitrary(Box::new(a));
    let e = m.encode();
    vensure!(e.as_array()[0] == 0xFF && e.as_array()[1..] == a[..], "memo-typed-roundtrip", "arbitrary encoding");
    vensure!(Memo::try_from(&e) == Ok(m), "memo-typed-roundtrip", "arbitrary");
    vensure!(Memo::try_from(Memo::default().encode()) == Ok(Memo::Empty), "memo-typed-roundtrip", "default");
    Ok(Obs::new(!text.is_empty()).key(hash64(&[text.as_bytes(), arb].concat())).label_if(text.ends_with('\0'), "text-trailing-nul").label_if(text.len() > 512, "text-too-long"))
}

// ---------------------------------------------------------------------------------------------

fn main() {
    let ctx = Ctx::from_args("C12", "exploration");
    ctx.set_rule(
        "Requests: 1..8 payments at arbitrary distinct indices 0..=9999, every recipient kind x 3 networks (repository \
         arb_address + constructed UAs with controlled receiver sets), labels/messages/other params over reserved URI \
         characters, '%', '&', '=', '+', space, controls, BMP, non-BMP, combining marks and escape look-alikes, amounts from \
         the structured decimal set + random, memos of every length and lead byte. Grammar URIs: reference rendering in \
         random equivalent spellings with at most one ZIP 321 rule violated; string mutations; arbitrary strings. \
         Non-trivial: >= 2 payments or a percent-encoded character (round trip / accepted URIs); rejected URIs exactly one \
         rule away from valid; amounts at a decimal boundary. Distinct = hash of the URI / operand.",
    );
    ctx.assume("ZcashAddress string codec (try_from_encoded/encode/convert) is shared with the reference; base58 regtest kinds are compared after one encode/parse normalisation as documented");
    ctx.assume("ZIP 321 corners on which neither the ABNF nor the rustdoc is decisive (letter case of literals, empty/valueless parameters, malformed percent escapes, whitespace around the lead address, non-zero unused base64 bits, the empty request) only get the safety direction");
    ctx.assume("Sprout recipients are treated as valid and memo-capable as documented by zcash_address::can_receive_memo");
    ctx.assume("total(): when an amount is unspecified AND the specified ones exceed MAX_MONEY both documented clauses apply; Ok(None) and Err are both accepted");
    let tier = ctx.tier;

    // Sensitivity studies only: skip the fixed/enumerated sub-checks so that a mutant has to be found by
    // the generated ones (the evidence of such a run is partial by construction).
    let generated_only = std::env::var_os("C12_GENERATED_ONLY").is_some();

    // (0) examples
    if !generated_only {
        let ex = examples();
        let ex2 = ex.clone();
        ctx.run_enum("examples", ex.len() as u64, true, move |i| check_example(i, &ex), move |i| format!("{:?}", ex2[i as usize]));
    }
    // from_indexed rejects indices above 9999
    if !generated_only {
    ctx.run_enum(
        "from-indexed-bounds",
        6,
        true,
        |i| {
            let k = [0usize, 9999, 10000, 10001, 65536, usize::MAX][i as usize];
            let a = ZcashAddress::try_from_encoded(TADDR).unwrap();
            let r = TransactionRequest::from_indexed(BTreeMap::from([(k, Payment::without_memo(a, zat(1)))]));
            vensure!(r.is_ok() == (k <= 9999), "from-indexed-bounds", "index {k}: {r:?}");
            if let Ok(r) = r {
                let u = to_uri(&r)?;
                let o = check_uri(&u)?;
                vensure!(o.verdict == "valid", "render-ungrammatical", "{u:?}");
            }
            Ok(Obs::nontrivial())
        },
        |i| format!("index case {i}"),
    );
    }

    // (2) amounts
    if !generated_only {
        let mut set: Vec<u128> = structured_amounts().into_iter().map(|x| x as u128).collect();
        let m = MAX_MONEY as u128;
        set.extend([m + 1, m + 2, m + COIN, m + COIN - 1, 10 * m, 1u128 << 63, (1u128 << 63) + 1, (1u128 << 64) - 1, 1u128 << 64, (1u128 << 64) + 1, (1u128 << 64) + 8, 10u128.pow(16), 10u128.pow(17), 10u128.pow(19), 10u128.pow(20) + 1, 10u128.pow(26)]);
        let set2 = set.clone();
        ctx.run_enum("amount-structured", set.len() as u64, true, move |i| check_amount(set[i as usize]), move |i| format!("zatoshis={}", set2[i as usize]));
        ctx.require_min_count("amount-structured", "above-max", 10);
        ctx.require_min_count("amount-structured", "eight-decimals", 100);
    }
    ctx.run_prop(
        "amount-random",
        || prop_oneof![8 => arb_amount().prop_map(|z| z as u128), 1 => (MAX_MONEY as u128 + 1)..(1u128 << 66), 1 => (1u128..100_000).prop_map(|d| MAX_MONEY as u128 + d)],
        tier.pick(400_000, 12_000_000),
        |z| check_amount(*z),
    );

    // (4) memos
    if !generated_only {
    ctx.run_enum(
        "memo-lengths",
        516 * 8,
        true,
        |i| {
            let len = (i / 8) as usize;
            let b: Vec<u8> = match i % 8 {
                0 => vec![0x41; len],
                1 => vec![0u8; len],
                2 => (0..len).map(|k| if k + 1 == len { 0 } else { 0x42 }).collect(),
                3 => (0..len).map(|k| if k == 0 { 0xFF } else { (k % 251) as u8 }).collect(),
                4 => (0..len).map(|k| if k == 0 { 0xF6 } else { 0 }).collect(),
                5 => (0..len).map(|k| if k == 0 { 0xF5 } else { 0x80 }).collect(),
                6 => (0..len).map(|k| if k < len / 2 { 0xC3 } else { 0 }).collect(),
                _ => (0..len).map(|k| (k * 7 + 3) as u8).collect(),
            };
            check_memo(&b)
        },
        |i| format!("len={} pattern={}", i / 8, i % 8),
    );
    }
    ctx.run_prop(
        "memo-random",
        || prop_oneof![8 => arb_memo_bytes(), 1 => proptest::collection::vec(any::<u8>(), 513..700)],
        tier.pick(100_000, 3_000_000),
        |b| check_memo(b),
    );
    ctx.run_prop(
        "memo-typed",
        || (prop_oneof![4 => arb_text(), 1 => "[a-z\\x00]{0,20}", 1 => "[a-zé🦄]{100,300}"], proptest::collection::vec(any::<u8>(), 0..600)),
        tier.pick(20_000, 600_000),
        |(t, a)| check_memo_typed(t, a),
    );

    // (1) round trip
    ctx.run_prop("roundtrip", || arb_pays(8), tier.pick(100_000, 4_000_000), |(_, pays)| check_roundtrip(pays));
    ctx.require_label_fraction("roundtrip", "multi-payment", 0.30);
    ctx.require_label_fraction("roundtrip", "percent-encoded", 0.30);
    ctx.require_label_fraction("roundtrip", "has-memo", 0.15);
    ctx.require_label_fraction("roundtrip", "payment-new-rejected", 0.03);
    for l in ["addr-sprout", "addr-sapling", "addr-p2pkh", "addr-p2sh", "addr-tex", "addr-ua-shielded", "addr-ua-shielded+t", "addr-ua-t+unknown", "addr-ua-unknown-only", "total-overflow", "total-unspecified", "memo-full-512"] {
        ctx.require_min_count("roundtrip", l, 50);
    }

    // (3) grammar with one rule violated
    ctx.run_prop("grammar", || arb_gcase(arb_viol().boxed()), tier.pick(150_000, 6_000_000), |c| {
        let Some(uri) = render(c) else { vfail!("address-roundtrip", "an address of the case does not survive encode/parse: {c:?}") };
        let o = check_uri(&uri)?;
        // generator self-consistency: the intended class is what the reference sees
        let want = c.viol.expect();
        let case_amb = o.verdict == "ambiguous" && o.rule == "name-case";
        match want {
            Expect::Valid => vensure!(o.verdict == "valid" || case_amb, "generator-selftest", "intended valid URI {uri:?} judged {} ({})", o.verdict, o.rule),
            Expect::Invalid => vensure!(o.verdict == "invalid" || case_amb, "generator-selftest", "{:?} on {uri:?} judged {} ({})", c.viol, o.verdict, o.rule),
            Expect::Ambiguous => {}
        }
        let nontrivial = match o.verdict {
            "invalid" => want == Expect::Invalid,
            "valid" => o.npay >= 2 || uri.contains('%'),
            _ => o.accepted,
        };
        Ok(uri_obs(&uri, &o, nontrivial).label(c.viol.label()).label_if(o.verdict == "invalid", invalid_rule_label(o.rule)))
    });
    for v in [
        "v-none", "v-missing-address", "v-duplicate-param", "v-index-dot-zero", "v-index-leading-zero", "v-index-10000", "v-bad-amount",
        "v-memo-to-non-memo-recipient", "v-zero-transparent", "v-unknown-req", "v-pct-invalid-utf8", "v-pct-malformed", "v-bad-memo-base64",
        "v-memo-too-long", "v-memo-trailing-bits", "v-wrong-scheme", "v-raw-illegal-char", "v-bad-param-name", "v-bad-address", "v-ambiguous-shape",
        "rule-duplicate", "rule-missing-address", "rule-memo-to-non-memo-recipient", "rule-zero-transparent", "rule-paramindex", "rule-amount", "rule-req-param",
    ] {
        ctx.require_min_count("grammar", v, 300);
    }
    ctx.require_label_fraction("grammar", "ref-valid", 0.10);
    ctx.require_label_fraction("grammar", "ref-invalid", 0.40);

    // (5) mutated and arbitrary strings: no panic, acceptance consistent with the reference, safety on accept
    ctx.run_prop("mutated", || (arb_gcase(Just(Viol::None).boxed()), arb_mutops()), tier.pick(150_000, 8_000_000), |(c, ops)| {
        let Some(base) = render(c) else { vfail!("address-roundtrip", "an address of the case does not survive encode/parse: {c:?}") };
        let uri = mutate(&base, ops);
        let o = check_uri(&uri)?;
        Ok(uri_obs(&uri, &o, uri != base).label_if(o.verdict == "invalid", invalid_rule_label(o.rule)))
    });
    ctx.require_label_fraction("mutated", "accepted", 0.05);
    ctx.require_label_fraction("mutated", "rejected", 0.30);
    ctx.run_prop(
        "arbitrary",
        || {
            prop_oneof![
                1 => any::<String>(),
                1 => any::<String>().prop_map(|s| format!("zcash:{s}")),
                1 => arb_tail().prop_map(|s| format!("zcash:?{s}")),
                6 => (arb_net().prop_flat_map(arb_addr), arb_tail()).prop_map(|(a, t)| format!("zcash:{}?{t}", a.encode())),
                1 => (arb_net().prop_flat_map(arb_addr), arb_tail()).prop_map(|(a, t)| format!("zcash:?address.1={}&{t}", a.encode())),
            ]
        },
        tier.pick(300_000, 10_000_000),
        |uri| {
            let o = check_uri(uri)?;
            // also the standalone base64 entry point
            if let Some(i) = uri.find("memo=") {
                let v = &uri[i + 5..];
                catch(|| memo_from_base64(v)).map_err(|p| Fail::new("memo-base64-panic", format!("memo_from_base64({v:?}): {p}")))?.ok();
            }
            Ok(uri_obs(uri, &o, o.accepted || o.verdict == "invalid" && uri.starts_with("zcash:")).label_if(o.verdict == "invalid", invalid_rule_label(o.rule)))
        },
    );
    ctx.require_label_fraction("arbitrary", "accepted", 0.03);
    // coverage-guided byte-level campaign (libFuzzer target `zip321_uri`, oracle inside the target)
    ctx.run_fuzz("zip321_uri", ctx.tier.pick(500_000, 10_000_000), ctx.tier.pick(4, 16), 2048);
    ctx.finish();
}

/// Observed behaviour of the parser on the corners the specification leaves open (reported, not asserted).
fn amb_label(why: &str, accepted: bool) -> &'static str {
    match (why, accepted) {
        ("scheme-case", true) => "amb-scheme-case-accepted",
        ("scheme-case", false) => "amb-scheme-case-rejected",
        ("lead-address-whitespace", true) => "amb-lead-address-whitespace-accepted",
        ("lead-address-whitespace", false) => "amb-lead-address-whitespace-rejected",
        ("empty-query", true) => "amb-empty-query-accepted",
        ("empty-query", false) => "amb-empty-query-rejected",
        ("empty-param", true) => "amb-empty-param-accepted",
        ("empty-param", false) => "amb-empty-param-rejected",
        ("param-without-value", true) => "amb-param-without-value-accepted",
        ("param-without-value", false) => "amb-param-without-value-rejected",
        ("malformed-pct", true) => "amb-malformed-pct-accepted",
        ("malformed-pct", false) => "amb-malformed-pct-rejected",
        ("memo-trailing-bits", true) => "amb-memo-trailing-bits-accepted",
        ("memo-trailing-bits", false) => "amb-memo-trailing-bits-rejected",
        ("name-case", true) => "amb-name-case-accepted",
        ("name-case", false) => "amb-name-case-rejected",
        ("empty-request", true) => "amb-empty-request-accepted",
        ("empty-request", false) => "amb-empty-request-rejected",
        (_, true) => "amb-other-accepted",
        (_, false) => "amb-other-rejected",
    }
}

fn invalid_rule_label(rule: &str) -> &'static str {
    match rule {
        "scheme" => "rule-scheme",
        "lead-address" => "rule-lead-address",
        "paramname" => "rule-paramname",
        "paramindex" => "rule-paramindex",
        "missing-equals" => "rule-missing-equals",
        "req-param" => "rule-req-param",
        "value-char" => "rule-value-char",
        "address-value" => "rule-address-value",
        "amount" => "rule-amount",
        "memo-base64" => "rule-memo-base64",
        "memo-too-long" => "rule-memo-too-long",
        "utf8" => "rule-utf8",
        "duplicate" => "rule-duplicate",
        "missing-address" => "rule-missing-address",
        "memo-to-non-memo-recipient" => "rule-memo-to-non-memo-recipient",
        "zero-transparent" => "rule-zero-transparent",
        _ => "rule-other",
    }
}

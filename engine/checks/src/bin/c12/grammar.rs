//! Grammar-based URI generator: renders a valid reference request in many equivalent spellings and
//! optionally violates exactly one ZIP 321 rule.

use proptest::collection::vec;
use proptest::prelude::*;
use proptest::sample::select;
use vcore::pick_index;

use zcash_address::ZcashAddress;
use zcash_protocol::consensus::NetworkType;

use crate::gen::{arb_memo_capable, arb_pays, arb_transparent_only, arb_ua, PayParts};
use crate::reference::*;

#[derive(Clone, Debug)]
pub struct Style {
    pub lead: bool,
    pub order: Vec<u32>,
    pub enc_mode: u8,
    pub lower_hex: bool,
    pub amt: u8,
    pub memo: u8,
}

#[derive(Clone, Copy, Debug, PartialEq, Eq)]
pub enum Viol {
    None,
    MissingAddress,
    Duplicate,
    IndexZero,
    LeadingZero,
    Index10000,
    Amount(u8),
    MemoNoMemoRecipient,
    ZeroTransparent,
    UnknownReq,
    BadUtf8Pct,
    MalformedPct,
    BadMemo(u8),
    MemoTooLong,
    MemoTrailingBits,
    Scheme(u8),
    RawChar,
    BadName,
    BadAddress,
    Shape(u8),
}

/// What the single violation is expected to make of the URI.
#[derive(Clone, Copy, Debug, PartialEq, Eq)]
pub enum Expect {
    Valid,
    Invalid,
    Ambiguous,
}

pub const BAD_AMOUNTS: &[&str] = &[
    "1.123456789",          // 9 decimals
    "0.000000001",          // 9 decimals
    "1.000000000",          // 9 decimals, all zero
    "21000000.00000001",    // MAX_MONEY + 1 zat
    "21000001",             // above MAX_MONEY
    "100000000",            // 1e8 ZEC
    "184467440737.09551616", // 2^64 zat
    "184467440737.09551617", // wraps to 1 zat
    "18446744073709551616", // 2^64 ZEC
    "99999999999999999999999999",
    "-1",
    "-0",
    "1e3",
    "1E-2",
    "",
    ".5",
    "1.",
    "1.2.3",
    "1,5",
    "+1",
    "0x10",
    "NaN",
    "1_000",
    "١",                    // non-ASCII digit, raw
    "%31",                  // percent-encoded "1": amountparam has no pct-encoded alternative
    "1%2E5",
];

const SCHEMES: &[&str] = &["bitcoin:", "zcash", "zcashs:", " zcash:", "zcash;", "zcash::", "zcas:", "zcash:/", "zcash://", "http://zcash:", "z:"];

impl Viol {
    pub fn label(self) -> &'static str {
        match self {
            Viol::None => "v-none",
            Viol::MissingAddress => "v-missing-address",
            Viol::Duplicate => "v-duplicate-param",
            Viol::IndexZero => "v-index-dot-zero",
            Viol::LeadingZero => "v-index-leading-zero",
            Viol::Index10000 => "v-index-10000",
            Viol::Amount(_) => "v-bad-amount",
            Viol::MemoNoMemoRecipient => "v-memo-to-non-memo-recipient",
            Viol::ZeroTransparent => "v-zero-transparent",
            Viol::UnknownReq => "v-unknown-req",
            Viol::BadUtf8Pct => "v-pct-invalid-utf8",
            Viol::MalformedPct => "v-pct-malformed",
            Viol::BadMemo(_) => "v-bad-memo-base64",
            Viol::MemoTooLong => "v-memo-too-long",
            Viol::MemoTrailingBits => "v-memo-trailing-bits",
            Viol::Scheme(_) => "v-wrong-scheme",
            Viol::RawChar => "v-raw-illegal-char",
            Viol::BadName => "v-bad-param-name",
            Viol::BadAddress => "v-bad-address",
            Viol::Shape(_) => "v-ambiguous-shape",
        }
    }
    pub fn expect(self) -> Expect {
        match self {
            Viol::None => Expect::Valid,
            Viol::MalformedPct | Viol::MemoTrailingBits | Viol::Shape(_) => Expect::Ambiguous,
            _ => Expect::Invalid,
        }
    }
}

pub fn arb_viol() -> impl Strategy<Value = Viol> {
    prop_oneof![
        6 => Just(Viol::None),
        2 => Just(Viol::MissingAddress),
        2 => Just(Viol::Duplicate),
        1 => Just(Viol::IndexZero),
        2 => Just(Viol::LeadingZero),
        1 => Just(Viol::Index10000),
        3 => (0u8..BAD_AMOUNTS.len() as u8).prop_map(Viol::Amount),
        2 => Just(Viol::MemoNoMemoRecipient),
        2 => Just(Viol::ZeroTransparent),
        2 => Just(Viol::UnknownReq),
        1 => Just(Viol::BadUtf8Pct),
        1 => Just(Viol::MalformedPct),
        2 => (0u8..6).prop_map(Viol::BadMemo),
        1 => Just(Viol::MemoTooLong),
        1 => Just(Viol::MemoTrailingBits),
        1 => (0u8..SCHEMES.len() as u8).prop_map(Viol::Scheme),
        1 => Just(Viol::RawChar),
        1 => Just(Viol::BadName),
        1 => Just(Viol::BadAddress),
        2 => (0u8..8).prop_map(Viol::Shape),
    ]
}

pub fn arb_style() -> impl Strategy<Value = Style> {
    (
        any::<bool>(),
        prop_oneof![2 => Just(vec![]), 1 => vec(any::<u32>(), 16)],
        prop_oneof![3 => Just(0u8), 1 => 1u8..4],
        any::<bool>(),
        prop_oneof![3 => Just(0u8), 1 => 1u8..4],
        prop_oneof![3 => Just(0u8), 1 => 1u8..3],
    )
        .prop_map(|(lead, order, enc_mode, lower_hex, amt, memo)| Style { lead, order, enc_mode, lower_hex, amt, memo })
}

#[derive(Clone, Debug)]
pub struct GCase {
    /// shown in the Debug form of a failing case
    #[allow(dead_code)]
    pub net: NetworkType,
    pub pays: Vec<PayParts>,
    /// transparent-only, cannot receive a memo
    pub aux_t: ZcashAddress,
    /// memo-capable
    pub aux_z: ZcashAddress,
    /// UA with unknown receivers only: no memo, not transparent-only
    pub aux_u: ZcashAddress,
    pub style: Style,
    pub viol: Viol,
    pub sel: [u32; 4],
}

pub fn arb_gcase(viol: BoxedStrategy<Viol>) -> impl Strategy<Value = GCase> {
    arb_pays(4).prop_flat_map(move |(net, pays)| {
        (
            Just(net),
            Just(pays),
            arb_transparent_only(net),
            arb_memo_capable(net),
            arb_ua(net, 6),
            arb_style(),
            viol.clone(),
            proptest::array::uniform4(any::<u32>()),
        )
            .prop_map(|(net, pays, aux_t, aux_z, aux_u, style, viol, sel)| GCase { net, pays, aux_t, aux_z, aux_u, style, viol, sel })
    })
}

/// Canonical form of an address (regtest base58 kinds carry the testnet tag after one round trip).
pub fn normalise(a: &ZcashAddress) -> Option<ZcashAddress> {
    ZcashAddress::try_from_encoded(&a.encode()).ok()
}

/// Repairs generated parts into a request that is valid by the reference rules.
pub fn valid_base(pays: &[PayParts]) -> Option<RReq> {
    let mut out = RReq::new();
    for p in pays {
        if out.contains_key(&p.idx) {
            continue;
        }
        let addr = normalise(&p.addr)?;
        let memo = p.memo.as_ref().filter(|_| ref_can_memo(&addr)).map(|m| pad512(m));
        let amount = if ref_transparent_only(&addr) && p.amount == Some(0) { Some(1) } else { p.amount };
        let mut other: Vec<(String, String)> = vec![];
        for (n, v) in &p.other {
            if !other.iter().any(|(m, _)| m == n) {
                other.push((n.clone(), v.clone()));
            }
        }
        out.insert(p.idx, RPay { addr, amount, memo, label: p.label.clone(), message: p.message.clone(), other });
    }
    Some(out)
}

#[derive(Clone, Debug)]
struct P {
    idx: usize,
    idx_text: String,
    name: String,
    value: String,
}

fn idx_text(i: usize) -> String {
    if i == 0 {
        String::new()
    } else {
        format!(".{i}")
    }
}

fn amount_text(z: u64, style: u8) -> String {
    let min = ref_amount_min(z as u128);
    match style {
        1 => ref_amount_k(z as u128, 8),
        2 => format!("00{min}"),
        3 => {
            let digits = min.find('.').map(|i| min.len() - i - 1).unwrap_or(0);
            if digits < 8 {
                ref_amount_k(z as u128, digits + 1)
            } else {
                min
            }
        }
        _ => min,
    }
}

fn memo_text(m: &[u8], style: u8) -> String {
    match style {
        1 => ref_b64_encode(m),
        2 => {
            let s = strip_zeros(m);
            let n = (s.len() + 3).min(512);
            ref_b64_encode(&m[..n])
        }
        _ => ref_b64_encode(strip_zeros(m)),
    }
}

fn params_of(base: &RReq, st: &Style) -> Vec<P> {
    let mut v = vec![];
    for (i, p) in base {
        let it = idx_text(*i);
        let mut push = |name: &str, value: String| v.push(P { idx: *i, idx_text: it.clone(), name: name.to_string(), value });
        push("address", p.addr.encode());
        if let Some(a) = p.amount {
            push("amount", amount_text(a, st.amt));
        }
        if let Some(m) = &p.memo {
            push("memo", memo_text(m, st.memo));
        }
        if let Some(l) = &p.label {
            push("label", pct_encode(l, st.enc_mode, st.lower_hex));
        }
        if let Some(l) = &p.message {
            push("message", pct_encode(l, st.enc_mode, st.lower_hex));
        }
        for (n, val) in &p.other {
            push(n, pct_encode(val, st.enc_mode, st.lower_hex));
        }
    }
    if !st.order.is_empty() {
        let mut keyed: Vec<(u32, P)> = v.into_iter().enumerate().map(|(k, p)| (st.order[k % st.order.len()], p)).collect();
        keyed.sort_by_key(|(k, _)| *k);
        v = keyed.into_iter().map(|(_, p)| p).collect();
    }
    v
}

/// Renders the case. Returns the URI.
pub fn render(case: &GCase) -> Option<String> {
    let mut base = valid_base(&case.pays)?;
    let aux_t = normalise(&case.aux_t)?;
    let aux_z = normalise(&case.aux_z)?;
    let aux_u = normalise(&case.aux_u)?;
    let st = &case.style;
    let sel = case.sel;
    let mut scheme = "zcash:".to_string();
    let mut lead_ok = st.lead;
    let mut suffix = String::new();

    // structural preparation on the base request
    let keys: Vec<usize> = base.keys().copied().collect();
    let mut target = keys[pick_index(sel[0], keys.len())];
    match case.viol {
        Viol::IndexZero => {
            if !base.contains_key(&0) {
                let p = base.remove(&target).unwrap();
                base.insert(0, p);
            }
            target = 0;
            lead_ok = false;
        }
        Viol::LeadingZero => {
            if target == 0 {
                let p = base.remove(&0).unwrap();
                let mut k = 7;
                while base.contains_key(&k) {
                    k += 1;
                }
                base.insert(k, p);
                target = k;
            }
        }
        Viol::MemoNoMemoRecipient => {
            let p = base.get_mut(&target).unwrap();
            p.addr = if sel[1] % 4 == 0 { aux_u.clone() } else { aux_t.clone() };
            if p.amount == Some(0) {
                p.amount = Some(1);
            }
            p.memo = None;
        }
        Viol::ZeroTransparent => {
            let p = base.get_mut(&target).unwrap();
            p.addr = aux_t.clone();
            p.memo = None;
            p.amount = None;
        }
        Viol::BadMemo(_) | Viol::MemoTooLong | Viol::MemoTrailingBits => {
            let p = base.get_mut(&target).unwrap();
            if !ref_can_memo(&p.addr) {
                p.addr = aux_z.clone();
            }
            p.memo = None;
        }
        Viol::Amount(_) => {
            base.get_mut(&target).unwrap().amount = None;
        }
        _ => {}
    }

    let mut ps = params_of(&base, st);
    let tix = idx_text(target);
    let pos = |ps: &Vec<P>, s: u32| pick_index(s, ps.len() + 1);
    let of_target: Vec<usize> = ps.iter().enumerate().filter(|(_, p)| p.idx == target).map(|(k, _)| k).collect();

    match case.viol {
        Viol::None => {}
        Viol::MissingAddress => {
            if of_target.len() == 1 {
                let at = pos(&ps, sel[1]);
                ps.insert(at, P { idx: target, idx_text: tix.clone(), name: "amount".into(), value: "1".into() });
            }
            ps.retain(|p| !(p.idx == target && p.name == "address"));
        }
        Viol::Duplicate => {
            let k = of_target[pick_index(sel[1], of_target.len())];
            let mut d = ps[k].clone();
            if sel[2] % 2 == 0 {
                d.value = match d.name.as_str() {
                    "address" => d.value,
                    "amount" => "2".into(),
                    "memo" => "AAEC".into(),
                    _ => "x".into(),
                };
            }
            let at = pos(&ps, sel[3]);
            ps.insert(at, d);
        }
        Viol::IndexZero => {
            let one = sel[1] % 2 == 0;
            let k = of_target[pick_index(sel[2], of_target.len())];
            for (j, p) in ps.iter_mut().enumerate() {
                if p.idx == 0 && (!one || j == k) {
                    p.idx_text = ".0".into();
                }
            }
        }
        Viol::LeadingZero => {
            let z = ["0", "00", "000"][(sel[1] % 3) as usize];
            let one = sel[2] % 2 == 0;
            let k = of_target[pick_index(sel[3], of_target.len())];
            for (j, p) in ps.iter_mut().enumerate() {
                if p.idx == target && (!one || j == k) {
                    p.idx_text = format!(".{z}{target}");
                }
            }
        }
        Viol::Index10000 => {
            let t = [".10000", ".65536", ".99999", ".100000", ".18446744073709551617"][(sel[1] % 5) as usize];
            for p in ps.iter_mut() {
                if p.idx == target {
                    p.idx_text = t.into();
                }
            }
            if target == 0 {
                lead_ok = false;
            }
        }
        Viol::Amount(k) => {
            let at = pos(&ps, sel[1]);
            ps.insert(at, P { idx: target, idx_text: tix.clone(), name: "amount".into(), value: BAD_AMOUNTS[k as usize].into() });
        }
        Viol::MemoNoMemoRecipient => {
            let at = pos(&ps, sel[2]);
            let m = ["", "AA", "VGhpcyBpcyBhIHNpbXBsZSBtZW1vLg", "9g"][(sel[3] % 4) as usize];
            ps.insert(at, P { idx: target, idx_text: tix.clone(), name: "memo".into(), value: m.into() });
        }
        Viol::ZeroTransparent => {
            let at = pos(&ps, sel[1]);
            let z = ["0", "0.0", "0.00000000", "000", "00.000"][(sel[2] % 5) as usize];
            ps.insert(at, P { idx: target, idx_text: tix.clone(), name: "amount".into(), value: z.into() });
        }
        Viol::UnknownReq => {
            let at = pos(&ps, sel[1]);
            let n = ["req-foo", "req-x", "req-amount", "req-", "req-Memo+1"][(sel[2] % 5) as usize];
            ps.insert(at, P { idx: target, idx_text: tix.clone(), name: n.into(), value: ["", "1", "a%20b"][(sel[3] % 3) as usize].into() });
        }
        Viol::BadUtf8Pct | Viol::MalformedPct | Viol::RawChar => {
            let bad: &str = match case.viol {
                Viol::BadUtf8Pct => ["%FF", "%C3", "%ED%A0%80", "%C0%AF", "%F4%90%80%80", "a%80b", "%e2%82"][(sel[1] % 7) as usize],
                Viol::MalformedPct => ["%", "%G1", "%1", "a%", "%%41", "%4g", "%é"][(sel[1] % 7) as usize],
                _ => [" ", "a b", "\"", "#", "<", "é", "\u{0}", "/", "\\", "=", "a=b", "[", "🦄", "\n", "?"][(sel[1] % 15) as usize],
            };
            let name = ["label", "message", "note"][(sel[2] % 3) as usize];
            // replace the existing parameter of that name (never create a duplicate)
            if let Some(p) = ps.iter_mut().find(|p| p.idx == target && p.name == name) {
                p.value = format!("ok{bad}");
            } else {
                let at = pos(&ps, sel[3]);
                ps.insert(at, P { idx: target, idx_text: tix.clone(), name: name.into(), value: format!("{bad}ok") });
            }
        }
        Viol::BadMemo(k) => {
            let v = match k {
                0 => "AAE!".to_string(),
                1 => "AA+A".to_string(),   // standard alphabet '+'
                2 => "AAEC=".to_string(),  // '=' padding
                3 => "AAECA".to_string(),  // length 1 mod 4
                4 => "AA.A".to_string(),
                _ => "AA%3D".to_string(),
            };
            let at = pos(&ps, sel[1]);
            ps.insert(at, P { idx: target, idx_text: tix.clone(), name: "memo".into(), value: v });
        }
        Viol::MemoTooLong => {
            let n = [513usize, 514, 515, 600, 1024][(sel[1] % 5) as usize];
            let fill = [0u8, 1, 0xFF][(sel[2] % 3) as usize];
            let at = pos(&ps, sel[3]);
            ps.insert(at, P { idx: target, idx_text: tix.clone(), name: "memo".into(), value: ref_b64_encode(&vec![fill; n]) });
        }
        Viol::MemoTrailingBits => {
            let v = ["QR", "QUJ", "AAEB_3_"][(sel[1] % 3) as usize]; // non-zero unused bits
            let at = pos(&ps, sel[3]);
            ps.insert(at, P { idx: target, idx_text: tix.clone(), name: "memo".into(), value: v.into() });
        }
        Viol::Scheme(k) => scheme = SCHEMES[k as usize].to_string(),
        Viol::BadName => {
            let n = ["1abc", "a_b", "", "a b", "-a", "+", "é", "a~", "9"][(sel[1] % 9) as usize];
            let at = pos(&ps, sel[2]);
            ps.insert(at, P { idx: target, idx_text: tix.clone(), name: n.into(), value: "v".into() });
        }
        Viol::BadAddress => {
            let k = *of_target.iter().find(|k| ps[**k].name == "address").unwrap();
            let mut cs: Vec<char> = ps[k].value.chars().collect();
            match sel[1] % 4 {
                0 => {
                    // substitute one character in the data/checksum part
                    let at = cs.len() - 1 - pick_index(sel[2], cs.len().min(12));
                    let c = cs[at];
                    cs[at] = if c == 'q' { 'p' } else if c == 'Q' { 'P' } else if c.is_ascii_digit() { 'q' } else { 'q' };
                    if cs[at] == c {
                        cs[at] = 'z';
                    }
                }
                1 => {
                    cs.pop();
                }
                2 => cs.truncate(cs.len() / 2),
                _ => cs = "notanaddress".chars().collect(),
            }
            ps[k].value = cs.into_iter().collect();
        }
        Viol::Shape(k) => match k {
            0 => suffix = "&".into(),
            1 => {
                let at = pos(&ps, sel[1]);
                ps.insert(at, P { idx: 0, idx_text: String::new(), name: String::new(), value: String::new() });
                // rendered as an empty item below
            }
            2 => {
                // parameter without "=value"
                let at = pos(&ps, sel[1]);
                ps.insert(at, P { idx: target, idx_text: tix.clone(), name: "flag".into(), value: "\u{1}".into() });
            }
            3 => scheme = "ZCASH:".into(),
            4 => {
                let at = pos(&ps, sel[1]);
                let n = ["Amount", "LABEL", "Memo", "Req-x", "ADDRESS"][(sel[2] % 5) as usize];
                ps.insert(at, P { idx: target, idx_text: tix.clone(), name: n.into(), value: "1".into() });
            }
            5 => suffix = "?".into(), // only meaningful without parameters; otherwise a raw '?' in a value
            6 => scheme = "zcash: ".into(),
            _ => scheme = "Zcash:".into(),
        },
    }

    // lead-address form
    let mut lead = String::new();
    if lead_ok {
        if let Some(k) = ps.iter().position(|p| p.name == "address" && p.idx == 0 && p.idx_text.is_empty()) {
            lead = ps.remove(k).value;
        }
    }
    let items: Vec<String> = ps
        .iter()
        .map(|p| {
            if p.name.is_empty() && p.value.is_empty() && case.viol == Viol::Shape(1) {
                String::new()
            } else if p.value == "\u{1}" {
                format!("{}{}", p.name, p.idx_text)
            } else {
                format!("{}{}={}", p.name, p.idx_text, p.value)
            }
        })
        .collect();
    let mut uri = format!("{scheme}{lead}");
    if !items.is_empty() {
        uri.push('?');
        uri.push_str(&items.join("&"));
    }
    uri.push_str(&suffix);
    Some(uri)
}

// ---------------------------------------------------------------------------------------------
// String-level mutation (for the no-panic / safety sub-check)
// ---------------------------------------------------------------------------------------------

#[derive(Clone, Debug)]
pub struct MutOp {
    pub kind: u8,
    pub pos: u32,
    pub pos2: u32,
    pub tok: u32,
}

const TOKENS: &[&str] = &[
    "%", "&", "=", ".0", ".1", ".01", ".10000", "amount=", "amount=0", "req-x=1", "address=", "?", "#", "\0", "🦄", "%FF",
    "%41", "+", "-", "1e3", ".", "0", "9", "memo=", "AAAA", "label=", "&&", " ", "zcash:", "\u{301}", "message=", "&amount.1=1",
    "%00", "é", "/", ":", "@", "~", "A", "q", "1", "\u{a0}", "\t",
];

pub fn arb_mutops() -> impl Strategy<Value = Vec<MutOp>> {
    vec(
        (0u8..9, any::<u32>(), any::<u32>(), any::<u32>()).prop_map(|(kind, pos, pos2, tok)| MutOp { kind, pos, pos2, tok }),
        1..4,
    )
}

/// Character positions that are not inside an address value (lead address or `address[.i]=` value).
fn hot_positions(cs: &[char]) -> Vec<usize> {
    let s: String = cs.iter().collect();
    let mut cold = vec![false; cs.len() + 1];
    // work on char indices
    let mut spans: Vec<(usize, usize)> = vec![];
    let chars = cs;
    let find = |from: usize, pat: &str| -> Option<usize> {
        let p: Vec<char> = pat.chars().collect();
        (from..chars.len().saturating_sub(p.len()) + 1).find(|i| chars[*i..].starts_with(&p))
    };
    if s.starts_with("zcash:") {
        let end = chars.iter().position(|c| *c == '?').unwrap_or(chars.len());
        if end > 8 {
            spans.push((8, end - 1));
        }
    }
    let mut from = 0;
    while let Some(i) = find(from, "address") {
        let eq = (i..chars.len()).find(|k| chars[*k] == '=' || chars[*k] == '&');
        match eq {
            Some(k) if chars[k] == '=' => {
                let end = (k..chars.len()).find(|j| chars[*j] == '&').unwrap_or(chars.len());
                if end > k + 4 {
                    spans.push((k + 3, end - 1));
                }
                from = end;
            }
            _ => from = i + 7,
        }
        if from >= chars.len() {
            break;
        }
    }
    for (a, b) in spans {
        for k in a..b.min(cold.len()) {
            cold[k] = true;
        }
    }
    (0..=cs.len()).filter(|k| !cold[*k]).collect()
}

pub fn mutate(s: &str, ops: &[MutOp]) -> String {
    let mut cs: Vec<char> = s.chars().collect();
    for op in ops {
        let n = cs.len();
        let tok: Vec<char> = TOKENS[pick_index(op.tok, TOKENS.len())].chars().collect();
        // three out of four operations aim outside the (long, checksummed) address strings
        let hot = hot_positions(&cs);
        let aim = |sel: u32| {
            if op.tok % 4 != 0 && !hot.is_empty() {
                hot[pick_index(sel, hot.len())]
            } else {
                pick_index(sel, n + 1)
            }
        };
        let at = aim(op.pos);
        let at2 = if op.kind == 4 || op.kind == 6 { (at + (op.pos2 % 24) as usize).min(n) } else { aim(op.pos2) };
        let (lo, hi) = (at.min(at2), at.max(at2));
        match op.kind {
            0 if n > 0 => {
                cs.remove(at.min(n - 1));
            }
            1 => {
                cs.splice(at..at, tok);
            }
            2 if n > 0 => {
                let a = at.min(n - 1);
                cs.splice(a..a + 1, tok);
            }
            3 => cs.truncate(at),
            4 => {
                let seg: Vec<char> = cs[lo..hi.min(lo + 40)].to_vec();
                cs.splice(hi..hi, seg);
            }
            5 => {
                // swap two '&'-separated segments of the query
                let joined: String = cs.iter().collect();
                if let Some(q) = joined.find('?') {
                    let mut segs: Vec<&str> = joined[q + 1..].split('&').collect();
                    if segs.len() >= 2 {
                        let a = pick_index(op.pos, segs.len());
                        let b = pick_index(op.pos2, segs.len());
                        segs.swap(a, b);
                        cs = format!("{}?{}", &joined[..q], segs.join("&")).chars().collect();
                    }
                }
            }
            6 => {
                cs.drain(lo..hi.min(lo + 20));
            }
            7 if n > 0 => {
                let a = at.min(n - 1);
                let c = cs[a];
                cs[a] = if c.is_ascii_lowercase() { c.to_ascii_uppercase() } else { c.to_ascii_lowercase() };
            }
            8 if n > 0 => {
                // replace a digit by another digit
                if let Some(k) = (0..n).map(|d| (at + d) % n).find(|k| cs[*k].is_ascii_digit()) {
                    cs[k] = char::from(b'0' + (op.tok % 10) as u8);
                }
            }
            _ => {}
        }
    }
    cs.into_iter().collect()
}

pub fn arb_tail() -> impl Strategy<Value = String> {
    prop_oneof![
        "[a-z0-9.=&%+-]{0,40}",
        "(amount|memo|label|message|req-a|x|amount\\.1|label\\.0)(\\.[0-9]{1,5})?=[A-Za-z0-9%.+_-]{0,12}(&(amount|memo|label|message|y)(\\.[0-9]{1,5})?=[A-Za-z0-9%.+_-]{0,12}){0,3}",
        "amount=[0-9]{0,9}(\\.[0-9]{0,10})?",
        "memo=[A-Za-z0-9_-]{0,24}",
        any::<String>(),
        select(vec!["", "&", "amount=1&", "=", "a", "a=", "a.1=", "label=%", "amount=0"]).prop_map(String::from),
    ]
}

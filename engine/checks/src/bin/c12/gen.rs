//! Generators for C12: addresses of every kind, Unicode text, amounts, memos, payment parts.

use proptest::collection::vec;
use proptest::prelude::*;
use proptest::sample::select;

use zcash_address::{
    testing::arb_address,
    unified::{self, Encoding, Receiver},
    ToAddress, ZcashAddress,
};
use zcash_protocol::consensus::NetworkType;

use crate::reference::{KNOWN, MAX_MONEY};

pub const COIN64: u64 = 100_000_000;

pub fn arb_net() -> impl Strategy<Value = NetworkType> {
    select(vec![NetworkType::Main, NetworkType::Test, NetworkType::Regtest])
}

fn bytes<const N: usize>() -> impl Strategy<Value = [u8; N]> {
    vec(any::<u8>(), N).prop_map(|v| {
        let mut a = [0u8; N];
        a.copy_from_slice(&v);
        a
    })
}

fn arb_unknown_receiver() -> impl Strategy<Value = Receiver> {
    (
        prop_oneof![Just(4u32), Just(0xFFFAu32), Just(0xFFFFu32), 5u32..0x0200_0000],
        vec(any::<u8>(), 32..64),
    )
        .prop_map(|(typecode, data)| Receiver::Unknown { typecode, data })
}

/// ua_kind: 0 orchard, 1 sapling, 2 sapling+orchard, 3 t+sapling, 4 t+orchard+sapling,
/// 5 t+unknown (transparent-only, no memo), 6 unknown only (no memo, not transparent-only), 7 orchard+unknown
pub fn arb_ua(net: NetworkType, ua_kind: u8) -> BoxedStrategy<ZcashAddress> {
    (bytes::<43>(), bytes::<43>(), bytes::<20>(), any::<bool>(), arb_unknown_receiver())
        .prop_map(move |(o, s, t, p2sh, unk)| {
            let tr = if p2sh { Receiver::P2sh(t) } else { Receiver::P2pkh(t) };
            let items = match ua_kind {
                0 => vec![Receiver::Orchard(o)],
                1 => vec![Receiver::Sapling(s)],
                2 => vec![Receiver::Sapling(s), Receiver::Orchard(o)],
                3 => vec![tr, Receiver::Sapling(s)],
                4 => vec![tr, Receiver::Sapling(s), Receiver::Orchard(o)],
                5 => vec![tr, unk],
                6 => vec![unk],
                _ => vec![Receiver::Orchard(o), unk],
            };
            let ua = unified::Address::try_from_items(items).expect("valid receiver set");
            ZcashAddress::from_unified(net, ua)
        })
        .boxed()
}

/// Addresses that cannot receive a memo and are transparent-only.
pub fn arb_transparent_only(net: NetworkType) -> BoxedStrategy<ZcashAddress> {
    prop_oneof![
        bytes::<20>().prop_map(move |d| ZcashAddress::from_transparent_p2pkh(net, d)),
        bytes::<20>().prop_map(move |d| ZcashAddress::from_transparent_p2sh(net, d)),
        bytes::<20>().prop_map(move |d| ZcashAddress::from_tex(net, d)),
        arb_ua(net, 5),
    ]
    .boxed()
}

/// Addresses that can receive a memo.
pub fn arb_memo_capable(net: NetworkType) -> BoxedStrategy<ZcashAddress> {
    prop_oneof![
        bytes::<43>().prop_map(move |d| ZcashAddress::from_sapling(net, d)),
        bytes::<64>().prop_map(move |d| ZcashAddress::from_sprout(net, d)),
        (0u8..5).prop_flat_map(move |k| arb_ua(net, k)),
        arb_ua(net, 7),
    ]
    .boxed()
}

/// Any recipient kind: the repository's own strategy (raw, possibly non-canonical network tag for
/// regtest base58 kinds) and directly constructed ones with controlled receiver sets.
pub fn arb_addr(net: NetworkType) -> BoxedStrategy<ZcashAddress> {
    prop_oneof![
        4 => arb_address(net),
        2 => arb_transparent_only(net),
        2 => arb_memo_capable(net),
        1 => arb_ua(net, 6),
    ]
    .boxed()
}

// ---------------------------------------------------------------------------------------------
// Text
// ---------------------------------------------------------------------------------------------

pub fn arb_char() -> impl Strategy<Value = char> {
    let alnum: Vec<char> = "abcXYZ019".chars().collect();
    let delims: Vec<char> = ":/?#[]@!$&'()*+,;=%& =+\"<>\\^`{|}~.-_".chars().collect();
    prop_oneof![
        4 => select(alnum),
        5 => select(delims),
        1 => select(vec!['\0', '\n', '\r', '\t', '\x7f', '\x1b', '\u{85}']),
        2 => select(vec!['é', 'ß', 'Ω', '中', '\u{a0}', '\u{2028}', '\u{feff}', '\u{fffd}', '\u{ffff}', '\u{d7ff}', '\u{e000}', 'ñ', 'Ж', 'ש', 'ع', 'ก']),
        2 => select(vec!['🦄', '𝔘', '\u{10ffff}', '\u{1f3f4}', '\u{e0067}', '\u{10000}', '🎉']),
        2 => select(vec!['\u{301}', '\u{308}', '\u{200d}', '\u{20e3}', '\u{fe0f}', '\u{336}', '\u{1ab0}']),
        2 => any::<char>(),
    ]
}

fn arb_fragment() -> impl Strategy<Value = String> {
    prop_oneof![
        6 => arb_char().prop_map(|c| c.to_string()),
        2 => select(vec![
            "%41", "%zz", "%", "%2", "%25", "%%", "&amount=1", "=", "+", " ", "a b", "%F0%9F", "?x=y", "#frag",
            "e\u{301}", "\r\n", "&", "&address=x", "%00", "%e2%82%ac", "zcash:", ".1", "req-",
        ])
        .prop_map(String::from),
    ]
}

pub fn arb_text() -> impl Strategy<Value = String> {
    prop_oneof![
        7 => vec(arb_fragment(), 0..8).prop_map(|v| v.concat()),
        1 => Just(String::new()),
        1 => vec(arb_char(), 20..80).prop_map(|v| v.into_iter().collect()),
        1 => any::<String>(),
    ]
}

pub fn fix_name(n: String) -> String {
    if KNOWN.contains(&n.as_str()) || n.starts_with("req-") {
        format!("x{n}")
    } else {
        n
    }
}

pub fn arb_param_name() -> impl Strategy<Value = String> {
    prop_oneof![
        3 => "[a-zA-Z][a-zA-Z0-9+-]{0,8}".prop_map(fix_name),
        1 => select(vec![
            "Amount", "reqfoo", "re-q", "x-req-a", "a", "A+", "label2", "addr", "memo-", "r", "Address", "MEMO",
            "amount+", "message-1", "req", "reQ-x", "address", "amount", "memo", "label", "message", "req-x",
        ])
        .prop_map(|s| fix_name(s.to_string())),
    ]
}

// ---------------------------------------------------------------------------------------------
// Amounts
// ---------------------------------------------------------------------------------------------

/// Every power of ten ±1, d·10^k, coin/fraction patterns with trailing zeros; all <= MAX_MONEY.
pub fn structured_amounts() -> Vec<u64> {
    let mut v: Vec<u64> = vec![0, 1, 2, MAX_MONEY, MAX_MONEY - 1, MAX_MONEY - 2, MAX_MONEY - COIN64, MAX_MONEY - COIN64 + 1];
    let mut p: u64 = 1;
    for _k in 0..=15 {
        for d in 1..=9u64 {
            v.push(d * p);
            v.push(d * p + 1);
            v.push((d * p).saturating_sub(1));
            // two-digit patterns d0…0e0…0
            let mut q = 1u64;
            while q < p {
                v.push(d * p + q);
                v.push(d * p + 9 * q);
                q *= 10;
            }
        }
        p *= 10;
    }
    let fracs: Vec<u64> = {
        let mut f = vec![0u64, 99_999_999, 12_345_678, 10_000_001, 50_000_000, 1, 9, 10_203_040, 99_999_990, 9_999_999];
        let mut q = 1u64;
        for _ in 0..8 {
            f.push(q);
            f.push(5 * q);
            q *= 10;
        }
        f
    };
    for c in [0u64, 1, 9, 10, 11, 99, 100, 101, 1000, 20_999_999, 20_999_998, 12_345_678, 10_000_000, 2_100_000] {
        for f in &fracs {
            v.push(c * COIN64 + f);
        }
    }
    v.retain(|x| *x <= MAX_MONEY);
    v.sort();
    v.dedup();
    v
}

pub fn arb_amount() -> impl Strategy<Value = u64> {
    prop_oneof![
        3 => select(structured_amounts()),
        3 => 0..=MAX_MONEY,
        2 => (0u64..=20_999_999, 0u32..8, 1u64..10).prop_map(|(c, k, d)| c * COIN64 + d * 10u64.pow(k)),
        1 => 0u64..1000,
        1 => (0u64..1000).prop_map(|d| MAX_MONEY - d),
    ]
}

// ---------------------------------------------------------------------------------------------
// Memos
// ---------------------------------------------------------------------------------------------

pub fn arb_memo_bytes() -> impl Strategy<Value = Vec<u8>> {
    prop_oneof![
        3 => (0usize..=512).prop_flat_map(|n| vec(any::<u8>(), n)),
        2 => arb_text().prop_map(|s| {
            let mut b = s.into_bytes();
            b.truncate(512);
            b
        }),
        2 => (vec(1u8..=255, 0..200), 0usize..64).prop_map(|(mut p, z)| {
            p.extend(std::iter::repeat(0).take(z));
            p
        }),
        1 => (0usize..=512).prop_map(|n| vec![0u8; n]),
        1 => Just(vec![0xF6u8]),
        1 => vec(any::<u8>(), 511).prop_map(|mut v| {
            v.insert(0, 0xFF);
            v
        }),
        1 => vec(1u8..=255, 512),
        1 => (select(vec![0xF5u8, 0xF6, 0xF7, 0xFE, 0xFF, 0xF4, 0x00, 0xC3, 0x80]), vec(any::<u8>(), 0..40)).prop_map(|(b, mut v)| {
            v.insert(0, b);
            v
        }),
        1 => select(vec![510usize, 511, 512]).prop_flat_map(|n| vec(any::<u8>(), n)),
    ]
}

// ---------------------------------------------------------------------------------------------
// Payment parts / cases
// ---------------------------------------------------------------------------------------------

#[derive(Clone, Debug)]
pub struct PayParts {
    pub idx: usize,
    pub addr: ZcashAddress,
    pub amount: Option<u64>,
    pub memo: Option<Vec<u8>>,
    pub label: Option<String>,
    pub message: Option<String>,
    pub other: Vec<(String, String)>,
}

pub fn arb_index() -> impl Strategy<Value = usize> {
    prop_oneof![
        2 => Just(0usize),
        1 => Just(1usize),
        1 => Just(9999usize),
        2 => 0usize..10,
        3 => 0usize..=9999,
        1 => select(vec![9usize, 10, 99, 100, 999, 1000, 9998]),
    ]
}

pub fn arb_pay(net: NetworkType) -> impl Strategy<Value = PayParts> {
    (
        arb_index(),
        arb_addr(net),
        proptest::option::weighted(0.85, arb_amount()),
        proptest::option::weighted(0.5, arb_memo_bytes()),
        proptest::option::of(arb_text()),
        proptest::option::of(arb_text()),
        vec((arb_param_name(), arb_text()), 0..4),
    )
        .prop_map(|(idx, addr, amount, memo, label, message, other)| PayParts { idx, addr, amount, memo, label, message, other })
}

pub fn arb_pays(max: usize) -> impl Strategy<Value = (NetworkType, Vec<PayParts>)> {
    arb_net().prop_flat_map(move |net| {
        let n = prop_oneof![3 => 1usize..=2, 3 => 1usize..=4, 1 => 1usize..=max];
        (Just(net), n.prop_flat_map(move |n| vec(arb_pay(net), n)))
    })
}

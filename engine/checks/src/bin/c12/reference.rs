//! Reference model for C12, written from the ZIP 321 text (ABNF + prose) and the rustdoc of the
//! `zip321` / `zcash_address` / `zcash_protocol::memo` public items. Shares only the address string
//! codec (`ZcashAddress::try_from_encoded` / `encode` / `convert`) with the code under test.

use std::collections::{BTreeMap, BTreeSet};

use zcash_address::{
    unified::{self, Container, Receiver},
    ConversionError, TryFromAddress, ZcashAddress,
};
use zcash_protocol::consensus::NetworkType;
use zip321::TransactionRequest;

pub const COIN: u128 = 100_000_000;
pub const MAX_MONEY: u64 = 21_000_000 * 100_000_000;

// ---------------------------------------------------------------------------------------------
// Address classification (independent of can_receive_memo / is_transparent_only)
// ---------------------------------------------------------------------------------------------

#[derive(Clone, Copy, Debug, PartialEq, Eq)]
pub enum RKind {
    Sprout,
    Sapling,
    P2pkh,
    P2sh,
    Tex,
    Unified { sapling: bool, orchard: bool, transparent: bool },
}

#[derive(Clone, Copy, Debug, PartialEq, Eq)]
pub struct RAddr {
    pub net: NetworkType,
    pub kind: RKind,
}

impl TryFromAddress for RAddr {
    type Error = ();
    fn try_from_sprout(net: NetworkType, _d: [u8; 64]) -> Result<Self, ConversionError<()>> {
        Ok(RAddr { net, kind: RKind::Sprout })
    }
    fn try_from_sapling(net: NetworkType, _d: [u8; 43]) -> Result<Self, ConversionError<()>> {
        Ok(RAddr { net, kind: RKind::Sapling })
    }
    fn try_from_unified(net: NetworkType, data: unified::Address) -> Result<Self, ConversionError<()>> {
        let (mut sapling, mut orchard, mut transparent) = (false, false, false);
        for r in data.items_as_parsed() {
            match r {
                Receiver::Sapling(_) => sapling = true,
                Receiver::Orchard(_) => orchard = true,
                Receiver::P2pkh(_) | Receiver::P2sh(_) => transparent = true,
                Receiver::Unknown { .. } => {}
            }
        }
        Ok(RAddr { net, kind: RKind::Unified { sapling, orchard, transparent } })
    }
    fn try_from_transparent_p2pkh(net: NetworkType, _d: [u8; 20]) -> Result<Self, ConversionError<()>> {
        Ok(RAddr { net, kind: RKind::P2pkh })
    }
    fn try_from_transparent_p2sh(net: NetworkType, _d: [u8; 20]) -> Result<Self, ConversionError<()>> {
        Ok(RAddr { net, kind: RKind::P2sh })
    }
    fn try_from_tex(net: NetworkType, _d: [u8; 20]) -> Result<Self, ConversionError<()>> {
        Ok(RAddr { net, kind: RKind::Tex })
    }
}

pub fn classify(a: &ZcashAddress) -> RAddr {
    a.clone().convert::<RAddr>().expect("every address kind is handled")
}

/// A memo can be delivered only to a shielded recipient: Sprout, Sapling, or a unified address with
/// a Sapling or Orchard receiver (ZIP 321 "memo"; rustdoc of `can_receive_memo`).
pub fn ref_can_memo(a: &ZcashAddress) -> bool {
    match classify(a).kind {
        RKind::Sprout | RKind::Sapling => true,
        RKind::Unified { sapling, orchard, .. } => sapling || orchard,
        RKind::P2pkh | RKind::P2sh | RKind::Tex => false,
    }
}

/// rustdoc of `is_transparent_only`: p2pkh/p2sh/TEX, or a UA with a transparent receiver and no
/// Sapling/Orchard receiver.
pub fn ref_transparent_only(a: &ZcashAddress) -> bool {
    match classify(a).kind {
        RKind::P2pkh | RKind::P2sh | RKind::Tex => true,
        RKind::Unified { sapling, orchard, transparent } => transparent && !(sapling || orchard),
        RKind::Sprout | RKind::Sapling => false,
    }
}

pub fn kind_label(a: &ZcashAddress) -> &'static str {
    match classify(a).kind {
        RKind::Sprout => "addr-sprout",
        RKind::Sapling => "addr-sapling",
        RKind::P2pkh => "addr-p2pkh",
        RKind::P2sh => "addr-p2sh",
        RKind::Tex => "addr-tex",
        RKind::Unified { sapling, orchard, transparent } => {
            if sapling || orchard {
                if transparent {
                    "addr-ua-shielded+t"
                } else {
                    "addr-ua-shielded"
                }
            } else if transparent {
                "addr-ua-t+unknown"
            } else {
                "addr-ua-unknown-only"
            }
        }
    }
}

// ---------------------------------------------------------------------------------------------
// Request model
// ---------------------------------------------------------------------------------------------

#[derive(Clone, Debug, PartialEq, Eq)]
pub struct RPay {
    pub addr: ZcashAddress,
    pub amount: Option<u64>,
    /// full 512-byte memo field
    pub memo: Option<Vec<u8>>,
    pub label: Option<String>,
    pub message: Option<String>,
    pub other: Vec<(String, String)>,
}

pub type RReq = BTreeMap<usize, RPay>;

pub fn pad512(b: &[u8]) -> Vec<u8> {
    let mut v = b.to_vec();
    v.resize(512, 0);
    v
}

pub fn strip_zeros(b: &[u8]) -> &[u8] {
    let mut n = b.len();
    while n > 0 && b[n - 1] == 0 {
        n -= 1;
    }
    &b[..n]
}

pub fn to_rreq(req: &TransactionRequest) -> RReq {
    req.payments()
        .iter()
        .map(|(i, p)| {
            (
                *i,
                RPay {
                    addr: p.recipient_address().clone(),
                    amount: p.amount().map(u64::from),
                    memo: p.memo().map(|m| m.as_array().to_vec()),
                    label: p.label().cloned(),
                    message: p.message().cloned(),
                    other: p.other_params().to_vec(),
                },
            )
        })
        .collect()
}

// ---------------------------------------------------------------------------------------------
// Decimal amounts: amount = 1*DIGIT [ "." 1*8DIGIT ], value <= 21000000
// ---------------------------------------------------------------------------------------------

/// Exact decimal-string -> zatoshis, digit by digit. `None` = not a valid ZIP 321 amount.
pub fn ref_parse_amount(s: &str) -> Option<u64> {
    let (w, f) = match s.find('.') {
        Some(i) => (&s[..i], Some(&s[i + 1..])),
        None => (s, None),
    };
    if w.is_empty() || !w.bytes().all(|b| b.is_ascii_digit()) {
        return None;
    }
    if let Some(f) = f {
        if f.is_empty() || f.len() > 8 || !f.bytes().all(|b| b.is_ascii_digit()) {
            return None;
        }
    }
    let mut total: u128 = 0;
    for b in w.bytes() {
        total = total * 10 + (b - b'0') as u128;
        if total > 21_000_000 {
            return None;
        }
    }
    total *= COIN;
    if let Some(f) = f {
        let mut scale = COIN / 10;
        for b in f.bytes() {
            total += (b - b'0') as u128 * scale;
            scale /= 10;
        }
    }
    if total > MAX_MONEY as u128 {
        None
    } else {
        Some(total as u64)
    }
}

/// Shortest decimal form of `z` zatoshis in ZEC.
pub fn ref_amount_min(z: u128) -> String {
    let c = z / COIN;
    let f = z % COIN;
    if f == 0 {
        format!("{c}")
    } else {
        let mut fs = format!("{f:08}");
        while fs.ends_with('0') {
            fs.pop();
        }
        format!("{c}.{fs}")
    }
}

/// Decimal form with exactly `k` fractional digits (k >= the minimal number needed), `k` in 1..
pub fn ref_amount_k(z: u128, k: usize) -> String {
    let min = ref_amount_min(z);
    let (w, f) = match min.find('.') {
        Some(i) => (min[..i].to_string(), min[i + 1..].to_string()),
        None => (min.clone(), String::new()),
    };
    let mut f = f;
    while f.len() < k {
        f.push('0');
    }
    format!("{w}.{f}")
}

// ---------------------------------------------------------------------------------------------
// base64url (RFC 4648 §5) without padding
// ---------------------------------------------------------------------------------------------

const B64: &[u8; 64] = b"ABCDEFGHIJKLMNOPQRSTUVWXYZabcdefghijklmnopqrstuvwxyz0123456789-_";

pub fn ref_b64_encode(data: &[u8]) -> String {
    let mut out = String::new();
    let mut acc: u32 = 0;
    let mut bits = 0;
    for b in data {
        acc = (acc << 8) | *b as u32;
        bits += 8;
        while bits >= 6 {
            bits -= 6;
            out.push(B64[((acc >> bits) & 63) as usize] as char);
        }
    }
    if bits > 0 {
        out.push(B64[((acc << (6 - bits)) & 63) as usize] as char);
    }
    out
}

/// Ok((bytes, canonical)) — `canonical` is false when the unused trailing bits are not zero.
pub fn ref_b64_decode(s: &str) -> Result<(Vec<u8>, bool), ()> {
    if s.len() % 4 == 1 {
        return Err(());
    }
    let mut out = vec![];
    let mut acc: u32 = 0;
    let mut bits = 0;
    for c in s.bytes() {
        let v = B64.iter().position(|x| *x == c).ok_or(())? as u32;
        acc = ((acc << 6) | v) & 0xFFFF;
        bits += 6;
        if bits >= 8 {
            bits -= 8;
            out.push(((acc >> bits) & 0xFF) as u8);
        }
    }
    let canonical = bits == 0 || (acc & ((1 << bits) - 1)) == 0;
    Ok((out, canonical))
}

// ---------------------------------------------------------------------------------------------
// qchar / percent-encoding
// ---------------------------------------------------------------------------------------------

pub fn is_plain_qchar(c: char) -> bool {
    c.is_ascii_alphanumeric() || "-._~".contains(c) || "!$'()*+,;".contains(c) || c == ':' || c == '@'
}

#[derive(Clone, Copy, PartialEq, Eq, Debug)]
pub enum ValSyn {
    Ok,
    MalformedPct,
    Bad,
}

pub fn value_syntax(v: &str) -> ValSyn {
    let cs: Vec<char> = v.chars().collect();
    let mut malformed = false;
    let mut i = 0;
    while i < cs.len() {
        let c = cs[i];
        if c == '%' {
            if i + 2 < cs.len() && cs[i + 1].is_ascii_hexdigit() && cs[i + 2].is_ascii_hexdigit() {
                i += 3;
                continue;
            }
            malformed = true;
        } else if !is_plain_qchar(c) {
            return ValSyn::Bad;
        }
        i += 1;
    }
    if malformed {
        ValSyn::MalformedPct
    } else {
        ValSyn::Ok
    }
}

/// Percent-decoding; a '%' not followed by two hex digits is kept literally.
pub fn pct_decode(v: &str) -> Vec<u8> {
    let b = v.as_bytes();
    let mut out = vec![];
    let mut i = 0;
    let hex = |c: u8| (c as char).to_digit(16).map(|d| d as u8);
    while i < b.len() {
        if b[i] == b'%' && i + 2 < b.len() {
            if let (Some(h), Some(l)) = (hex(b[i + 1]), hex(b[i + 2])) {
                out.push(h * 16 + l);
                i += 3;
                continue;
            }
        }
        out.push(b[i]);
        i += 1;
    }
    out
}

/// mode 0: escape exactly what is not a plain qchar; 1: escape every non-alphanumeric; 2: escape
/// everything; 3: minimal + every third character additionally.
pub fn pct_encode(s: &str, mode: u8, lower_hex: bool) -> String {
    let mut out = String::new();
    for (k, c) in s.chars().enumerate() {
        let must = !is_plain_qchar(c);
        let enc = must
            || match mode {
                1 => !c.is_ascii_alphanumeric(),
                2 => true,
                3 => k % 3 == 0,
                _ => false,
            };
        if enc {
            let mut buf = [0u8; 4];
            for b in c.encode_utf8(&mut buf).bytes() {
                if lower_hex {
                    out.push_str(&format!("%{b:02x}"));
                } else {
                    out.push_str(&format!("%{b:02X}"));
                }
            }
        } else {
            out.push(c);
        }
    }
    out
}

// ---------------------------------------------------------------------------------------------
// Reference validity of a URI string
// ---------------------------------------------------------------------------------------------

/// The single semantic violation of an otherwise well-formed URI (used to check the documented
/// error variants and their index).
#[derive(Clone, Debug, PartialEq, Eq)]
pub enum Sem {
    Dup(String, usize),
    Missing(usize),
    Memo(usize),
    Zero(usize),
}

#[derive(Clone, Debug)]
pub enum Verdict {
    Valid(RReq),
    /// (rule, the only semantic violation if the URI is otherwise entirely well-formed)
    Invalid(&'static str, Option<Sem>),
    /// ZIP 321 text and crate documentation do not settle it: only the safety direction is asserted.
    Ambiguous(&'static str),
}

#[derive(Clone, Debug)]
enum RParam {
    Addr(ZcashAddress),
    Amount(u64),
    Memo(Vec<u8>),
    Label(String),
    Message(String),
    Other(String, String),
}

impl RParam {
    fn key(&self) -> String {
        match self {
            RParam::Addr(_) => "address".into(),
            RParam::Amount(_) => "amount".into(),
            RParam::Memo(_) => "memo".into(),
            RParam::Label(_) => "label".into(),
            RParam::Message(_) => "message".into(),
            RParam::Other(n, _) => n.clone(),
        }
    }
}

pub const KNOWN: [&str; 5] = ["address", "amount", "memo", "label", "message"];

fn is_alnum_str(s: &str) -> bool {
    !s.is_empty() && s.chars().all(|c| c.is_ascii_alphanumeric())
}

pub fn valid_paramname(n: &str) -> bool {
    let mut cs = n.chars();
    match cs.next() {
        Some(c) if c.is_ascii_alphabetic() => {}
        _ => return false,
    }
    cs.all(|c| c.is_ascii_alphanumeric() || c == '+' || c == '-')
}

/// `case_sensitive = false` flags names that differ from a reserved name only by letter case as
/// ambiguous (ABNF literals are case-insensitive by RFC 5234, the crate matches exactly).
pub fn ref_parse(uri: &str, case_sensitive: bool) -> Verdict {
    let mut amb: Option<&'static str> = None;
    let Some(rest) = uri.strip_prefix("zcash:") else {
        let head: String = uri.chars().take(6).collect();
        if head.eq_ignore_ascii_case("zcash:") {
            return Verdict::Ambiguous("scheme-case");
        }
        return Verdict::Invalid("scheme", None);
    };
    let (lead, query) = match rest.find('?') {
        Some(i) => (&rest[..i], Some(&rest[i + 1..])),
        None => (rest, None),
    };
    let mut params: Vec<(usize, RParam)> = vec![];
    if !lead.is_empty() {
        if is_alnum_str(lead) {
            match ZcashAddress::try_from_encoded(lead) {
                Ok(a) => params.push((0, RParam::Addr(a))),
                Err(_) => return Verdict::Invalid("lead-address", None),
            }
        } else {
            // zcash_address documents that surrounding whitespace is tolerated when parsing.
            let t = lead.trim();
            match (is_alnum_str(t), ZcashAddress::try_from_encoded(t)) {
                (true, Ok(a)) => {
                    amb.get_or_insert("lead-address-whitespace");
                    params.push((0, RParam::Addr(a)));
                }
                _ => return Verdict::Invalid("lead-address", None),
            }
        }
    }
    if let Some(q) = query {
        if q.is_empty() {
            amb.get_or_insert("empty-query");
        } else {
            for item in q.split('&') {
                if item.is_empty() {
                    amb.get_or_insert("empty-param");
                    continue;
                }
                let (ni, value) = match item.find('=') {
                    Some(i) => (&item[..i], Some(&item[i + 1..])),
                    None => (item, None),
                };
                let (name, idx_s) = match ni.find('.') {
                    Some(i) => (&ni[..i], Some(&ni[i + 1..])),
                    None => (ni, None),
                };
                if !valid_paramname(name) {
                    return Verdict::Invalid("paramname", None);
                }
                let idx = match idx_s {
                    None => 0usize,
                    Some(s) => {
                        let ok = (1..=4).contains(&s.len())
                            && s.bytes().all(|b| b.is_ascii_digit())
                            && !s.starts_with('0');
                        if !ok {
                            return Verdict::Invalid("paramindex", None);
                        }
                        s.parse().unwrap()
                    }
                };
                let Some(value) = value else {
                    if KNOWN.contains(&name) {
                        return Verdict::Invalid("missing-equals", None);
                    }
                    if name.starts_with("req-") {
                        return Verdict::Invalid("req-param", None);
                    }
                    amb.get_or_insert("param-without-value");
                    continue;
                };
                match value_syntax(value) {
                    ValSyn::Bad => return Verdict::Invalid("value-char", None),
                    ValSyn::MalformedPct => {
                        amb.get_or_insert("malformed-pct");
                    }
                    ValSyn::Ok => {}
                }
                let text = |v: &str| String::from_utf8(pct_decode(v));
                let p = match name {
                    "address" => {
                        if !is_alnum_str(value) {
                            return Verdict::Invalid("address-value", None);
                        }
                        match ZcashAddress::try_from_encoded(value) {
                            Ok(a) => RParam::Addr(a),
                            Err(_) => return Verdict::Invalid("address-value", None),
                        }
                    }
                    "amount" => match ref_parse_amount(value) {
                        Some(z) => RParam::Amount(z),
                        None => return Verdict::Invalid("amount", None),
                    },
                    "memo" => match ref_b64_decode(value) {
                        Err(()) => return Verdict::Invalid("memo-base64", None),
                        Ok((bytes, canonical)) => {
                            if bytes.len() > 512 {
                                return Verdict::Invalid("memo-too-long", None);
                            }
                            if !canonical {
                                amb.get_or_insert("memo-trailing-bits");
                            }
                            RParam::Memo(pad512(&bytes))
                        }
                    },
                    "label" => match text(value) {
                        Ok(s) => RParam::Label(s),
                        Err(_) => return Verdict::Invalid("utf8", None),
                    },
                    "message" => match text(value) {
                        Ok(s) => RParam::Message(s),
                        Err(_) => return Verdict::Invalid("utf8", None),
                    },
                    other if other.starts_with("req-") => return Verdict::Invalid("req-param", None),
                    other => {
                        if !case_sensitive {
                            let lower = other.to_ascii_lowercase();
                            if lower != other && (KNOWN.contains(&lower.as_str()) || lower.starts_with("req-")) {
                                amb = Some("name-case");
                            }
                        }
                        match text(value) {
                            Ok(s) => RParam::Other(other.to_string(), s),
                            Err(_) => return Verdict::Invalid("utf8", None),
                        }
                    }
                };
                params.push((idx, p));
            }
        }
    }

    // semantic rules
    let mut sems: Vec<(&'static str, Sem)> = vec![];
    let mut seen: BTreeMap<usize, BTreeSet<String>> = BTreeMap::new();
    let mut req: BTreeMap<usize, (Option<ZcashAddress>, RPay0)> = BTreeMap::new();
    for (idx, p) in params {
        if !seen.entry(idx).or_default().insert(p.key()) {
            sems.push(("duplicate", Sem::Dup(p.key(), idx)));
            continue;
        }
        let e = req.entry(idx).or_insert_with(|| (None, RPay0::default()));
        match p {
            RParam::Addr(a) => e.0 = Some(a),
            RParam::Amount(z) => e.1.amount = Some(z),
            RParam::Memo(m) => e.1.memo = Some(m),
            RParam::Label(s) => e.1.label = Some(s),
            RParam::Message(s) => e.1.message = Some(s),
            RParam::Other(n, v) => e.1.other.push((n, v)),
        }
    }
    let mut out: RReq = BTreeMap::new();
    for (idx, (addr, p)) in req {
        let Some(addr) = addr else {
            sems.push(("missing-address", Sem::Missing(idx)));
            continue;
        };
        if p.memo.is_some() && !ref_can_memo(&addr) {
            sems.push(("memo-to-non-memo-recipient", Sem::Memo(idx)));
        }
        if p.amount == Some(0) && ref_transparent_only(&addr) {
            sems.push(("zero-transparent", Sem::Zero(idx)));
        }
        out.insert(idx, RPay { addr, amount: p.amount, memo: p.memo, label: p.label, message: p.message, other: p.other });
    }
    if amb == Some("name-case") {
        // under a case-insensitive reading the grouping itself would differ
        return Verdict::Ambiguous("name-case");
    }
    if !sems.is_empty() {
        let single = if sems.len() == 1 && amb.is_none() { Some(sems[0].1.clone()) } else { None };
        return Verdict::Invalid(sems[0].0, single);
    }
    if let Some(a) = amb {
        return Verdict::Ambiguous(a);
    }
    if out.is_empty() {
        return Verdict::Ambiguous("empty-request");
    }
    Verdict::Valid(out)
}

#[derive(Default)]
struct RPay0 {
    amount: Option<u64>,
    memo: Option<Vec<u8>>,
    label: Option<String>,
    message: Option<String>,
    other: Vec<(String, String)>,
}

//! Oracle for a successful `build_for_pczt`: the parts are inspected directly (they expose the
//! value of every spend and output, so zero-valued padding is observable), then handed to the PCZT
//! Creator and, for v5/v6, reduced to their transaction effects for `fee_paid`.

use std::collections::BTreeMap;

use vcore::{vensure, vensure_eq, vfail, Fail};
use zcash_note_encryption::{
    try_compact_note_decryption, try_note_decryption, try_output_recovery_with_ovk, EphemeralKeyBytes, ShieldedOutput, COMPACT_NOTE_SIZE,
    ENC_CIPHERTEXT_SIZE,
};
use zcash_primitives::transaction::builder::PcztResult;
use zcash_protocol::local_consensus::LocalNetwork;
use zcash_protocol::value::{BalanceError, Zatoshis};
use zcash_transparent::address::Script;
use zcash_transparent::bundle::OutPoint;

use crate::inspect_built::{check_transparent_part, expected_memo, zip212_real, Seen};
use crate::plan::*;
use crate::run::World;
use crate::types::*;
use crate::world::*;

struct SapOut<'a>(&'a sapling::pczt::Output);
impl ShieldedOutput<sapling::note_encryption::SaplingDomain, ENC_CIPHERTEXT_SIZE> for SapOut<'_> {
    fn ephemeral_key(&self) -> EphemeralKeyBytes {
        self.0.ephemeral_key().clone()
    }
    fn cmstar_bytes(&self) -> [u8; 32] {
        self.0.cmu().to_bytes()
    }
    fn enc_ciphertext(&self) -> &[u8; ENC_CIPHERTEXT_SIZE] {
        self.0.enc_ciphertext()
    }
}
struct SapCompact<'a>(&'a sapling::pczt::Output, [u8; COMPACT_NOTE_SIZE]);
impl ShieldedOutput<sapling::note_encryption::SaplingDomain, COMPACT_NOTE_SIZE> for SapCompact<'_> {
    fn ephemeral_key(&self) -> EphemeralKeyBytes {
        self.0.ephemeral_key().clone()
    }
    fn cmstar_bytes(&self) -> [u8; 32] {
        self.0.cmu().to_bytes()
    }
    fn enc_ciphertext(&self) -> &[u8; COMPACT_NOTE_SIZE] {
        &self.1
    }
}

fn orchard_value_sum(v: &orchard::value::ValueSum) -> Result<i128, Fail> {
    i64::try_from(*v).map(|x| x as i128).map_err(|e| Fail::new("pczt-value-sum-range", format!("Orchard value sum not an i64: {e:?}")))
}

/// `announced`: for the deferred builder, the fee its `get_fee` reported just before building.
pub fn check_pczt(c: &Case, p: &Plan, w: &World, res: PcztResult<LocalNetwork>, announced: Option<u64>) -> Result<Seen, Fail> {
    let deferred = c.engine == Engine::Deferred;
    let k = keys();
    let mut seen = Seen::default();
    let PcztResult { pczt_parts: parts, sapling_meta, orchard_meta, ironwood_meta } = res;

    vensure_eq!(Ver::of(parts.version), Some(p.eff_ver), "tx-version", "PCZT transaction version {:?}", parts.version);
    vensure_eq!(parts.consensus_branch_id, p.br.real(), "tx-branch", "consensus branch id");

    // ---- transparent content
    let script_bytes = |s: Script| s.0 .0;
    let (vin, vout): (Vec<(OutPoint, Option<Vec<u8>>)>, Vec<(u64, Vec<u8>)>) = match &parts.transparent {
        Some(b) => (
            b.inputs().iter().map(|i| (OutPoint::new(*i.prevout_txid().as_ref(), *i.prevout_index()), None)).collect(),
            b.outputs().iter().map(|o| (o.value().into_u64(), script_bytes(Script::from(o.script_pubkey())))).collect(),
        ),
        None => (vec![], vec![]),
    };
    check_transparent_part(c, p, w, &vin, &vout)?;
    let mut t_bal: i128 = 0;
    let mut t_in_sizes: Vec<usize> = vec![];
    if deferred {
        vensure!(parts.transparent.is_none() && parts.sapling.is_none(), "deferred-builder-foreign-bundle", "the deferred builder emitted a transparent or Sapling bundle");
    }
    if let Some(b) = &parts.transparent {
        for (n, (i, inp)) in p.accepted(T_IN).zip(b.inputs()).enumerate() {
            let coin = &w.coins[i].1;
            vensure_eq!(inp.value().into_u64(), coin.value().into_u64(), "pczt-input-wrong-value", "transparent input {n} value");
            vensure!(script_bytes(Script::from(inp.script_pubkey())) == coin.script_pubkey().0 .0, "pczt-input-wrong-script", "transparent input {n} script_pubkey");
            t_bal += inp.value().into_u64() as i128;
            // spend information: the redeem script exactly for P2SH coins (field doc: "The script
            // required to spend this output, if it is P2SH. Set to None if this is a P2PKH output")
            let got_redeem: Option<Vec<u8>> = inp.redeem_script().as_ref().map(|r| script_bytes(Script::from(r)));
            vensure!(
                got_redeem == p.redeem[i],
                "pczt-input-wrong-redeem-script",
                "transparent input {n}: redeem_script {:?}, requested {:?}",
                got_redeem.as_ref().map(hex::encode),
                p.redeem[i].as_ref().map(hex::encode)
            );
            if let Some(r) = &got_redeem {
                vensure!(p2sh_script(&hash160(r)) == coin.script_pubkey().0 .0, "p2sh-redeem-script-not-for-coin", "transparent input {n}: hash160(redeem_script) does not match the coin's script hash");
                seen.p2sh_inputs += 1;
            }
            // size with which the fee rule prices the emitted input
            t_in_sizes.push(match &got_redeem {
                None => P2PKH_PRICED_SIZE,
                Some(r) => match parse_multisig_redeem_script(r) {
                    Some((m, _)) => p2sh_multisig_input_size(m as usize, r.len()),
                    // unknown size: only a fixed fee can have priced it
                    None => 0,
                },
            });
            // the builder signs with SIGHASH_ALL only, creates final inputs without lock-time
            // requirements, and leaves every Signer / Spend Finalizer / Updater field unset
            vensure_eq!(inp.sighash_type().encode(), 0x01, "pczt-input-sighash-type", "transparent input {n} sighash_type");
            vensure!(inp.sequence().is_none_or(|s| s == u32::MAX), "pczt-input-not-final", "transparent input {n}: sequence {:?}", inp.sequence());
            vensure!(
                inp.required_time_lock_time().is_none() && inp.required_height_lock_time().is_none(),
                "pczt-input-unrequested-lock-time",
                "transparent input {n}: lock time requirement {:?} / {:?}",
                inp.required_time_lock_time(),
                inp.required_height_lock_time()
            );
            vensure!(
                inp.script_sig().is_none() && inp.partial_signatures().is_empty(),
                "pczt-input-unrequested-authorization",
                "transparent input {n}: script_sig {:?}, {} partial signatures",
                inp.script_sig(),
                inp.partial_signatures().len()
            );
            vensure!(
                inp.bip32_derivation().is_empty()
                    && inp.ripemd160_preimages().is_empty()
                    && inp.sha256_preimages().is_empty()
                    && inp.hash160_preimages().is_empty()
                    && inp.hash256_preimages().is_empty()
                    && inp.proprietary().is_empty(),
                "pczt-input-unrequested-metadata",
                "transparent input {n} carries derivation / preimage / proprietary entries nobody requested"
            );
        }
    }
    t_bal -= vout.iter().map(|(v, _)| *v as i128).sum::<i128>();

    let acc_sum = |kind: usize| -> i128 { p.accepted(kind).map(|i| p.val[kind][i] as i128).sum() };

    // ---- Sapling
    let z = zip212_real(p.z212);
    let (mut s_spends, mut s_outputs, mut s_bal) = (0usize, 0usize, 0i128);
    if let Some(b) = &parts.sapling {
        s_spends = b.spends().len();
        s_outputs = b.outputs().len();
        s_bal = b.value_sum().to_raw();
        let want_nf: Vec<[u8; 32]> = p.accepted(S_IN).map(|i| w.s_notes[i].nf).collect();
        let mut matched = vec![false; b.spends().len()];
        for (n, (nf, i)) in want_nf.iter().zip(p.accepted(S_IN)).enumerate() {
            let idx = sapling_meta.spend_index(n);
            let Some(j) = idx.filter(|j| *j < b.spends().len() && b.spends()[*j].nullifier().0 == *nf) else {
                vfail!("sapling-meta-spend-index", "spend_index({n}) = {idx:?} does not point at the requested note")
            };
            vensure!(!matched[j], "sapling-spends-mismatch", "two requested spends map to spend {j}");
            matched[j] = true;
            vensure_eq!(b.spends()[j].value().map(|v| v.inner()), Some(p.val[S_IN][i]), "sapling-spend-wrong-value", "Sapling spend {n} value");
        }
        for (j, s) in b.spends().iter().enumerate() {
            if !matched[j] {
                vensure!(!want_nf.contains(&s.nullifier().0), "sapling-spends-mismatch", "requested note spent twice");
                vensure_eq!(s.value().map(|v| v.inner()), Some(0), "padding-carries-value", "extra Sapling spend {j} value");
                seen.padding_observed += 1;
            }
        }
        let mut matched = vec![false; b.outputs().len()];
        for (n, i) in p.accepted(S_OUT).enumerate() {
            let x = &c.s_out[i];
            let idx = sapling_meta.output_index(n);
            let Some(j) = idx.filter(|j| *j < b.outputs().len()) else { vfail!("sapling-meta-output-index", "output_index({n}) = {idx:?} out of range") };
            vensure!(!matched[j], "sapling-meta-output-index", "two requested outputs map to output {j}");
            matched[j] = true;
            let o = &b.outputs()[j];
            let sk = &k.s[x.key as usize];
            let to = sk.address(x.internal, x.div);
            let want_memo = expected_memo(&x.memo);
            vensure_eq!(o.value().map(|v| v.inner()), Some(p.val[S_OUT][i]), "sapling-output-wrong-value", "Sapling output {n} declared value");
            vensure!(*o.recipient() == Some(to), "sapling-output-wrong-recipient", "Sapling output {n} declared recipient");
            let Some((note, addr, memo)) = sapling::note_encryption::try_sapling_note_decryption(sk.ivk(x.internal), &SapOut(o), z) else {
                vfail!("sapling-output-not-decryptable", "requested Sapling output {n} (result index {j}) does not decrypt with the recipient's ivk")
            };
            vensure_eq!(note.value().inner(), p.val[S_OUT][i], "sapling-output-wrong-value", "Sapling output {n} value");
            vensure!(addr == to, "sapling-output-wrong-recipient", "Sapling output {n} recipient");
            vensure!(memo == want_memo, "sapling-output-wrong-memo", "Sapling output {n} memo differs (last byte {} vs {})", memo[511], want_memo[511]);
            let mut cc = [0u8; COMPACT_NOTE_SIZE];
            cc.copy_from_slice(&o.enc_ciphertext()[..COMPACT_NOTE_SIZE]);
            let cd = sapling::note_encryption::try_sapling_compact_note_decryption(sk.ivk(x.internal), &SapCompact(o, cc), z);
            vensure!(cd.is_some_and(|(n2, a2)| n2.value().inner() == p.val[S_OUT][i] && a2 == to), "sapling-output-compact-decryption", "Sapling output {n}: compact decryption disagrees");
            seen.decrypted += 1;
            if matches!(x.memo, Memo::Full(_)) {
                seen.memo512 += 1;
            }
            if let Some(ovk) = x.ovk {
                let d = sapling::note_encryption::SaplingDomain::new(z);
                let r = try_output_recovery_with_ovk(&d, &sapling::keys::OutgoingViewingKey(ovk), &SapOut(o), o.cv(), o.out_ciphertext());
                vensure!(
                    r.is_some_and(|(n2, a2, m2)| n2.value().inner() == p.val[S_OUT][i] && a2 == to && m2 == want_memo),
                    "sapling-output-ovk-recovery",
                    "Sapling output {n}: the sender's ovk does not recover the requested note"
                );
                seen.ovk_recovered += 1;
            }
        }
        for (j, o) in b.outputs().iter().enumerate() {
            if !matched[j] {
                vensure_eq!(o.value().map(|v| v.inner()), Some(0), "padding-carries-value", "extra Sapling output {j} value");
                seen.padding_observed += 1;
            }
        }
    } else {
        vensure!(p.n_acc(S_IN) + p.n_acc(S_OUT) == 0, "sapling-bundle-missing", "no Sapling bundle although Sapling content was requested");
    }

    // ---- Orchard / Ironwood
    let mut counts = [0usize; 2];
    let mut bals = [0i128; 2];
    for (slot, name, bundle, meta, kin, kout, notes, outs_req, v3) in [
        (0usize, "orchard", &parts.orchard, &orchard_meta, O_IN, O_OUT, &w.o_notes, &c.o_out, false),
        (1usize, "ironwood", &parts.ironwood, &ironwood_meta, I_IN, I_OUT, &w.i_notes, &c.i_out, true),
    ] {
        let Some(b) = bundle else {
            vensure!(p.n_acc(kin) + p.n_acc(kout) == 0, "orchard-bundle-missing", "no {name} bundle although content was requested");
            continue;
        };
        let actions = b.actions();
        // deferred builder: "the emitted PCZT carries ABSENT anchor and witness fields"
        vensure_eq!(*b.anchor_deferred(), deferred, "pczt-anchor-deferral-flag", "{name}: anchor_deferred");
        counts[slot] = actions.len();
        bals[slot] = orchard_value_sum(b.value_sum())?;
        let mut spend_used = vec![false; actions.len()];
        let mut out_used = vec![false; actions.len()];
        for (n, i) in p.accepted(kin).enumerate() {
            let nf = notes[i].nf;
            vensure_eq!(actions.iter().filter(|a| a.spend().nullifier().to_bytes() == nf).count(), 1, "orchard-spend-missing", "{name}: requested spend {n} appears in the result");
            let idx = meta.spend_action_index(n);
            let Some(j) = idx.filter(|j| *j < actions.len() && actions[*j].spend().nullifier().to_bytes() == nf) else {
                vfail!("orchard-meta-spend-index", "{name}: spend_action_index({n}) = {idx:?} does not point at the requested note")
            };
            spend_used[j] = true;
            vensure_eq!(actions[j].spend().value().map(|v| v.inner()), Some(p.val[kin][i]), "orchard-spend-wrong-value", "{name} spend {n} declared value");
            // documented on the bundle's `anchor_deferred`: "the real spends' `witness` fields are `None`"
            if deferred {
                vensure!(actions[j].spend().witness().is_none(), "deferred-builder-witness-present", "{name}: requested spend {n} (action {j}) carries a witness although its anchor is deferred");
            }
        }
        // BundleMetadata rustdoc: requested outputs are numbered plain outputs first (in the order
        // added), then the wallet-controlled change outputs (in the order added)
        let mut order: Vec<usize> = p.accepted(kout).filter(|i| !outs_req[*i].change).collect();
        order.extend(p.accepted(kout).filter(|i| outs_req[*i].change));
        for (n, i) in order.into_iter().enumerate() {
            let x = &outs_req[i];
            let idx = meta.output_action_index(n);
            let Some(j) = idx.filter(|j| *j < actions.len()) else { vfail!("orchard-meta-output-index", "{name}: output_action_index({n}) = {idx:?}") };
            vensure!(!out_used[j], "orchard-meta-output-index", "{name}: two requested outputs map to action {j}");
            out_used[j] = true;
            let a = &actions[j];
            let ok = &k.o[x.key as usize];
            let to = ok.address(x.internal, x.div);
            let want_memo = expected_memo(&x.memo);
            vensure_eq!(a.output().value().map(|v| v.inner()), Some(p.val[kout][i]), "orchard-output-wrong-value", "{name} output {n} declared value");
            vensure!(*a.output().recipient() == Some(to), "orchard-output-wrong-recipient", "{name} output {n} declared recipient");
            let en = a.output().encrypted_note();
            let mut cc = [0u8; COMPACT_NOTE_SIZE];
            cc.copy_from_slice(&en.enc_ciphertext[..COMPACT_NOTE_SIZE]);
            let ca = orchard::note_encryption::CompactAction::from_parts(*a.spend().nullifier(), *a.output().cmx(), EphemeralKeyBytes(en.epk_bytes), cc);
            let (dec, cdec, rec) = if v3 {
                let d = orchard::note_encryption::IronwoodDomain::for_pczt_action(a);
                (
                    try_note_decryption(&d, ok.ivk(x.internal), a),
                    try_compact_note_decryption(&orchard::note_encryption::IronwoodDomain::for_compact_action(&ca), ok.ivk(x.internal), &ca),
                    x.ovk.map(|o| try_output_recovery_with_ovk(&d, &orchard::keys::OutgoingViewingKey::from(o), a, a.cv_net(), &en.out_ciphertext)),
                )
            } else {
                let d = orchard::note_encryption::OrchardDomain::for_pczt_action(a);
                (
                    try_note_decryption(&d, ok.ivk(x.internal), a),
                    try_compact_note_decryption(&orchard::note_encryption::OrchardDomain::for_compact_action(&ca), ok.ivk(x.internal), &ca),
                    x.ovk.map(|o| try_output_recovery_with_ovk(&d, &orchard::keys::OutgoingViewingKey::from(o), a, a.cv_net(), &en.out_ciphertext)),
                )
            };
            let Some((note, addr, memo)) = dec else { vfail!("orchard-output-not-decryptable", "{name}: requested output {n} (action {j}) does not decrypt with the recipient's ivk") };
            vensure_eq!(note.value().inner(), p.val[kout][i], "orchard-output-wrong-value", "{name} output {n} value");
            vensure!(addr == to, "orchard-output-wrong-recipient", "{name} output {n} recipient");
            vensure!(memo == want_memo, "orchard-output-wrong-memo", "{name} output {n} memo differs (last byte {} vs {})", memo[511], want_memo[511]);
            vensure!(cdec.is_some_and(|(n2, a2)| n2.value().inner() == p.val[kout][i] && a2 == to), "orchard-output-compact-decryption", "{name} output {n}: compact decryption disagrees");
            seen.decrypted += 1;
            if matches!(x.memo, Memo::Full(_)) {
                seen.memo512 += 1;
            }
            if let Some(r) = rec {
                vensure!(
                    r.is_some_and(|(n2, a2, m2)| n2.value().inner() == p.val[kout][i] && a2 == to && m2 == want_memo),
                    "orchard-output-ovk-recovery",
                    "{name} output {n}: the sender's ovk does not recover the requested note"
                );
                seen.ovk_recovered += 1;
            }
        }
        // everything else is padding (dummy or fabricated counterpart): zero value
        for (j, a) in actions.iter().enumerate() {
            if !spend_used[j] {
                vensure_eq!(a.spend().value().map(|v| v.inner()), Some(0), "padding-carries-value", "{name}: spend side of action {j} is not a requested spend");
                seen.padding_observed += 1;
            }
            if !out_used[j] {
                vensure_eq!(a.output().value().map(|v| v.inner()), Some(0), "padding-carries-value", "{name}: output side of action {j} is not a requested output");
                seen.padding_observed += 1;
            }
        }
    }

    // ---- shape, balances, fee
    let observed = Shape {
        t_in_sizes,
        t_out_sizes: vout.iter().map(|(_, s)| txout_size(s.len())).collect(),
        s_spends,
        s_outputs,
        o_actions: counts[0],
        i_actions: counts[1],
    };
    let sig_pool = if p.undecided_shape { SIG_REQUIRED_BUNDLE_EMITTED } else { "bundle-in-version-without-pool" };
    vensure!(counts[0] == 0 || p.eff_ver.has_orchard(), sig_pool, "Orchard bundle with {} actions in a {:?} PCZT", counts[0], p.eff_ver);
    vensure!(counts[1] == 0 || p.eff_ver.has_ironwood(), sig_pool, "Ironwood bundle with {} actions in a {:?} PCZT", counts[1], p.eff_ver);
    vensure!(s_spends + s_outputs == 0 || p.eff_ver.has_sapling(), sig_pool, "Sapling bundle in a {:?} PCZT", p.eff_ver);
    vensure_eq!(s_bal, acc_sum(S_IN) - acc_sum(S_OUT), "sapling-balance-not-requested", "Sapling value sum vs requested spends - outputs");
    vensure_eq!(bals[0], acc_sum(O_IN) - acc_sum(O_OUT), "orchard-balance-not-requested", "Orchard value sum vs requested spends - outputs");
    vensure_eq!(bals[1], acc_sum(I_IN) - acc_sum(I_OUT), "ironwood-balance-not-requested", "Ironwood value sum vs requested spends - outputs");
    let paid = t_bal + s_bal + bals[0] + bals[1];
    vensure!(paid >= 0, "fee-negative", "pool balances sum to {paid}");
    seen.fee = paid as u128;
    // the deferred builder's `get_fee` is the fee that `build_for_pczt` enforces
    if let Some(a) = announced {
        vensure_eq!(a as i128, paid, "deferred-get-fee-disagrees-with-build", "get_fee before build_for_pczt vs the fee paid by the emitted parts");
    }
    // `BundlePadding::bundle_required`: "Produce a bundle even when no spends or outputs have been
    // added; the resulting bundle then consists entirely of dummy actions." The deferred builder
    // charges for those actions but does not emit them.
    let deferred_required_omitted = deferred
        && ((p.shape.o_actions > 0 && counts[0] == 0 && c.orc_pad.required && p.n_acc(O_IN) + p.n_acc(O_OUT) == 0)
            || (p.shape.i_actions > 0 && counts[1] == 0 && c.iro_pad.required && p.n_acc(I_IN) + p.n_acc(I_OUT) == 0));
    let mut skip_shape = p.undecided_shape;
    if deferred_required_omitted {
        if !crate::known_hit(SIG_DEFERRED_REQUIRED_BUNDLE) {
            vfail!(
                SIG_DEFERRED_REQUIRED_BUNDLE,
                "DeferredPcztBuilder (orchard padding {:?}, ironwood padding {:?}): fee paid {paid} = get_fee {announced:?} prices {} Orchard + {} Ironwood actions, but the emitted parts carry {} + {} actions, for which the rule {:?} prescribes {:?}; a bundle_required pool without content is charged but not emitted",
                c.orc_pad,
                c.iro_pad,
                p.shape.o_actions,
                p.shape.i_actions,
                counts[0],
                counts[1],
                c.rule,
                ref_fee(&c.rule, &observed)
            );
        }
        // known: what was paid must at least be the fee of the planned (charged) shape
        vensure!(ref_fee(&c.rule, &p.shape) == Some(paid as u128), "fee-not-fee-rule-of-result-shape", "fee paid {paid} but the rule {:?} prescribes {:?} for the charged shape {:?}", c.rule, ref_fee(&c.rule, &p.shape), p.shape);
        skip_shape = true;
        seen.known_deferred_required += 1;
    } else {
        match ref_fee(&c.rule, &observed) {
            Some(f) if paid as u128 != f && p.undecided_shape && ref_fee(&c.rule, &p.shape) == Some(paid as u128) => vfail!(
                SIG_FEE_OMITTED_BUNDLE,
                "fee paid {paid} includes the padding of a required bundle that the {:?} result does not carry; the rule prescribes {f} for the result shape {observed:?}",
                p.eff_ver
            ),
            Some(f) => vensure!(paid as u128 == f, "fee-not-fee-rule-of-result-shape", "fee paid {paid} but the rule {:?} prescribes {f} for the result shape {observed:?} (version {:?})", c.rule, p.eff_ver),
            None => vfail!("fee-not-fee-rule-of-result-shape", "PCZT built although the fee of its shape {observed:?} is not a valid amount"),
        }
    }
    if !skip_shape {
        vensure!(observed == p.shape, "shape-not-requested-plus-padding", "result shape {observed:?}, requested content plus prescribed padding {:?}", p.shape);
    }
    vensure!(p.diff() == Some(0), "built-unbalanced-request", "PCZT built although inputs - outputs - fee = {:?}", p.diff());

    // ---- Creator role and transaction effects
    let pczt = pczt::roles::creator::Creator::build_from_parts(parts);
    // documented: `None` exactly for versions that PCZTs cannot represent (pre-v4)
    vensure_eq!(pczt.is_some(), !matches!(p.eff_ver, Ver::Sprout2 | Ver::V3), "creator-build-from-parts", "Creator::build_from_parts returned Some for version {:?}", p.eff_ver);
    if let Some(pczt) = pczt {
        if matches!(p.eff_ver, Ver::V5 | Ver::V6) {
            match pczt.into_effects() {
                Ok(data) => {
                    let prevouts: BTreeMap<OutPoint, Zatoshis> = w.coins.iter().map(|(op, coin)| (op.clone(), coin.value())).collect();
                    match data.fee_paid(|op| Ok::<_, BalanceError>(prevouts.get(op).copied())) {
                        Ok(Some(f)) => vensure_eq!(f.into_u64() as i128, paid, "fee-paid-not-sum-of-balances", "TransactionData::fee_paid of the PCZT effects vs the sum of pool balances"),
                        other => vfail!("fee-paid-unavailable", "fee_paid of the PCZT effects returned {other:?} with all prevouts known"),
                    }
                }
                Err(e) => vfail!("pczt-effects-unavailable", "the PCZT made from the builder's parts has no extractable effects: {e:?}"),
            }
        }
    }
    Ok(seen)
}

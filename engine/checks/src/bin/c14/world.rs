//! Keys, coins, notes and commitment trees for a request (harness side; only primitive
//! hashes / curve types are shared with the code under test).

use std::sync::OnceLock;

use incrementalmerkletree::frontier::CommitmentTree;
use incrementalmerkletree::witness::IncrementalWitness;
use ripemd::Ripemd160;
use sha2::{Digest, Sha256};
use zip32::Scope;

pub fn hash160(data: &[u8]) -> [u8; 20] {
    let s = Sha256::digest(data);
    let r = Ripemd160::digest(s);
    let mut out = [0u8; 20];
    out.copy_from_slice(&r);
    out
}

/// Number of transparent harness keys.
pub const N_TKEYS: usize = 16;

pub struct TKey {
    pub sk: secp256k1::SecretKey,
    pub pk: secp256k1::PublicKey,
    pub pkh: [u8; 20],
}

pub struct SKey {
    pub extsk: sapling::zip32::ExtendedSpendingKey,
    pub dfvk: sapling::zip32::DiversifiableFullViewingKey,
    pub ivk_ext: sapling::keys::PreparedIncomingViewingKey,
    pub ivk_int: sapling::keys::PreparedIncomingViewingKey,
}

impl SKey {
    /// Recipient address: external diversified addresses, or the internal (change) address.
    pub fn address(&self, internal: bool, div: u8) -> sapling::PaymentAddress {
        if internal {
            self.dfvk.change_address().1
        } else if div == 0 {
            self.dfvk.default_address().1
        } else {
            let start = zip32::DiversifierIndex::from(div as u32 * 1000);
            self.dfvk.find_address(start).expect("harness: a sapling address exists above the index").1
        }
    }
    pub fn ivk(&self, internal: bool) -> &sapling::keys::PreparedIncomingViewingKey {
        if internal {
            &self.ivk_int
        } else {
            &self.ivk_ext
        }
    }
}

pub struct OKey {
    pub sk: orchard::keys::SpendingKey,
    pub fvk: orchard::keys::FullViewingKey,
    pub ivk_ext: orchard::keys::PreparedIncomingViewingKey,
    pub ivk_int: orchard::keys::PreparedIncomingViewingKey,
}

impl OKey {
    pub fn address(&self, internal: bool, div: u8) -> orchard::Address {
        self.fvk.address_at(div as u32, if internal { Scope::Internal } else { Scope::External })
    }
    pub fn ivk(&self, internal: bool) -> &orchard::keys::PreparedIncomingViewingKey {
        if internal {
            &self.ivk_int
        } else {
            &self.ivk_ext
        }
    }
}

pub struct Keys {
    pub t: Vec<TKey>,
    pub s: Vec<SKey>,
    pub o: Vec<OKey>,
}

pub fn keys() -> &'static Keys {
    static K: OnceLock<Keys> = OnceLock::new();
    K.get_or_init(|| {
        let secp = secp256k1::Secp256k1::new();
        // keys 0..=5: owners of P2PKH coins; 6: always in the signing set, owns nothing by itself;
        // 0..=15: members of multisig redeem scripts
        let t = (0u8..N_TKEYS as u8)
            .map(|i| {
                let mut b = [0x11u8.wrapping_mul(i + 1); 32];
                b[0] = i + 1;
                b[31] = 0x5a;
                let sk = secp256k1::SecretKey::from_slice(&b).expect("harness: valid secp256k1 secret key");
                let pk = secp256k1::PublicKey::from_secret_key(&secp, &sk);
                let pkh = hash160(&pk.serialize());
                TKey { sk, pk, pkh }
            })
            .collect();
        let s = (0u8..5)
            .map(|i| {
                let extsk = sapling::zip32::ExtendedSpendingKey::master(&[i.wrapping_mul(37).wrapping_add(3); 32]);
                let dfvk = extsk.to_diversifiable_full_viewing_key();
                let ivk_ext = sapling::keys::PreparedIncomingViewingKey::new(&dfvk.to_ivk(Scope::External));
                let ivk_int = sapling::keys::PreparedIncomingViewingKey::new(&dfvk.to_ivk(Scope::Internal));
                SKey { extsk, dfvk, ivk_ext, ivk_int }
            })
            .collect();
        let o = (0u8..5)
            .map(|i| {
                let mut seed = [i.wrapping_mul(29).wrapping_add(7); 32];
                let sk = loop {
                    if let Some(sk) = Option::<orchard::keys::SpendingKey>::from(orchard::keys::SpendingKey::from_bytes(seed)) {
                        break sk;
                    }
                    seed[0] = seed[0].wrapping_add(1);
                };
                let fvk = orchard::keys::FullViewingKey::from(&sk);
                let ivk_ext = orchard::keys::PreparedIncomingViewingKey::new(&fvk.to_ivk(Scope::External));
                let ivk_int = orchard::keys::PreparedIncomingViewingKey::new(&fvk.to_ivk(Scope::Internal));
                OKey { sk, fvk, ivk_ext, ivk_int }
            })
            .collect();
        Keys { t, s, o }
    })
}

// ---------------------------------------------------------------------------------------------
// Sapling notes in a tree
// ---------------------------------------------------------------------------------------------

pub struct SapNote {
    pub note: sapling::Note,
    pub path: sapling::MerklePath,
    pub nf: [u8; 32],
}

/// Places the notes at positions 0.. of an otherwise empty depth-32 tree.
/// Returns (notes with witnesses, root).
pub fn sapling_tree(entries: &[(usize, u64, [u8; 32])]) -> (Vec<SapNote>, sapling::Anchor) {
    let k = keys();
    let notes: Vec<sapling::Note> = entries
        .iter()
        .map(|(key, value, rseed)| {
            k.s[*key].address(false, 0).create_note(sapling::value::NoteValue::from_raw(*value), sapling::Rseed::AfterZip212(*rseed))
        })
        .collect();
    let mut tree = CommitmentTree::<sapling::Node, 32>::empty();
    let mut wits: Vec<IncrementalWitness<sapling::Node, 32>> = vec![];
    for n in &notes {
        let leaf = sapling::Node::from_cmu(&n.cmu());
        tree.append(leaf).expect("harness: tree not full");
        for w in wits.iter_mut() {
            w.append(leaf).expect("harness: witness not full");
        }
        wits.push(IncrementalWitness::from_tree(tree.clone()).expect("harness: non-empty tree"));
    }
    let root = match wits.first() {
        Some(w) => sapling::Anchor::from(w.root()),
        None => sapling::Anchor::empty_tree(),
    };
    let out = notes
        .into_iter()
        .zip(wits)
        .zip(entries)
        .enumerate()
        .map(|(pos, ((note, w), (key, _, _)))| {
            let path = w.path().expect("harness: witness has a path");
            let nk = k.s[*key].dfvk.to_nk(Scope::External);
            let nf = note.nf(&nk, pos as u64).0;
            SapNote { note, path, nf }
        })
        .collect();
    (out, root)
}

// ---------------------------------------------------------------------------------------------
// Orchard / Ironwood notes in a tree
// ---------------------------------------------------------------------------------------------

pub struct OrcNote {
    pub note: orchard::Note,
    pub path: orchard::tree::MerklePath,
    pub nf: [u8; 32],
}

pub struct OrcEntry {
    pub key: usize,
    pub internal: bool,
    pub div: u8,
    pub value: u64,
    pub rho: [u8; 32],
    pub rseed: [u8; 32],
    pub v3: bool,
}

pub fn orchard_tree(entries: &[OrcEntry]) -> (Vec<OrcNote>, orchard::Anchor) {
    use orchard::tree::MerkleHashOrchard;
    let k = keys();
    let notes: Vec<orchard::Note> = entries
        .iter()
        .map(|e| {
            let mut rb = e.rho;
            rb[31] &= 0x3f; // below 2^254 < p: canonical Pallas base element
            let rho = Option::<orchard::note::Rho>::from(orchard::note::Rho::from_bytes(&rb)).expect("harness: canonical rho");
            let version = if e.v3 { orchard::note::NoteVersion::V3 } else { orchard::note::NoteVersion::V2 };
            let recipient = k.o[e.key].address(e.internal, e.div);
            let mut rs = e.rseed;
            loop {
                if let Some(rseed) = Option::<orchard::note::RandomSeed>::from(orchard::note::RandomSeed::from_bytes(rs, &rho)) {
                    if let Some(n) = Option::<orchard::Note>::from(orchard::Note::from_parts(
                        recipient,
                        orchard::value::NoteValue::from_raw(e.value),
                        rho,
                        rseed,
                        version,
                    )) {
                        break n;
                    }
                }
                rs[0] = rs[0].wrapping_add(1);
            }
        })
        .collect();
    let mut tree = CommitmentTree::<MerkleHashOrchard, 32>::empty();
    let mut wits: Vec<IncrementalWitness<MerkleHashOrchard, 32>> = vec![];
    for n in &notes {
        let cmx: orchard::note::ExtractedNoteCommitment = n.commitment().into();
        let leaf = MerkleHashOrchard::from_cmx(&cmx);
        tree.append(leaf).expect("harness: tree not full");
        for w in wits.iter_mut() {
            w.append(leaf).expect("harness: witness not full");
        }
        wits.push(IncrementalWitness::from_tree(tree.clone()).expect("harness: non-empty tree"));
    }
    let root = match wits.first() {
        Some(w) => orchard::Anchor::from(w.root()),
        None => orchard::Anchor::empty_tree(),
    };
    let out = notes
        .into_iter()
        .zip(wits)
        .zip(entries)
        .map(|((note, w), e)| {
            let path: orchard::tree::MerklePath = w.path().expect("harness: witness has a path").into();
            let nf = note.nullifier(&k.o[e.key].fvk).to_bytes();
            OrcNote { note, path, nf }
        })
        .collect();
    (out, root)
}

//! Plain-data description of one builder request, and the reference model written from the
//! specification text (ZIP 317, ZIP 225/NU6.3 version rules, ZIP 212, the rustdoc of
//! `sapling::builder::BundleType`, `orchard::builder::BundleType::num_actions`, `BundlePadding`,
//! and the builder's error documentation). Shares no code with the builder.

use zcash_primitives::transaction::TxVersion;
use zcash_protocol::consensus::{BlockHeight, BranchId};
use zcash_protocol::local_consensus::LocalNetwork;
use zcash_protocol::value::MAX_MONEY;

pub const M: i128 = MAX_MONEY as i128;

/// Finding: `bundle_required` padding of a pool that the (explicitly proposed) transaction version
/// cannot carry is built and emitted anyway (`check_version_compatibility` only looks at requested
/// content).
pub const SIG_REQUIRED_BUNDLE_EMITTED: &str = "required-bundle-emitted-in-version-without-pool";
/// Finding: `get_fee` prices the `bundle_required` padding of a pool whose bundle `build_for_pczt`
/// then omits because the transaction version cannot carry it.
pub const SIG_FEE_OMITTED_BUNDLE: &str = "fee-charged-for-omitted-required-bundle";
/// Finding: `DeferredPcztBuilder::get_fee` prices the `bundle_required` padding of an Orchard or
/// Ironwood pool without requested content, while `DeferredPcztBuilder::build_for_pczt` emits a
/// bundle only for a pool that is "in use" (has a requested spend or output).
pub const SIG_DEFERRED_REQUIRED_BUNDLE: &str = "deferred-builder-fee-charged-for-omitted-required-bundle";

/// Finding: the scriptSig of a P2SH input whose redeem script is 128..=255 bytes long (multisig
/// with 4..=7 compressed keys) pushes the redeem script as `OP_PUSHDATA1 <len> 0x00 <script>`: the
/// length after OP_PUSHDATA1 is written as a script *number* (sign-magnitude, so 0x80..=0xff get a
/// 0x00 sign byte) instead of one unsigned byte. The scriptSig is not push-only any more and the
/// pushed element is not the redeem script, so the input can never be valid.
pub const SIG_PUSHDATA1_LENGTH: &str = "p2sh-script-sig-redeem-push-length-misencoded";

#[derive(Clone, Copy, Debug, PartialEq, Eq)]
pub enum Engine {
    /// full `build` with the mock Sapling provers; transparent + Sapling content only
    Build,
    /// `build_for_pczt`, inspected through the returned parts
    Pczt,
    /// full `build` with real Orchard proving (thorough only)
    Prove,
    /// `DeferredPcztBuilder::build_for_pczt` (anchors deferred to proving time; Orchard and
    /// Ironwood content only), inspected through the returned parts
    Deferred,
}

#[derive(Clone, Copy, Debug, PartialEq, Eq, PartialOrd, Ord)]
pub enum Br {
    Sprout,
    Overwinter,
    Sapling,
    Blossom,
    Heartwood,
    Canopy,
    Nu5,
    Nu6,
    Nu6_1,
    Nu6_2,
    Nu6_3,
}

impl Br {
    pub const UPGRADES: [Br; 10] =
        [Br::Overwinter, Br::Sapling, Br::Blossom, Br::Heartwood, Br::Canopy, Br::Nu5, Br::Nu6, Br::Nu6_1, Br::Nu6_2, Br::Nu6_3];
    pub fn real(self) -> BranchId {
        match self {
            Br::Sprout => BranchId::Sprout,
            Br::Overwinter => BranchId::Overwinter,
            Br::Sapling => BranchId::Sapling,
            Br::Blossom => BranchId::Blossom,
            Br::Heartwood => BranchId::Heartwood,
            Br::Canopy => BranchId::Canopy,
            Br::Nu5 => BranchId::Nu5,
            Br::Nu6 => BranchId::Nu6,
            Br::Nu6_1 => BranchId::Nu6_1,
            Br::Nu6_2 => BranchId::Nu6_2,
            Br::Nu6_3 => BranchId::Nu6_3,
        }
    }
    pub fn label(self) -> &'static str {
        match self {
            Br::Sprout => "branch:sprout",
            Br::Overwinter => "branch:overwinter",
            Br::Sapling => "branch:sapling",
            Br::Blossom => "branch:blossom",
            Br::Heartwood => "branch:heartwood",
            Br::Canopy => "branch:canopy",
            Br::Nu5 => "branch:nu5",
            Br::Nu6 => "branch:nu6",
            Br::Nu6_1 => "branch:nu6.1",
            Br::Nu6_2 => "branch:nu6.2",
            Br::Nu6_3 => "branch:nu6.3",
        }
    }
}

/// Activation heights in the order of `Br::UPGRADES`.
pub type Layout = [Option<u32>; 10];

pub const LAYOUTS: [Layout; 3] = [
    // spread out; NU5 after the end of the ZIP 212 grace period (50 + 32256 = 32306)
    [Some(10), Some(20), Some(30), Some(40), Some(50), Some(40_000), Some(40_010), Some(40_020), Some(40_030), Some(40_040)],
    // regtest-like: everything at 1, NU6.3 at 100 (ZIP 212 grace period until 32257)
    [Some(1), Some(1), Some(1), Some(1), Some(1), Some(1), Some(1), Some(1), Some(1), Some(100)],
    // NU6.3 never activates
    [Some(1), Some(1), Some(1), Some(1), Some(1), Some(5), Some(5), Some(6), Some(7), None],
];

pub fn local_network(l: &Layout) -> LocalNetwork {
    let h = |i: usize| l[i].map(BlockHeight::from_u32);
    LocalNetwork {
        overwinter: h(0),
        sapling: h(1),
        blossom: h(2),
        heartwood: h(3),
        canopy: h(4),
        nu5: h(5),
        nu6: h(6),
        nu6_1: h(7),
        nu6_2: h(8),
        nu6_3: h(9),
    }
}

/// The consensus branch in force at `height`: the latest upgrade whose activation height has been
/// reached (protocol spec section 6, "network upgrades").
pub fn ref_branch(l: &Layout, height: u32) -> Br {
    let mut br = Br::Sprout;
    for (i, u) in Br::UPGRADES.iter().enumerate() {
        if l[i].is_some_and(|a| a <= height) {
            br = *u;
        }
    }
    br
}

#[derive(Clone, Copy, Debug, PartialEq, Eq)]
pub enum Z212 {
    Off,
    Grace,
    On,
}

/// ZIP 212: off before Canopy, grace period of 32256 blocks from Canopy activation, then enforced.
pub fn ref_zip212(l: &Layout, height: u32) -> Z212 {
    match l[4] {
        Some(c) if c <= height => {
            if (height as u64) < c as u64 + 32_256 {
                Z212::Grace
            } else {
                Z212::On
            }
        }
        _ => Z212::Off,
    }
}

#[derive(Clone, Copy, Debug, PartialEq, Eq)]
pub enum Ver {
    Sprout2,
    V3,
    V4,
    V5,
    V6,
}

impl Ver {
    pub fn real(self) -> TxVersion {
        match self {
            Ver::Sprout2 => TxVersion::Sprout(2),
            Ver::V3 => TxVersion::V3,
            Ver::V4 => TxVersion::V4,
            Ver::V5 => TxVersion::V5,
            Ver::V6 => TxVersion::V6,
        }
    }
    pub fn of(v: TxVersion) -> Option<Ver> {
        match v {
            TxVersion::Sprout(2) => Some(Ver::Sprout2),
            TxVersion::Sprout(_) => None,
            TxVersion::V3 => Some(Ver::V3),
            TxVersion::V4 => Some(Ver::V4),
            TxVersion::V5 => Some(Ver::V5),
            TxVersion::V6 => Some(Ver::V6),
        }
    }
    /// v4 introduced Sapling fields, v5 (ZIP 225) Orchard fields, v6 the Ironwood bundle.
    pub fn has_sapling(self) -> bool {
        matches!(self, Ver::V4 | Ver::V5 | Ver::V6)
    }
    pub fn has_orchard(self) -> bool {
        matches!(self, Ver::V5 | Ver::V6)
    }
    pub fn has_ironwood(self) -> bool {
        self == Ver::V6
    }
    pub fn label(self) -> &'static str {
        match self {
            Ver::Sprout2 => "version:sprout2",
            Ver::V3 => "version:v3",
            Ver::V4 => "version:v4",
            Ver::V5 => "version:v5",
            Ver::V6 => "version:v6",
        }
    }
}

/// Transaction version consensus rules: pre-Overwinter versions only before Overwinter; v3 only
/// under Overwinter; v4 from Sapling (still accepted through NU6.3); v5 from NU5 (ZIP 225); v6 from
/// NU6.3.
pub fn ref_version_valid(v: Ver, br: Br) -> bool {
    match v {
        Ver::Sprout2 => br == Br::Sprout,
        Ver::V3 => br == Br::Overwinter,
        Ver::V4 => br >= Br::Sapling,
        Ver::V5 => br >= Br::Nu5,
        Ver::V6 => br >= Br::Nu6_3,
    }
}

/// The version the builder documents as its default for a branch (latest format of the branch).
pub fn ref_default_version(br: Br) -> Ver {
    match br {
        Br::Sprout => Ver::Sprout2,
        Br::Overwinter => Ver::V3,
        Br::Sapling | Br::Blossom | Br::Heartwood | Br::Canopy => Ver::V4,
        Br::Nu5 | Br::Nu6 | Br::Nu6_1 | Br::Nu6_2 => Ver::V5,
        Br::Nu6_3 => Ver::V6,
    }
}

#[derive(Clone, Copy, Debug, PartialEq, Eq)]
pub enum Anc {
    None,
    /// root of the tree that holds the requested notes (empty-tree root when there are none)
    Real,
    /// an anchor that is not the root of the requested notes' tree
    Wrong,
}

#[derive(Clone, Copy, Debug, PartialEq, Eq)]
pub struct Pad {
    pub required: bool,
    pub min: Option<u8>,
}

#[derive(Clone, Debug, PartialEq, Eq)]
pub enum Rule {
    Standard,
    NonStd { marginal: u64, grace: usize, std_in: usize, std_out: usize },
    Fixed(u64),
}

/// How a transparent coin is locked / spent.
#[derive(Clone, Debug, PartialEq, Eq)]
pub enum TSpend {
    /// pay-to-public-key-hash of harness key `TIn::key`
    P2pkh,
    /// pay-to-script-hash of the `m`-of-`keys.len()` multisig redeem script over the harness keys
    /// `keys` (in redeem-script order). Bit `j` of `present` = the key at position `j` is put into
    /// the signing set (the set is shared by all inputs of the transaction).
    P2sh { m: u8, keys: Vec<u8>, present: u16 },
    /// pay-to-script-hash of a redeem script that is not a multisig script (the P2PKH script of
    /// harness key `TIn::key`): documented as not supported for signing / size estimation
    P2shOther,
}

impl TSpend {
    pub fn is_p2sh_multisig(&self) -> bool {
        matches!(self, TSpend::P2sh { .. })
    }
}

#[derive(Clone, Debug, PartialEq, Eq)]
pub struct TIn {
    pub key: u8,
    pub value: u64,
    /// coin script does not belong to the spend information (another key / another script hash /
    /// the other script kind): documented `InvalidAddress` at add time
    pub wrong_script: bool,
    /// go through `TransparentInputInfo::from_parts` + `add_transparent_input`
    pub via_info: bool,
    pub spend: TSpend,
}

#[derive(Clone, Debug, PartialEq, Eq)]
pub enum TKind {
    P2pkh([u8; 20]),
    P2sh([u8; 20]),
    Null(Vec<u8>),
}

#[derive(Clone, Debug, PartialEq, Eq)]
pub struct TOut {
    pub kind: TKind,
    pub value: u64,
}

#[derive(Clone, Debug, PartialEq, Eq)]
pub struct SIn {
    pub key: u8,
    pub value: u64,
    pub rseed: [u8; 32],
}

#[derive(Clone, Debug, PartialEq, Eq)]
pub enum Memo {
    Empty,
    Short(Vec<u8>),
    /// 512 pseudo-random bytes, last byte non-zero
    Full(u64),
}

impl Memo {
    pub fn bytes(&self) -> Vec<u8> {
        match self {
            Memo::Empty => vec![],
            Memo::Short(v) => v.clone(),
            Memo::Full(seed) => {
                let mut out = Vec::with_capacity(512);
                let mut ctr = 0u64;
                while out.len() < 512 {
                    let mut inp = seed.to_le_bytes().to_vec();
                    inp.extend_from_slice(&ctr.to_le_bytes());
                    out.extend_from_slice(&vcore::hash64(&inp).to_le_bytes());
                    ctr += 1;
                }
                out.truncate(512);
                out[511] |= 1;
                // first byte below 0xF5 so that it is an ordinary text/arbitrary memo
                out[0] &= 0x7f;
                out
            }
        }
    }
}

#[derive(Clone, Debug, PartialEq, Eq)]
pub struct ShOut {
    pub key: u8,
    pub internal: bool,
    pub div: u8,
    pub value: u64,
    pub memo: Memo,
    pub ovk: Option<[u8; 32]>,
    /// Orchard only: use `add_orchard_change_output`
    pub change: bool,
    /// Orchard change only: pass the full viewing key of another account
    pub wrong_owner: bool,
}

#[derive(Clone, Debug, PartialEq, Eq)]
pub struct OIn {
    pub key: u8,
    pub internal: bool,
    pub div: u8,
    pub value: u64,
    pub rho: [u8; 32],
    pub rseed: [u8; 32],
    /// Ironwood only: note with the Orchard (V2) plaintext version
    pub wrong_version: bool,
}

#[derive(Clone, Copy, Debug, PartialEq, Eq)]
pub enum Bal {
    /// inputs - outputs - fee = 0
    Exact,
    Minus1,
    Plus1,
    /// solved to the given offset
    Off(i64),
    /// values left as generated
    Free,
}

#[derive(Clone, Copy, Debug, PartialEq, Eq)]
pub enum KeyFault {
    None,
    MissingTransparent,
    MissingSapling,
}

#[derive(Clone, Debug, PartialEq, Eq)]
pub struct Case {
    pub engine: Engine,
    pub layout: u8,
    pub height: u32,
    /// (version, proposed after the content was added)
    pub propose: Option<(Ver, bool)>,
    pub sap_anchor: Anc,
    pub orc_anchor: Anc,
    pub iro_anchor: Anc,
    pub orc_pad: Pad,
    pub iro_pad: Pad,
    pub rule: Rule,
    pub t_in: Vec<TIn>,
    pub t_out: Vec<TOut>,
    pub s_in: Vec<SIn>,
    pub s_out: Vec<ShOut>,
    pub o_in: Vec<OIn>,
    pub o_out: Vec<ShOut>,
    pub i_in: Vec<OIn>,
    pub i_out: Vec<ShOut>,
    pub bal: Bal,
    pub slot: u32,
    pub key_fault: KeyFault,
    pub key_perm: u8,
    pub seed: [u8; 32],
}

// ---------------------------------------------------------------------------------------------
// Shape and fee reference
// ---------------------------------------------------------------------------------------------

#[derive(Clone, Debug, PartialEq, Eq, Default)]
pub struct Shape {
    /// size in bytes with which each transparent input is priced: the ZIP 317 standard size for a
    /// P2PKH input, the estimated serialized size for a P2SH multisig input
    pub t_in_sizes: Vec<usize>,
    /// serialized sizes of the transparent outputs: 8 + CompactSize(len) + len
    pub t_out_sizes: Vec<usize>,
    pub s_spends: usize,
    pub s_outputs: usize,
    pub o_actions: usize,
    pub i_actions: usize,
}

pub fn compact_size_len(n: usize) -> usize {
    if n < 253 {
        1
    } else if n <= 0xFFFF {
        3
    } else if n <= 0xFFFF_FFFF {
        5
    } else {
        9
    }
}

pub fn txout_size(script_len: usize) -> usize {
    8 + compact_size_len(script_len) + script_len
}

/// `sapling::builder::BundleType::Transactional { bundle_required: false }` rustdoc: padded to at
/// least 2 outputs whenever there is any spend or output; spends are the requested ones.
pub fn ref_sapling_counts(spends: usize, outputs: usize) -> (usize, usize) {
    if spends > 0 || outputs > 0 {
        (spends, outputs.max(2))
    } else {
        (0, 0)
    }
}

/// `orchard::builder::BundleType::num_actions` / `BundlePadding` rustdoc.
pub fn ref_orchard_actions(no_cross_address: bool, pad: Pad, spends: usize, outputs: usize) -> usize {
    let requested = if no_cross_address { spends + outputs } else { spends.max(outputs) };
    let mut min = pad.min.map(|m| m as usize).unwrap_or(2);
    if pad.required {
        min = min.max(1);
    }
    if pad.required || requested > 0 {
        requested.max(min)
    } else {
        0
    }
}

/// ZIP 317 conventional fee with explicit parameters, in u128.
pub fn zip317(marginal: u128, grace: u128, std_in: u128, std_out: u128, s: &Shape, t_in_bytes: u128) -> u128 {
    // ZIP 317: logical_actions = max(ceil(tx_in_total_size / 150), ceil(tx_out_total_size / 34))
    //          + max(nSpendsSapling, nOutputsSapling) + nActionsOrchard (+ Ironwood actions);
    //          conventional_fee = marginal_fee * max(grace_actions, logical_actions)
    let t_out_bytes: u128 = s.t_out_sizes.iter().map(|x| *x as u128).sum();
    let logical = t_in_bytes.div_ceil(std_in).max(t_out_bytes.div_ceil(std_out))
        + (s.s_spends.max(s.s_outputs) as u128)
        + s.o_actions as u128
        + s.i_actions as u128;
    marginal * grace.max(logical)
}

/// Size with which a P2PKH input is priced: the ZIP 317 standard size of 150 bytes (documented on
/// `InputView for TransparentInputInfo` and `InputSize::STANDARD_P2PKH`).
pub const P2PKH_PRICED_SIZE: usize = 150;

/// Fee the rule prescribes for a shape. P2PKH inputs count with the ZIP 317 standard size of 150
/// bytes, P2SH inputs with their estimated serialized size (`Shape::t_in_sizes`). `None` = the fee
/// is not a valid amount (documented `FeeError::Balance(Overflow)`).
pub fn ref_fee(rule: &Rule, s: &Shape) -> Option<u128> {
    let t_in_bytes: u128 = s.t_in_sizes.iter().map(|x| *x as u128).sum();
    ref_fee_exact_sizes(rule, s, t_in_bytes)
}

/// Same with the true serialized input sizes (ZIP 317 proper): a lower bound of the fee paid.
pub fn ref_fee_exact_sizes(rule: &Rule, s: &Shape, t_in_bytes: u128) -> Option<u128> {
    let f = match rule {
        Rule::Fixed(f) => *f as u128,
        Rule::Standard => zip317(5_000, 2, 150, 34, s, t_in_bytes),
        Rule::NonStd { marginal, grace, std_in, std_out } => {
            zip317(*marginal as u128, *grace as u128, *std_in as u128, *std_out as u128, s, t_in_bytes)
        }
    };
    (f <= MAX_MONEY as u128).then_some(f)
}

// ---------------------------------------------------------------------------------------------
// Script reference (Bitcoin standard templates)
// ---------------------------------------------------------------------------------------------

pub fn p2pkh_script(h: &[u8; 20]) -> Vec<u8> {
    let mut v = vec![0x76, 0xa9, 0x14];
    v.extend_from_slice(h);
    v.extend_from_slice(&[0x88, 0xac]);
    v
}

pub fn p2sh_script(h: &[u8; 20]) -> Vec<u8> {
    let mut v = vec![0xa9, 0x14];
    v.extend_from_slice(h);
    v.push(0x87);
    v
}

/// OP_RETURN followed by a minimal push of `data` (2..=80 bytes generated: direct push up to 75
/// bytes, OP_PUSHDATA1 above).
pub fn null_data_script(data: &[u8]) -> Vec<u8> {
    let mut v = vec![0x6a];
    if data.len() <= 75 {
        v.push(data.len() as u8);
    } else {
        v.push(0x4c);
        v.push(data.len() as u8);
    }
    v.extend_from_slice(data);
    v
}

/// Minimal data push (Bitcoin script): a 1-byte length below 76 bytes, OP_PUSHDATA1 (0x4c) with a
/// 1-byte length up to 255 bytes, OP_PUSHDATA2 (0x4d) with a 2-byte little-endian length above.
pub fn push_data(data: &[u8]) -> Vec<u8> {
    let mut v = vec![];
    if data.len() < 76 {
        v.push(data.len() as u8);
    } else if data.len() <= 255 {
        v.push(0x4c);
        v.push(data.len() as u8);
    } else {
        assert!(data.len() <= 0xFFFF, "harness: push longer than OP_PUSHDATA2 allows");
        v.push(0x4d);
        v.extend_from_slice(&(data.len() as u16).to_le_bytes());
    }
    v.extend_from_slice(data);
    v
}

/// Standard bare-multisig template: `OP_m <33-byte pubkey>.. OP_n OP_CHECKMULTISIG`
/// (OP_1..OP_16 = 0x51..0x60, OP_CHECKMULTISIG = 0xae).
pub fn multisig_redeem_script(m: u8, pubkeys: &[[u8; 33]]) -> Vec<u8> {
    assert!((1..=16).contains(&m) && (1..=16).contains(&pubkeys.len()), "harness: multisig arity");
    let mut v = vec![0x50 + m];
    for pk in pubkeys {
        v.push(33);
        v.extend_from_slice(pk);
    }
    v.push(0x50 + pubkeys.len() as u8);
    v.push(0xae);
    v
}

/// Independent parser of the template above: (m, pubkeys).
pub fn parse_multisig_redeem_script(s: &[u8]) -> Option<(u8, Vec<[u8; 33]>)> {
    let (&first, rest) = s.split_first()?;
    if !(0x51..=0x60).contains(&first) || rest.len() < 2 || rest[rest.len() - 1] != 0xae {
        return None;
    }
    let n_op = rest[rest.len() - 2];
    if !(0x51..=0x60).contains(&n_op) {
        return None;
    }
    let body = &rest[..rest.len() - 2];
    if body.len() % 34 != 0 {
        return None;
    }
    let mut keys = vec![];
    for chunk in body.chunks(34) {
        if chunk[0] != 33 {
            return None;
        }
        let mut k = [0u8; 33];
        k.copy_from_slice(&chunk[1..]);
        keys.push(k);
    }
    let (m, n) = (first - 0x50, n_op - 0x50);
    (keys.len() == n as usize && m <= n).then_some((m, keys))
}

/// Estimated serialized size of an input that spends a P2SH `m`-of-n multisig coin, as documented
/// for the builder (`p2sh_input_serialized_len`, `MAX_SIG_SIZE`): outpoint (36) + CompactSize of
/// the scriptSig length + scriptSig + sequence (4), where the scriptSig is
/// `OP_0 <sig>*m <redeem script>` with every signature taken at its maximum size of 72 DER bytes
/// + 1 hash-type byte (each pushed with a 1-byte length).
pub fn p2sh_multisig_input_size(m: usize, redeem_script_len: usize) -> usize {
    let push_len = if redeem_script_len < 76 {
        1
    } else if redeem_script_len <= 255 {
        2
    } else {
        3
    };
    let script_sig = 1 + m * (1 + 73) + push_len + redeem_script_len;
    36 + compact_size_len(script_sig) + script_sig + 4
}

pub fn expected_script(k: &TKind) -> Vec<u8> {
    match k {
        TKind::P2pkh(h) => p2pkh_script(h),
        TKind::P2sh(h) => p2sh_script(h),
        TKind::Null(d) => null_data_script(d),
    }
}

//! Pure planning of one case from the reference model: which requested items the builder documents
//! as acceptable, the final values (one value is solved so that the request lands on the chosen
//! distance from balance), the padded shape, the fee, and the set of documented reasons for which
//! the build may fail.

use vcore::pick_index;

use crate::types::*;
use crate::world::keys;

pub const T_IN: usize = 0;
pub const T_OUT: usize = 1;
pub const S_IN: usize = 2;
pub const S_OUT: usize = 3;
pub const O_IN: usize = 4;
pub const O_OUT: usize = 5;
pub const I_IN: usize = 6;
pub const I_OUT: usize = 7;
const INPUTS: [usize; 4] = [T_IN, S_IN, O_IN, I_IN];
const OUTPUTS: [usize; 4] = [T_OUT, S_OUT, O_OUT, I_OUT];

#[derive(Clone, Debug, PartialEq, Eq)]
pub enum Cause {
    FeeOverflow,
    Version,
    BalanceRange,
    Insufficient(i128),
    Change(i128),
    PcztZip212,
    MissingTKey,
    MissingSKey,
    PreOverwinter,
    /// ZIP 317 fee rules: a P2SH input whose redeem script is not a recognized kind has no known
    /// size (documented `zip317::FeeError::UnknownP2shInputs`)
    UnknownP2sh,
    /// signing a P2SH input whose redeem script is not multisig (documented
    /// `transparent::builder::Error::UnsupportedScript`)
    UnsupportedScript,
    /// `DeferredPcztBuilder::new` below NU6.3 (documented `Error::AnchorDeferralUnsupported`)
    DeferralUnsupported,
}

/// Reference view of one requested P2SH multisig input.
#[derive(Clone, Debug, PartialEq, Eq)]
pub struct P2shRef {
    pub m: usize,
    /// harness key index per redeem-script position
    pub keys: Vec<usize>,
    /// positions whose key is in the signing set (ascending)
    pub available: Vec<usize>,
}

#[derive(Clone, Debug)]
#[allow(dead_code)]
pub struct Plan {
    pub br: Br,
    pub z212: Z212,
    pub sap_exists: bool,
    pub orc_exists: bool,
    pub iro_exists: bool,
    pub orc_no_cross: bool,
    /// expected add-time outcome class per item ("" = accepted), by pool-kind index
    pub exp: [Vec<&'static str>; 8],
    /// final values per item, by pool-kind index
    pub val: [Vec<u64>; 8],
    pub shape: Shape,
    pub fee: Option<u128>,
    pub sum_in: i128,
    pub sum_out: i128,
    pub solved: bool,
    /// expected result of `propose_version` (None = not proposed)
    pub propose_ok: Option<bool>,
    pub eff_ver: Ver,
    /// the proposal is valid for the branch and the content, but a `bundle_required` pool cannot be
    /// carried by the proposed version: acceptance and rejection are both tolerated
    pub propose_undecided: bool,
    /// a required all-dummy bundle in a pool that the effective version cannot carry: the property
    /// does not say whether the builder should refuse or omit it; only result-side consistency is
    /// checked.
    pub undecided_shape: bool,
    pub causes: Vec<Cause>,
    /// documented reasons for which the build MAY fail without the property requiring it
    pub may: Vec<Cause>,
    /// key index left out of the signing set / spending keys
    pub omit_tkey: Option<usize>,
    pub omit_skey: Option<usize>,
    /// redeem script per requested transparent input (`None` for P2PKH)
    pub redeem: Vec<Option<Vec<u8>>>,
    /// multisig view per requested transparent input (`None` unless P2SH multisig)
    pub p2sh: Vec<Option<P2shRef>>,
    /// transparent signing set, in the order in which the keys are added (full builds only)
    pub sign_set: Vec<usize>,
    /// some accepted P2SH multisig input has fewer than m of its keys in the signing set
    pub p2sh_short_of_keys: bool,
    /// `DeferredPcztBuilder::new` is documented to succeed
    pub deferral_ok: bool,
}

impl Plan {
    pub fn accepted(&self, kind: usize) -> impl Iterator<Item = usize> + '_ {
        self.exp[kind].iter().enumerate().filter(|(_, e)| e.is_empty()).map(|(i, _)| i)
    }
    pub fn n_acc(&self, kind: usize) -> usize {
        self.accepted(kind).count()
    }
    pub fn diff(&self) -> Option<i128> {
        self.fee.map(|f| self.sum_in - self.sum_out - f as i128)
    }
    pub fn pools_with_content(&self) -> usize {
        [(T_IN, T_OUT), (S_IN, S_OUT), (O_IN, O_OUT), (I_IN, I_OUT)]
            .iter()
            .filter(|(a, b)| self.n_acc(*a) + self.n_acc(*b) > 0)
            .count()
    }
}

/// Redeem script of a requested input, from the harness keys (`None` for P2PKH).
pub fn redeem_script_of(x: &TIn) -> Option<Vec<u8>> {
    let k = keys();
    match &x.spend {
        TSpend::P2pkh => None,
        TSpend::P2sh { m, keys: ks, .. } => {
            let pks: Vec<[u8; 33]> = ks.iter().map(|i| k.t[*i as usize].pk.serialize()).collect();
            Some(multisig_redeem_script(*m, &pks))
        }
        TSpend::P2shOther => Some(p2pkh_script(&k.t[x.key as usize].pkh)),
    }
}

/// `reject_undecided`: assume that a proposal whose validity the property leaves open (see
/// `Plan::propose_undecided`) is rejected by the builder; the caller first plans with `false` and
/// re-plans with `true` when the builder does reject it.
pub fn plan(c: &Case, reject_undecided: bool) -> Plan {
    let lay = &LAYOUTS[c.layout as usize];
    let br = ref_branch(lay, c.height);
    let z212 = ref_zip212(lay, c.height);
    // Builder error docs: Sapling needs an anchor; Orchard needs an anchor and NU5; Ironwood needs
    // an anchor and NU6.3.
    // DeferredPcztBuilder: no anchors at all, both Orchard-family pools always available, but only
    // where the branch's default format is v6 (documented on `DeferredPcztBuilder::new`); it takes
    // no transparent or Sapling content.
    let deferred = c.engine == Engine::Deferred;
    let deferral_ok = ref_default_version(br) == Ver::V6;
    if deferred {
        assert!(c.t_in.is_empty() && c.t_out.is_empty() && c.s_in.is_empty() && c.s_out.is_empty() && c.propose.is_none(), "harness: deferred cases carry Orchard-family content only");
    }
    let sap_exists = !deferred && c.sap_anchor != Anc::None;
    let orc_exists = if deferred { deferral_ok } else { c.orc_anchor != Anc::None && br >= Br::Nu5 };
    let iro_exists = if deferred { deferral_ok } else { c.iro_anchor != Anc::None && br >= Br::Nu6_3 };
    // Orchard pool from NU6.3: cross-address transfers prohibited (OrchardProtocolRevision::V3 doc)
    let orc_no_cross = br >= Br::Nu6_3;
    let redeem: Vec<Option<Vec<u8>>> = c.t_in.iter().map(redeem_script_of).collect();

    let mut exp: [Vec<&'static str>; 8] = Default::default();
    exp[T_IN] = c.t_in.iter().map(|x| if x.wrong_script { "transparent-invalid-address" } else { "" }).collect();
    exp[T_OUT] = c
        .t_out
        .iter()
        .map(|x| match &x.kind {
            TKind::Null(d) if d.len() > 80 => "null-data-too-long",
            _ => "",
        })
        .collect();
    exp[S_IN] = c
        .s_in
        .iter()
        .map(|_| match c.sap_anchor {
            Anc::None => "sapling-na",
            Anc::Wrong => "sapling-anchor-mismatch",
            Anc::Real => "",
        })
        .collect();
    exp[S_OUT] = c.s_out.iter().map(|_| if sap_exists { "" } else { "sapling-na" }).collect();
    exp[O_IN] = c
        .o_in
        .iter()
        .map(|_| {
            if !orc_exists {
                "orchard-na"
            } else if c.orc_anchor == Anc::Wrong && !deferred {
                "orchard-anchor-mismatch"
            } else {
                ""
            }
        })
        .collect();
    exp[O_OUT] = c
        .o_out
        .iter()
        .map(|x| {
            if !orc_exists {
                "orchard-na"
            } else if x.change {
                if x.wrong_owner {
                    "orchard-recipient-not-owned"
                } else {
                    ""
                }
            } else if orc_no_cross {
                "orchard-cross-address-disabled"
            } else {
                ""
            }
        })
        .collect();
    exp[I_IN] = c
        .i_in
        .iter()
        .map(|x| {
            if !iro_exists {
                "ironwood-na"
            } else if x.wrong_version {
                "ironwood-note-version"
            } else if c.iro_anchor == Anc::Wrong && !deferred {
                "ironwood-anchor-mismatch"
            } else {
                ""
            }
        })
        .collect();
    exp[I_OUT] = c.i_out.iter().map(|_| if iro_exists { "" } else { "ironwood-na" }).collect();

    // ---- values: clamp so that neither side can leave the money range
    let mut val: [Vec<u64>; 8] = Default::default();
    val[T_IN] = c.t_in.iter().map(|x| x.value).collect();
    val[T_OUT] = c.t_out.iter().map(|x| if matches!(x.kind, TKind::Null(_)) { 0 } else { x.value }).collect();
    val[S_IN] = c.s_in.iter().map(|x| x.value).collect();
    val[S_OUT] = c.s_out.iter().map(|x| x.value).collect();
    val[O_IN] = c.o_in.iter().map(|x| x.value).collect();
    val[O_OUT] = c.o_out.iter().map(|x| x.value).collect();
    val[I_IN] = c.i_in.iter().map(|x| x.value).collect();
    val[I_OUT] = c.i_out.iter().map(|x| x.value).collect();
    let cap = zcash_protocol::value::MAX_MONEY / 2;
    for side in [INPUTS, OUTPUTS] {
        let mut run = 0u64;
        for kind in side {
            for i in 0..val[kind].len() {
                if exp[kind][i].is_empty() {
                    let v = val[kind][i].min(cap - run);
                    val[kind][i] = v;
                    run += v;
                } else {
                    // rejected item: the value only has to be a valid non-zero amount (zero-valued
                    // notes are exempt from the anchor check)
                    val[kind][i] = val[kind][i].clamp(1, cap);
                }
            }
        }
    }

    let n_acc = |kind: usize| exp[kind].iter().filter(|e| e.is_empty()).count();

    // ---- propose_version / effective version
    let content_compatible = |v: Ver| {
        let sap_content = n_acc(S_IN) + n_acc(S_OUT) > 0;
        let orc_content = n_acc(O_IN) + n_acc(O_OUT) > 0;
        let iro_content = n_acc(I_IN) + n_acc(I_OUT) > 0;
        (!sap_content || (v.has_sapling() && br >= Br::Sapling))
            && (!orc_content || (v.has_orchard() && br >= Br::Nu5))
            && (!iro_content || (v.has_ironwood() && br >= Br::Nu6_3))
    };
    let mut eff_ver = ref_default_version(br);
    let mut propose_undecided = false;
    let propose_ok = c.propose.map(|(v, late)| {
        let mut ok = ref_version_valid(v, br) && (!late || content_compatible(v));
        // a `bundle_required` (all-dummy) bundle of a pool that `v` cannot carry: neither the
        // property nor the rustdoc says whether the proposal is acceptable
        if ok && ((orc_exists && c.orc_pad.required && !v.has_orchard()) || (iro_exists && c.iro_pad.required && !v.has_ironwood())) {
            propose_undecided = true;
            ok = !reject_undecided;
        }
        if ok {
            eff_ver = v;
        }
        ok
    });

    // ---- shape
    let (s_spends, s_outputs) = if sap_exists { ref_sapling_counts(n_acc(S_IN), n_acc(S_OUT)) } else { (0, 0) };
    let o_actions = if orc_exists { ref_orchard_actions(orc_no_cross, c.orc_pad, n_acc(O_IN), n_acc(O_OUT)) } else { 0 };
    let i_actions = if iro_exists { ref_orchard_actions(false, c.iro_pad, n_acc(I_IN), n_acc(I_OUT)) } else { 0 };
    let mut unknown_p2sh = false;
    let t_in_sizes: Vec<usize> = c
        .t_in
        .iter()
        .enumerate()
        .filter(|(i, _)| exp[T_IN][*i].is_empty())
        .map(|(i, x)| match &x.spend {
            TSpend::P2pkh => P2PKH_PRICED_SIZE,
            TSpend::P2sh { m, .. } => p2sh_multisig_input_size(*m as usize, redeem[i].as_ref().expect("p2sh has a redeem script").len()),
            TSpend::P2shOther => {
                unknown_p2sh = true;
                0
            }
        })
        .collect();
    // a ZIP 317 rule cannot price an input of unknown size; a fixed fee does not look at sizes
    let unknown_p2sh = unknown_p2sh && !matches!(c.rule, Rule::Fixed(_));
    let shape = Shape {
        t_in_sizes,
        t_out_sizes: c
            .t_out
            .iter()
            .zip(&exp[T_OUT])
            .filter(|(_, e)| e.is_empty())
            .map(|(o, _)| txout_size(expected_script(&o.kind).len()))
            .collect(),
        s_spends,
        s_outputs,
        o_actions,
        i_actions,
    };
    let undecided_shape = (o_actions > 0 && n_acc(O_IN) + n_acc(O_OUT) == 0 && !eff_ver.has_orchard())
        || (i_actions > 0 && n_acc(I_IN) + n_acc(I_OUT) == 0 && !eff_ver.has_ironwood());
    let fee = if unknown_p2sh { None } else { ref_fee(&c.rule, &shape) };

    // ---- solve one value
    let sum = |val: &[Vec<u64>; 8], side: [usize; 4]| -> i128 {
        side.iter()
            .map(|k| val[*k].iter().zip(&exp[*k]).filter(|(_, e)| e.is_empty()).map(|(v, _)| *v as i128).sum::<i128>())
            .sum()
    };
    let mut sum_in = sum(&val, INPUTS);
    let mut sum_out = sum(&val, OUTPUTS);
    let target = match c.bal {
        Bal::Exact => Some(0i128),
        Bal::Minus1 => Some(-1),
        Bal::Plus1 => Some(1),
        Bal::Off(d) => Some(d as i128),
        Bal::Free => None,
    };
    let mut solved = false;
    if let (Some(f), Some(d)) = (fee, target) {
        let adj = sum_out + f as i128 + d - sum_in;
        let slots = |side: [usize; 4]| -> Vec<(usize, usize)> {
            let mut v = vec![];
            for k in side {
                for (i, e) in exp[k].iter().enumerate() {
                    let null = k == T_OUT && matches!(c.t_out[i].kind, TKind::Null(_));
                    if e.is_empty() && !null {
                        v.push((k, i));
                    }
                }
            }
            v
        };
        let ins = slots(INPUTS);
        let outs = slots(OUTPUTS);
        // raise one value, or lower values (starting at the selected slot) until the offset is met
        let mut adjust = |slots: &[(usize, usize)], delta: i128, side_sum: i128| -> bool {
            if slots.is_empty() || side_sum + delta < 0 || side_sum + delta > M {
                return false;
            }
            let start = pick_index(c.slot, slots.len());
            if delta >= 0 {
                let (k, i) = slots[start];
                val[k][i] += delta as u64;
            } else {
                let mut rest = (-delta) as u64;
                for n in 0..slots.len() {
                    let (k, i) = slots[(start + n) % slots.len()];
                    let take = rest.min(val[k][i]);
                    val[k][i] -= take;
                    rest -= take;
                }
                debug_assert_eq!(rest, 0);
            }
            true
        };
        solved = adjust(&ins, adj, sum_in) || adjust(&outs, -adj, sum_out);
        sum_in = sum(&val, INPUTS);
        sum_out = sum(&val, OUTPUTS);
    }

    // ---- documented reasons for a failing build
    let mut causes = vec![];
    let mut may = vec![];
    if deferred && !deferral_ok {
        causes.push(Cause::DeferralUnsupported);
    }
    if unknown_p2sh {
        causes.push(Cause::UnknownP2sh);
    } else if fee.is_none() {
        causes.push(Cause::FeeOverflow);
    }
    if !content_compatible(eff_ver) {
        causes.push(Cause::Version);
    }
    if let Some(f) = fee {
        let diff = sum_in - sum_out - f as i128;
        if diff < -M {
            causes.push(Cause::BalanceRange);
        } else if diff < 0 {
            causes.push(Cause::Insufficient(-diff));
        } else if diff > 0 {
            causes.push(Cause::Change(diff));
        }
    }
    if c.engine == Engine::Pczt && sap_exists && z212 != Z212::On {
        causes.push(Cause::PcztZip212);
    }
    let mut omit_tkey = None;
    let mut omit_skey = None;
    let mut sign_set: Vec<usize> = vec![];
    let mut p2sh: Vec<Option<P2shRef>> = vec![None; c.t_in.len()];
    let mut p2sh_short_of_keys = false;
    let has_p2sh_other = c.t_in.iter().zip(&exp[T_IN]).any(|(x, e)| e.is_empty() && x.spend == TSpend::P2shOther);
    if has_p2sh_other {
        if matches!(c.engine, Engine::Build | Engine::Prove) {
            causes.push(Cause::UnsupportedScript);
        } else {
            // nothing is signed here; neither acceptance nor refusal is documented
            may.push(Cause::UnsupportedScript);
        }
    }
    if matches!(c.engine, Engine::Build | Engine::Prove) {
        // signing keys: the key of every P2PKH input, the keys marked present of every multisig
        // input, plus an unrelated one; minus the deliberately omitted one
        sign_set.push(6);
        for (x, e) in c.t_in.iter().zip(&exp[T_IN]) {
            if !e.is_empty() {
                continue;
            }
            match &x.spend {
                TSpend::P2pkh | TSpend::P2shOther => sign_set.push(x.key as usize),
                TSpend::P2sh { keys: ks, present, .. } => {
                    sign_set.extend(ks.iter().enumerate().filter(|(j, _)| present >> j & 1 == 1).map(|(_, k)| *k as usize))
                }
            }
        }
        if c.key_fault == KeyFault::MissingTransparent {
            if let Some(i) = exp[T_IN].iter().rposition(|e| e.is_empty()) {
                omit_tkey = Some(match &c.t_in[i].spend {
                    TSpend::P2pkh | TSpend::P2shOther => c.t_in[i].key as usize,
                    TSpend::P2sh { keys: ks, present, .. } => {
                        let j = (0..ks.len()).find(|j| present >> j & 1 == 1).unwrap_or(0);
                        ks[j] as usize
                    }
                });
            }
        }
        sign_set.sort();
        sign_set.dedup();
        sign_set.retain(|x| Some(*x) != omit_tkey);
        // case-dependent order of insertion into the signing set
        if c.key_perm & 1 == 1 {
            sign_set.reverse();
        }
        if c.key_perm & 8 == 8 && !sign_set.is_empty() {
            let r = (c.key_perm >> 4) as usize % sign_set.len();
            sign_set.rotate_left(r);
        }
        // documented `MissingSigningKey`: "a required signing key was missing, or insufficient keys
        // were provided to meet a multisig threshold"
        let mut missing = false;
        for (i, (x, e)) in c.t_in.iter().zip(&exp[T_IN]).enumerate() {
            if !e.is_empty() {
                continue;
            }
            match &x.spend {
                TSpend::P2pkh => missing |= !sign_set.contains(&(x.key as usize)),
                TSpend::P2sh { m, keys: ks, .. } => {
                    let keys: Vec<usize> = ks.iter().map(|k| *k as usize).collect();
                    let available: Vec<usize> = (0..keys.len()).filter(|j| sign_set.contains(&keys[*j])).collect();
                    if available.len() < *m as usize {
                        missing = true;
                        p2sh_short_of_keys = true;
                    }
                    p2sh[i] = Some(P2shRef { m: *m as usize, keys, available });
                }
                TSpend::P2shOther => {}
            }
        }
        if missing {
            causes.push(Cause::MissingTKey);
        }
        if c.key_fault == KeyFault::MissingSapling {
            if let Some(i) = exp[S_IN].iter().position(|e| e.is_empty()) {
                omit_skey = Some(c.s_in[i].key as usize);
                causes.push(Cause::MissingSKey);
            }
        }
        if eff_ver == Ver::Sprout2 {
            causes.push(Cause::PreOverwinter);
        }
    } else {
        for (i, x) in c.t_in.iter().enumerate() {
            if let TSpend::P2sh { m, keys: ks, .. } = &x.spend {
                p2sh[i] = Some(P2shRef { m: *m as usize, keys: ks.iter().map(|k| *k as usize).collect(), available: vec![] });
            }
        }
    }

    Plan {
        br,
        z212,
        sap_exists,
        orc_exists,
        iro_exists,
        orc_no_cross,
        exp,
        val,
        shape,
        fee,
        sum_in,
        sum_out,
        solved,
        propose_ok,
        eff_ver,
        propose_undecided,
        undecided_shape,
        causes,
        may,
        omit_tkey,
        omit_skey,
        redeem,
        p2sh,
        sign_set,
        p2sh_short_of_keys,
        deferral_ok,
    }
}

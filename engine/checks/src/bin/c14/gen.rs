//! Request generator. Content is generated *for* the branch in force at the chosen height (valid by
//! construction), with small deliberate fractions of documented precondition violations.

use proptest::collection::vec as pvec;
use proptest::prelude::*;
use proptest::sample::select;

use crate::types::*;

fn arb_value() -> BoxedStrategy<u64> {
    prop_oneof![
        4 => select(vec![
            0u64, 1, 2, 999, 1_000, 4_999, 5_000, 5_001, 9_999, 10_000, 10_001, 15_000, 20_000, 50_000, 100_000,
            1_000_000, 12_345_678, 100_000_000
        ]),
        3 => 0u64..=200_000,
        2 => (0u32..50, any::<u64>()).prop_map(|(e, r)| (1u64 << e) | (r & ((1u64 << e) - 1))),
        1 => Just(zcash_protocol::value::MAX_MONEY / 4),
    ]
    .boxed()
}

fn arb_memo() -> BoxedStrategy<Memo> {
    prop_oneof![
        3 => Just(Memo::Empty),
        3 => pvec(any::<u8>(), 0..40).prop_map(|mut v| {
            if let Some(b) = v.first_mut() {
                *b &= 0x7f;
            }
            Memo::Short(v)
        }),
        3 => any::<u64>().prop_map(Memo::Full),
        1 => Just(Memo::Short(vec![0xF6])),
    ]
    .boxed()
}

fn arb_ovk() -> BoxedStrategy<Option<[u8; 32]>> {
    prop_oneof![1 => Just(None), 2 => any::<[u8; 32]>().prop_map(Some)].boxed()
}

fn arb_shout(orchard_change: BoxedStrategy<bool>) -> BoxedStrategy<ShOut> {
    (0u8..4, any::<bool>(), 0u8..3, arb_value(), arb_memo(), arb_ovk(), orchard_change, prop::bool::weighted(0.05))
        .prop_map(|(key, internal, div, value, memo, ovk, change, wrong_owner)| ShOut {
            key,
            internal,
            div,
            value,
            memo,
            ovk,
            change,
            wrong_owner: wrong_owner && change,
        })
        .boxed()
}

fn arb_oin(ironwood: bool) -> BoxedStrategy<OIn> {
    (0u8..4, any::<bool>(), 0u8..3, arb_value(), any::<[u8; 32]>(), any::<[u8; 32]>(), prop::bool::weighted(0.04))
        .prop_map(move |(key, internal, div, value, rho, rseed, wv)| OIn {
            key,
            internal,
            div,
            value,
            rho,
            rseed,
            wrong_version: wv && ironwood,
        })
        .boxed()
}

/// m-of-n multisig: (m, n) mostly within 1 <= m <= n <= 4, sometimes up to 9 keys (redeem scripts
/// above 255 bytes need OP_PUSHDATA2 from n = 8) or 15 (the largest that fits a 520-byte push);
/// distinct harness keys in arbitrary order; the keys handed to the signing set: all, exactly m,
/// more than m, m - 1, none.
fn arb_multisig() -> BoxedStrategy<TSpend> {
    let arity = prop_oneof![
        14 => (1usize..=4).prop_flat_map(|n| (1usize..=n, Just(n))),
        3 => (5usize..=9).prop_flat_map(|n| (1usize..=n, Just(n))),
        1 => (1usize..=15, Just(15usize)),
    ];
    arity
        .prop_flat_map(|(m, n)| {
            (
                Just(m),
                proptest::sample::subsequence((0u8..16).collect::<Vec<u8>>(), n).prop_shuffle(),
                Just((0..n as u8).collect::<Vec<u8>>()).prop_shuffle(),
                prop_oneof![5 => Just(0u8), 4 => Just(1u8), 3 => Just(2u8), 4 => Just(3u8), 1 => Just(4u8)],
                any::<u8>(),
            )
        })
        .prop_map(|(m, keys, order, class, r)| {
            let n = keys.len();
            let take = match class {
                0 => n,
                1 => m,
                2 => {
                    if n > m {
                        m + 1 + (r as usize % (n - m))
                    } else {
                        n
                    }
                }
                3 => m - 1,
                _ => 0,
            };
            let present = order.iter().take(take).fold(0u16, |acc, pos| acc | 1 << pos);
            TSpend::P2sh { m: m as u8, keys, present }
        })
        .boxed()
}

fn arb_tspend() -> BoxedStrategy<TSpend> {
    prop_oneof![20 => Just(TSpend::P2pkh), 18 => arb_multisig(), 1 => Just(TSpend::P2shOther)].boxed()
}

fn arb_tin() -> BoxedStrategy<TIn> {
    (0u8..6, arb_value(), prop::bool::weighted(0.04), prop::bool::weighted(0.3), arb_tspend())
        .prop_map(|(key, value, wrong_script, via_info, spend)| TIn { key, value, wrong_script, via_info, spend })
        .boxed()
}

fn arb_tout() -> BoxedStrategy<TOut> {
    prop_oneof![
        5 => (any::<[u8; 20]>(), arb_value()).prop_map(|(h, value)| TOut { kind: TKind::P2pkh(h), value }),
        3 => (any::<[u8; 20]>(), arb_value()).prop_map(|(h, value)| TOut { kind: TKind::P2sh(h), value }),
        2 => pvec(any::<u8>(), 2..=80).prop_map(|d| TOut { kind: TKind::Null(d), value: 0 }),
        1 => pvec(any::<u8>(), 76..=80).prop_map(|d| TOut { kind: TKind::Null(d), value: 0 }),
        1 => pvec(any::<u8>(), 81..=90).prop_map(|d| TOut { kind: TKind::Null(d), value: 0 }),
    ]
    .boxed()
}

fn arb_pad(allow_required: bool) -> BoxedStrategy<Pad> {
    arb_pad_with(if allow_required { 0.15 } else { 0.0 })
}

fn arb_pad_with(p_required: f64) -> BoxedStrategy<Pad> {
    (
        prop::bool::weighted(p_required),
        select(vec![None, None, None, Some(0u8), Some(1), Some(1), Some(2), Some(3), Some(5)]),
    )
        .prop_map(|(required, min)| Pad { required, min })
        .boxed()
}

fn arb_rule() -> BoxedStrategy<Rule> {
    prop_oneof![
        11 => Just(Rule::Standard),
        6 => (
            select(vec![0u64, 1, 1_000, 5_000, 5_000, 5_001, 10_000, 1 << 40, zcash_protocol::value::MAX_MONEY / 2, zcash_protocol::value::MAX_MONEY]),
            select(vec![0usize, 1, 2, 2, 3, 10]),
            select(vec![1usize, 100, 149, 150, 150, 151, 300]),
            select(vec![1usize, 33, 34, 34, 35, 68]),
        )
            .prop_map(|(marginal, grace, std_in, std_out)| Rule::NonStd { marginal, grace, std_in, std_out }),
        3 => select(vec![0u64, 1, 1_000, 10_000, 123_456, 1_000_000_000]).prop_map(Rule::Fixed),
    ]
    .boxed()
}

fn arb_bal() -> BoxedStrategy<Bal> {
    prop_oneof![
        11 => Just(Bal::Exact),
        3 => Just(Bal::Minus1),
        3 => Just(Bal::Plus1),
        2 => select(vec![-2i64, 2, -4_999, 5_000, -5_000, 10_000, -1_000_000, 1_000_000, 1_000_000_000_000, -1_000_000_000_000])
            .prop_map(Bal::Off),
        1 => Just(Bal::Free),
    ]
    .boxed()
}

/// (layout, height): every upgrade boundary -1/0/+1 of the three LocalNetwork layouts, plus the ends
/// of the ZIP 212 grace period.
fn arb_where() -> BoxedStrategy<(u8, u32)> {
    let l0_early: Vec<u32> =
        vec![0, 5, 9, 10, 11, 19, 20, 21, 29, 30, 31, 39, 40, 41, 49, 50, 51, 1_000, 32_305, 32_306, 32_307, 39_999];
    let l0_mid: Vec<u32> =
        vec![40_000, 40_001, 40_009, 40_010, 40_011, 40_019, 40_020, 40_021, 40_029, 40_030, 40_031, 40_039];
    let l0_late: Vec<u32> = vec![40_040, 40_041, 45_000, 3_000_000];
    let l1_pre: Vec<u32> = vec![0, 1, 2, 99];
    let l1_post: Vec<u32> = vec![100, 101, 32_256, 32_257, 32_258, 40_000];
    let l2: Vec<u32> = vec![0, 1, 4, 5, 6, 7, 8, 32_256, 32_257, 100_000];
    prop_oneof![
        2 => select(l0_early).prop_map(|h| (0u8, h)),
        3 => select(l0_mid).prop_map(|h| (0u8, h)),
        4 => select(l0_late).prop_map(|h| (0u8, h)),
        1 => select(l1_pre).prop_map(|h| (1u8, h)),
        2 => select(l1_post).prop_map(|h| (1u8, h)),
        1 => select(l2).prop_map(|h| (2u8, h)),
    ]
    .boxed()
}

fn arb_anchor(has_content: bool) -> BoxedStrategy<Anc> {
    if has_content {
        prop_oneof![18 => Just(Anc::Real), 1 => Just(Anc::None), 1 => Just(Anc::Wrong)].boxed()
    } else {
        prop_oneof![1 => Just(Anc::Real), 1 => Just(Anc::None)].boxed()
    }
}

fn arb_propose(br: Br) -> BoxedStrategy<Option<(Ver, bool)>> {
    // favour versions that are valid for the branch, keep a share of invalid ones
    let valid: Vec<Ver> = [Ver::Sprout2, Ver::V3, Ver::V4, Ver::V5, Ver::V6].into_iter().filter(|v| ref_version_valid(*v, br)).collect();
    prop_oneof![
        6 => Just(None),
        3 => (select(valid), any::<bool>()).prop_map(|(v, late)| Some((v, late))),
        1 => (select(vec![Ver::Sprout2, Ver::V3, Ver::V4, Ver::V5, Ver::V6]), any::<bool>()).prop_map(|(v, late)| Some((v, late))),
    ]
    .boxed()
}

fn opt_vec<T: std::fmt::Debug + Clone + 'static>(p: f64, item: BoxedStrategy<T>, max: usize) -> BoxedStrategy<Vec<T>> {
    (prop::bool::weighted(p), pvec(item, 0..=max)).prop_map(|(on, v)| if on { v } else { vec![] }).boxed()
}

pub fn arb_case(max_n: usize, engine: Engine) -> BoxedStrategy<Case> {
    // real proving is expensive: spend it on heights where Orchard exists
    let place = if engine == Engine::Prove {
        arb_where().prop_filter("orchard exists", |(l, h)| ref_branch(&LAYOUTS[*l as usize], *h) >= Br::Nu5).boxed()
    } else {
        arb_where()
    };
    (Just(engine), place)
        .prop_flat_map(move |(engine, (layout, height))| {
            let br = ref_branch(&LAYOUTS[layout as usize], height);
            let orchard_engine = engine != Engine::Build;
            let max_sh = if engine == Engine::Prove { 2 } else { max_n };
            let p_t = 0.75;
            let p_sap = if br >= Br::Sapling { 0.55 } else { 0.08 };
            let p_orc = if !orchard_engine {
                0.0
            } else if br >= Br::Nu5 {
                if engine == Engine::Prove { 0.7 } else { 0.55 }
            } else {
                0.06
            };
            let p_iro = if !orchard_engine {
                0.0
            } else if br >= Br::Nu6_3 {
                0.6
            } else {
                0.06
            };
            // after NU6.3 Orchard outputs must be wallet change; keep a share of plain ones
            let change = if br >= Br::Nu6_3 { prop::bool::weighted(0.9).boxed() } else { prop::bool::weighted(0.3).boxed() };
            let content = (
                opt_vec(p_t, arb_tin(), max_n),
                opt_vec(p_t, arb_tout(), max_n),
                opt_vec(
                    p_sap,
                    (0u8..4, arb_value(), any::<[u8; 32]>()).prop_map(|(key, value, rseed)| SIn { key, value, rseed }).boxed(),
                    max_n,
                ),
                opt_vec(p_sap, arb_shout(Just(false).boxed()), max_n),
                opt_vec(p_orc, arb_oin(false), max_sh),
                opt_vec(p_orc * 0.8, arb_shout(change), max_sh),
                opt_vec(p_iro * 0.7, arb_oin(true), max_sh),
                opt_vec(p_iro, arb_shout(Just(false).boxed()), max_sh),
            );
            (Just((engine, layout, height, br)), content)
        })
        .prop_flat_map(|((engine, layout, height, br), content)| {
            let has_s = !content.2.is_empty() || !content.3.is_empty();
            let has_o = !content.4.is_empty() || !content.5.is_empty();
            let has_i = !content.6.is_empty() || !content.7.is_empty();
            // a required (all-dummy) bundle needs real proving in a full build: only PCZT / Prove
            let allow_required = engine != Engine::Build;
            (
                Just((engine, layout, height, content)),
                (arb_anchor(has_s), arb_anchor(has_o), arb_anchor(has_i)),
                (arb_pad(allow_required), arb_pad(allow_required)),
                arb_propose(br),
                arb_rule(),
                if engine == Engine::Prove { prop_oneof![4 => Just(Bal::Exact), 1 => arb_bal()].boxed() } else { arb_bal() },
                any::<u32>(),
                prop_oneof![
                    14 => Just(KeyFault::None),
                    1 => Just(KeyFault::MissingTransparent),
                    1 => Just(KeyFault::MissingSapling)
                ],
                any::<u8>(),
                any::<[u8; 32]>(),
            )
        })
        .prop_map(|((engine, layout, height, content), anchors, pads, propose, rule, bal, slot, key_fault, key_perm, seed)| {
            let (mut t_in, t_out, s_in, s_out, o_in, o_out, i_in, i_out) = content;
            // a request without any input can only be balanced with a zero fee: mostly give it one
            if t_in.is_empty() && s_in.is_empty() && o_in.is_empty() && i_in.is_empty() && seed[0] % 8 != 0 {
                let spend = if seed[4] % 3 == 0 {
                    TSpend::P2sh { m: 1 + seed[5] % 3, keys: vec![7 + seed[6] % 3, 10 + seed[7] % 3, 13 + seed[8] % 3], present: 0b111 }
                } else {
                    TSpend::P2pkh
                };
                t_in.push(TIn { key: seed[1] % 6, value: 100_000 + seed[2] as u64, wrong_script: false, via_info: seed[3] & 1 == 1, spend });
            }
            Case {
                engine,
                layout,
                height,
                propose,
                sap_anchor: anchors.0,
                orc_anchor: anchors.1,
                iro_anchor: anchors.2,
                orc_pad: pads.0,
                iro_pad: pads.1,
                rule,
                t_in,
                t_out,
                s_in,
                s_out,
                o_in,
                o_out,
                i_in,
                i_out,
                bal,
                slot,
                key_fault,
                key_perm,
                seed,
            }
        })
        .boxed()
}

/// Requests for `DeferredPcztBuilder`: Orchard and Ironwood content only, no anchors, no version
/// proposal; target heights mostly where the v6 format is in force, with a share below it
/// (documented refusal at construction).
pub fn arb_deferred_case(max_n: usize) -> BoxedStrategy<Case> {
    let place = prop_oneof![
        8 => select(vec![40_040u32, 40_041, 45_000, 3_000_000]).prop_map(|h| (0u8, h)),
        4 => select(vec![100u32, 101, 32_256, 32_257, 40_000]).prop_map(|h| (1u8, h)),
        1 => select(vec![40_039u32, 40_030, 40_000, 50, 5]).prop_map(|h| (0u8, h)),
        1 => select(vec![(1u8, 99u32), (1u8, 0), (2u8, 8), (2u8, 100_000)]),
    ];
    let content = (
        opt_vec(0.55, arb_oin(false), max_n),
        opt_vec(0.5, arb_shout(prop::bool::weighted(0.9).boxed()), max_n),
        opt_vec(0.45, arb_oin(true), max_n),
        opt_vec(0.6, arb_shout(Just(false).boxed()), max_n),
    );
    (place, content, (arb_pad_with(0.3), arb_pad_with(0.3)), arb_rule(), arb_bal(), any::<u32>(), any::<u8>(), any::<[u8; 32]>())
        .prop_map(|((layout, height), (mut o_in, o_out, mut i_in, i_out), pads, rule, bal, slot, key_perm, seed)| {
            // a request without any input can only be balanced with a zero fee: mostly give it one
            if o_in.is_empty() && i_in.is_empty() && seed[0] % 8 != 0 {
                let note = OIn { key: seed[1] % 4, internal: seed[2] & 1 == 1, div: seed[3] % 3, value: 100_000 + seed[4] as u64, rho: seed, rseed: [seed[5]; 32], wrong_version: false };
                if seed[6] & 1 == 0 {
                    i_in.push(note);
                } else {
                    o_in.push(note);
                }
            }
            Case {
            engine: Engine::Deferred,
            layout,
            height,
            propose: None,
            sap_anchor: Anc::None,
            orc_anchor: Anc::None,
            iro_anchor: Anc::None,
            orc_pad: pads.0,
            iro_pad: pads.1,
            rule,
            t_in: vec![],
            t_out: vec![],
            s_in: vec![],
            s_out: vec![],
            o_in,
            o_out,
            i_in,
            i_out,
            bal,
            slot,
            key_fault: KeyFault::None,
            key_perm,
            seed,
            }
        })
        .boxed()
}

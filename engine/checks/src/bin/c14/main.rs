//! C14 — Built transactions contain what was requested and pay exactly the fee.
//!
//! Sub-checks
//! * `regress`        fixed requests with hand-derived outcomes (the builder's own unit-test
//!                    scenarios and the boundary cases found while building this check).
//! * `build-sapling`  engine (i): full `Builder::build` with the mock Sapling provers; transparent
//!                    and Sapling content; scriptSig signatures verified with secp256k1.
//! * `build-pczt`     engine (ii): `Builder::build_for_pczt` with any mix of transparent, Sapling,
//!                    Orchard and Ironwood content, inspected through the returned parts, the PCZT
//!                    Creator and the PCZT's transaction effects.
//! * `build-prove`    engine (iii), thorough only: full `build` with Orchard / Ironwood content and
//!                    real proofs.
//! * `build-deferred` engine (iv): `DeferredPcztBuilder::build_for_pczt` (anchors deferred to proving
//!                    time; Orchard and Ironwood content), same oracle as `build-pczt`.
//!
//! Transparent inputs are P2PKH or P2SH (m-of-n multisig; also a non-multisig redeem script and
//! coins whose script does not fit the spend information). For P2SH the scriptSig must be exactly
//! `OP_0 <sig>*m <redeem script>` with the signatures valid, in public-key order, under the
//! signature hash computed with scriptCode = redeem script; every signature hash is recomputed by
//! the harness's own ZIP 143 / 243 / 244 code (`sighash_ref`).
//!
//! Modules: `types` (case data + reference model), `gen` (generator), `plan` (prediction from the
//! reference), `world` (keys, notes, trees), `run` (drives the builder), `inspect_*` (result oracles),
//! `sighash_ref` (independent signature hashes).

mod gen;
mod inspect_built;
mod inspect_pczt;
mod plan;
mod run;
mod sighash_ref;
mod types;
mod world;

use vcore::{panic_site, vensure, vensure_eq, vfail, CaseResult, Ctx, Fail, Obs};

use crate::inspect_built::Seen;
use crate::plan::*;
use crate::run::{Outcome, RErr};
use crate::types::*;

static CTX: std::sync::OnceLock<std::sync::Arc<Ctx>> = std::sync::OnceLock::new();

/// True iff `signature` is listed as a known finding for C14 (prints KNOWN-FINDING once, counts the
/// hit); the oracle then continues with the remaining assertions of the case.
pub fn known_hit(signature: &str) -> bool {
    CTX.get().map(|c| c.known_hit(signature)).unwrap_or(false)
}

#[derive(Debug, Default)]
struct Summary {
    ok: bool,
    fee: u128,
    err: String,
}

fn explained(p: &Plan, w: &run::World, c: &Case, e: &RErr) -> Result<bool, Fail> {
    let causes: Vec<Cause> = p.causes.iter().chain(p.may.iter()).cloned().collect();
    let causes = &causes[..];
    Ok(match e {
        RErr::Insufficient(d) => {
            if let Some(Cause::Insufficient(want)) = causes.iter().find(|c| matches!(c, Cause::Insufficient(_))) {
                vensure!(*d as i128 == *want, "insufficient-funds-wrong-amount", "InsufficientFunds({d}) but inputs fall short of outputs + fee by exactly {want}");
                true
            } else {
                false
            }
        }
        RErr::Change(d) => {
            if let Some(Cause::Change(want)) = causes.iter().find(|c| matches!(c, Cause::Change(_))) {
                vensure!(*d as i128 == *want, "change-required-wrong-amount", "ChangeRequired({d}) but inputs exceed outputs + fee by exactly {want}");
                true
            } else {
                false
            }
        }
        RErr::FeeOverflow => causes.contains(&Cause::FeeOverflow),
        RErr::Balance(_) => causes.contains(&Cause::BalanceRange),
        RErr::Target(_) => causes.contains(&Cause::Version),
        RErr::TMissingKey => causes.contains(&Cause::MissingTKey),
        RErr::TUnsupportedScript => causes.contains(&Cause::UnsupportedScript),
        RErr::DeferralUnsupported => causes.contains(&Cause::DeferralUnsupported),
        RErr::UnknownP2sh(listed) => {
            if causes.contains(&Cause::UnknownP2sh) {
                // documented: the inputs "that pay to unknown P2SH redeem scripts"
                let mut want: Vec<_> = p.accepted(T_IN).filter(|i| c.t_in[*i].spend == TSpend::P2shOther).map(|i| w.coins[i].0.clone()).collect();
                let mut got = listed.clone();
                want.sort();
                got.sort();
                vensure!(want == got, "unknown-p2sh-inputs-wrong-list", "UnknownP2shInputs lists {got:?}, the inputs with an unrecognized redeem script are {want:?}");
                true
            } else {
                false
            }
        }
        RErr::SapMissingKey => causes.contains(&Cause::MissingSKey),
        RErr::SapZip212 => causes.contains(&Cause::PcztZip212),
        RErr::Other(_) => false,
    })
}

fn check_case_full(c: &Case) -> Result<(Obs, Summary), Fail> {
    let mut p = plan(c, false);
    let mut w = run::build_world(c, &p);
    let out = match run::run(c, &p, &w)? {
        Some(o) => o,
        None => {
            p = plan(c, true);
            w = run::build_world(c, &p);
            match run::run(c, &p, &w)? {
                Some(o) => o,
                None => vfail!("harness-replan", "second plan asked for a re-plan"),
            }
        }
    };

    let rejected: usize = p.exp.iter().map(|v| v.iter().filter(|e| !e.is_empty()).count()).sum();
    let mut obs = Obs::new(false)
        .label(match c.engine {
            Engine::Build => "engine:build",
            Engine::Pczt => "engine:pczt",
            Engine::Prove => "engine:prove",
            Engine::Deferred => "engine:deferred",
        })
        .label(p.br.label())
        .label(p.eff_ver.label())
        .label(match c.rule {
            Rule::Standard => "rule:zip317-standard",
            Rule::NonStd { .. } => "rule:zip317-non-standard",
            Rule::Fixed(_) => "rule:fixed",
        })
        .label_if(rejected > 0, "add-rejected-by-documented-precondition")
        .label_if(p.propose_ok == Some(true), "propose-accepted")
        .label_if(p.propose_ok == Some(false), "propose-rejected")
        .label_if(matches!(c.propose, Some((_, true))), "propose-after-content")
        .label_if(p.solved, "solved")
        .label_if(p.undecided_shape, "required-bundle-in-version-without-pool")
        .count("add-rejections", rejected as u64);
    for (kind, l) in [(T_IN, "has:t-in"), (T_OUT, "has:t-out"), (S_IN, "has:s-in"), (S_OUT, "has:s-out"), (O_IN, "has:o-in"), (O_OUT, "has:o-out"), (I_IN, "has:i-in"), (I_OUT, "has:i-out")] {
        if p.n_acc(kind) > 0 {
            obs = obs.label(l);
        }
    }
    // ---- transparent input kinds (all derived from the generated case through the plan)
    {
        let acc: Vec<&TIn> = p.accepted(T_IN).map(|i| &c.t_in[i]).collect();
        let n_p2sh = acc.iter().filter(|x| x.spend.is_p2sh_multisig()).count();
        let n_p2pkh = acc.iter().filter(|x| x.spend == TSpend::P2pkh).count();
        let full = matches!(c.engine, Engine::Build | Engine::Prove);
        let views: Vec<&P2shRef> = p.accepted(T_IN).filter_map(|i| p.p2sh[i].as_ref()).collect();
        // the keys chosen in pubkey order appear in another order in the signing set
        let order_differs = views.iter().any(|v| {
            let pos_in_set: Vec<usize> = v.available.iter().filter_map(|j| p.sign_set.iter().position(|k| *k == v.keys[*j])).collect();
            v.m >= 2 && v.available.len() >= v.m && pos_in_set.windows(2).any(|x| x[0] > x[1])
        });
        let redeem_len = |lo: usize, hi: usize| p.accepted(T_IN).any(|i| c.t_in[i].spend.is_p2sh_multisig() && p.redeem[i].as_ref().is_some_and(|r| (lo..=hi).contains(&r.len())));
        obs = obs
            .label_if(n_p2sh > 0, "has:p2sh-in")
            .label_if(n_p2pkh > 0, "has:p2pkh-in")
            .label_if(n_p2sh > 0 && n_p2pkh > 0, "mixed-p2pkh-p2sh")
            .label_if(n_p2sh >= 2, "two-or-more-p2sh-in")
            .label_if(n_p2sh > 0 && p.eff_ver == Ver::V3, "p2sh-in-v3")
            .label_if(n_p2sh > 0 && p.eff_ver == Ver::V4, "p2sh-in-v4")
            .label_if(n_p2sh > 0 && p.eff_ver == Ver::V5, "p2sh-in-v5")
            .label_if(n_p2sh > 0 && p.eff_ver == Ver::V6, "p2sh-in-v6")
            .label_if(n_p2sh > 0 && p.eff_ver == Ver::V4 && matches!(c.propose, Some((Ver::V4, _))) && p.br >= Br::Nu5, "p2sh-in-proposed-v4-after-nu5")
            .label_if(full && p.p2sh_short_of_keys, "p2sh-missing-key")
            .label_if(full && views.iter().any(|v| v.available.len() == v.m), "p2sh-exactly-m-keys")
            .label_if(full && views.iter().any(|v| v.available.len() > v.m), "p2sh-more-than-m-keys")
            .label_if(full && order_differs, "p2sh-signing-set-order-differs-from-pubkey-order")
            .label_if(views.iter().any(|v| v.m == 1), "p2sh:m=1")
            .label_if(views.iter().any(|v| v.m >= 2), "p2sh:m>=2")
            .label_if(views.iter().any(|v| v.m == v.keys.len()), "p2sh:m=n")
            .label_if(views.iter().any(|v| v.m < v.keys.len()), "p2sh:m<n")
            .label_if(views.iter().any(|v| v.keys.len() > 4), "p2sh:n>4")
            .label_if(redeem_len(0, 75), "p2sh-redeem-direct-push")
            .label_if(redeem_len(76, 127), "p2sh-redeem-pushdata1-below-128")
            .label_if(redeem_len(128, 255), "p2sh-redeem-pushdata1-128-to-255")
            .label_if(redeem_len(256, 10_000), "p2sh-redeem-pushdata2")
            .label_if(acc.iter().any(|x| x.spend.is_p2sh_multisig() && x.via_info), "p2sh-via-input-info")
            .label_if(c.t_in.iter().any(|x| x.spend != TSpend::P2pkh && x.wrong_script), "p2sh-wrong-coin-script")
            .label_if(c.t_in.iter().any(|x| x.spend == TSpend::P2pkh && x.wrong_script), "p2pkh-wrong-coin-script")
            .label_if(acc.iter().any(|x| x.spend == TSpend::P2shOther), "p2sh-non-multisig-redeem-script");
        if c.engine == Engine::Deferred {
            let empty_required = (c.orc_pad.required && p.n_acc(O_IN) + p.n_acc(O_OUT) == 0) || (c.iro_pad.required && p.n_acc(I_IN) + p.n_acc(I_OUT) == 0);
            obs = obs
                .label_if(!p.deferral_ok, "deferred:height-without-v6")
                .label_if(p.deferral_ok && empty_required, "deferred:required-bundle-on-empty-pool")
                .label_if(p.deferral_ok && (c.orc_pad.required || c.iro_pad.required) && !empty_required, "deferred:required-bundle-on-used-pool");
        }
    }
    let one_off = p.solved && p.diff().is_some_and(|d| d.abs() == 1);
    obs = obs
        .label_if(p.diff() == Some(0), "delta:0")
        .label_if(p.diff() == Some(-1), "delta:-1")
        .label_if(p.diff() == Some(1), "delta:+1")
        .label_if(p.diff().is_some_and(|d| d.abs() > 1), "delta:far")
        .label_if(p.fee.is_none(), "fee-overflow");

    let must_fail: Vec<&Cause> = p.causes.iter().filter(|c| **c != Cause::PreOverwinter).collect();
    let success_guard = |what: &str| -> Result<(), Fail> {
        if let Some(cause) = must_fail.first() {
            let sig = match cause {
                Cause::Insufficient(_) | Cause::Change(_) | Cause::BalanceRange => "success-with-imbalance",
                Cause::Version => "success-with-invalid-version",
                Cause::FeeOverflow => "success-with-invalid-fee",
                Cause::MissingTKey | Cause::MissingSKey => "success-without-key",
                Cause::UnknownP2sh => "success-with-unpriced-p2sh-input",
                Cause::UnsupportedScript => "success-with-unsupported-redeem-script",
                Cause::DeferralUnsupported => "deferred-builder-accepted-pre-v6-height",
                Cause::PcztZip212 => "success-pczt-without-zip212",
                Cause::PreOverwinter => unreachable!("filtered"),
            };
            vfail!(sig, "{what} succeeded although the request must fail: {:?} (inputs {} outputs {} fee {:?}, version {:?} under {:?})", p.causes, p.sum_in, p.sum_out, p.fee, p.eff_ver, p.br);
        }
        Ok(())
    };

    let mut summary = Summary::default();
    let seen: Option<Seen> = match out {
        Outcome::Built(r) => {
            success_guard("build")?;
            Some(inspect_built::check_built(c, &p, &w, &r)?)
        }
        Outcome::Pczt(r) => {
            success_guard("build_for_pczt")?;
            Some(inspect_pczt::check_pczt(c, &p, &w, *r, None)?)
        }
        Outcome::DeferredPczt(r, announced) => {
            success_guard("DeferredPcztBuilder::build_for_pczt")?;
            Some(inspect_pczt::check_pczt(c, &p, &w, *r, Some(announced))?)
        }
        Outcome::Err(e) => {
            summary.err = format!("{e:?}");
            if !explained(&p, &w, c, &e)? {
                if must_fail.is_empty() {
                    vfail!("failure-of-balanced-valid-request", "{e:?} although inputs {} = outputs {} + fee {:?}, version {:?} valid under {:?} and no documented precondition is violated", p.sum_in, p.sum_out, p.fee, p.eff_ver, p.br);
                }
                vfail!("failure-with-unrelated-error", "{e:?}; documented reasons present: {:?}", p.causes);
            }
            obs = obs.label(match e {
                RErr::Insufficient(_) => "err:insufficient-funds",
                RErr::Change(_) => "err:change-required",
                RErr::FeeOverflow => "err:fee-overflow",
                RErr::Balance(_) => "err:balance-range",
                RErr::Target(_) => "err:target-incompatible",
                RErr::TMissingKey => "err:missing-transparent-key",
                RErr::TUnsupportedScript => "err:unsupported-script",
                RErr::UnknownP2sh(_) => "err:unknown-p2sh-input",
                RErr::DeferralUnsupported => "err:anchor-deferral-unsupported",
                RErr::SapMissingKey => "err:missing-sapling-key",
                RErr::SapZip212 => "err:pczt-requires-zip212",
                RErr::Other(_) => "err:other",
            });
            None
        }
        Outcome::Panic(pm) => {
            // `v4_signature_hash` documents pre-Overwinter signing as unsupported; conservative:
            // that panic is taken as the signalled failure for pre-Overwinter target heights.
            if p.causes.contains(&Cause::PreOverwinter) && pm.contains("pre-overwinter") {
                summary.err = "pre-overwinter panic".into();
                obs = obs.label("err:pre-overwinter-unsupported-panic");
                None
            } else {
                vfail!(format!("build-panic:{}", panic_site(&pm)), "the build panicked: {pm} (causes {:?})", p.causes);
            }
        }
    };
    if let Some(s) = seen {
        summary.ok = true;
        summary.fee = s.fee;
        let pools = p.pools_with_content();
        obs.nontrivial = pools >= 2;
        obs = obs
            .label("ok")
            .label(match c.engine {
                Engine::Build => "ok:build",
                Engine::Pczt => "ok:pczt",
                Engine::Prove => "ok:prove",
                Engine::Deferred => "ok:deferred",
            })
            .label_if(s.p2sh_inputs > 0, "ok:p2sh-in")
            .label_if(s.p2sh_inputs > 0 && p.eff_ver == Ver::V3, "ok:p2sh-in-v3")
            .label_if(s.p2sh_inputs > 0 && p.eff_ver == Ver::V4, "ok:p2sh-in-v4")
            .label_if(s.p2sh_inputs > 0 && p.eff_ver == Ver::V5, "ok:p2sh-in-v5")
            .label_if(s.p2sh_inputs > 0 && p.eff_ver == Ver::V6, "ok:p2sh-in-v6")
            .label_if(s.p2sh_sigs_verified >= 2, "ok:two-or-more-p2sh-signatures-verified")
            .label_if(s.known_deferred_required > 0, "ok:known-finding-deferred-required-bundle")
            .label_if(s.known_pushdata1_length > 0, "ok:known-finding-p2sh-pushdata1-length")
            .label_if(pools >= 2, "ok:two-or-more-pools")
            .label_if(pools >= 3, "ok:three-or-more-pools")
            .label_if(s.sigs_verified >= 2, "ok:two-or-more-signatures-verified")
            .label_if(s.padding_observed > 0, "ok:padding-observed")
            .label_if(s.memo512 > 0, "ok:512-byte-memo-decrypted")
            .label_if(s.ovk_recovered > 0, "ok:ovk-recovery")
            .label_if(p.n_acc(O_IN) + p.n_acc(O_OUT) > 0, "ok:orchard-content")
            .label_if(p.n_acc(I_IN) + p.n_acc(I_OUT) > 0, "ok:ironwood-content")
            .label_if(p.n_acc(S_IN) + p.n_acc(S_OUT) > 0, "ok:sapling-content")
            .label_if(p.orc_no_cross && p.n_acc(O_IN) + p.n_acc(O_OUT) > 0, "ok:orchard-cross-address-disabled")
            .label_if(p.shape.o_actions > 0 && c.orc_pad != (Pad { required: false, min: None }), "ok:orchard-explicit-padding")
            .label_if(p.shape.i_actions > 0 && c.iro_pad != (Pad { required: false, min: None }), "ok:ironwood-explicit-padding")
            .label_if(p.propose_ok == Some(true), "ok:proposed-version")
            .count("signatures-verified", s.sigs_verified as u64)
            .count("p2sh-inputs-checked", s.p2sh_inputs as u64)
            .count("p2sh-signatures-verified", s.p2sh_sigs_verified as u64)
            .count("signature-hashes-equal-to-reference", s.ref_sighashes as u64)
            .count("outputs-decrypted", s.decrypted as u64)
            .count("ovk-recoveries", s.ovk_recovered as u64)
            .count("padding-items-observed", s.padding_observed as u64);
    }
    if one_off {
        obs.nontrivial = true;
        obs = obs.label("one-zat-from-balance");
    }
    Ok((obs, summary))
}

fn check_case(c: &Case) -> CaseResult {
    check_case_full(c).map(|x| x.0)
}

// ---------------------------------------------------------------------------------------------
// Fixed regression requests
// ---------------------------------------------------------------------------------------------

#[derive(Debug)]
enum Expect {
    Ok { fee: u128 },
    Err(&'static str),
    ErrStarts(&'static str),
    Any,
}

fn base() -> Case {
    Case {
        engine: Engine::Build,
        layout: 0,
        height: 45_000,
        propose: None,
        sap_anchor: Anc::Real,
        orc_anchor: Anc::None,
        iro_anchor: Anc::None,
        orc_pad: Pad { required: false, min: None },
        iro_pad: Pad { required: false, min: None },
        rule: Rule::Standard,
        t_in: vec![],
        t_out: vec![],
        s_in: vec![],
        s_out: vec![],
        o_in: vec![],
        o_out: vec![],
        i_in: vec![],
        i_out: vec![],
        bal: Bal::Free,
        slot: 0,
        key_fault: KeyFault::None,
        key_perm: 0,
        seed: [7; 32],
    }
}

fn regress_cases() -> Vec<(&'static str, Case, Expect)> {
    let b = base();
    let tin = |key: u8, value: u64| TIn { key, value, wrong_script: false, via_info: false, spend: TSpend::P2pkh };
    let msig = |m: u8, keys: &[u8], present: u16, value: u64| TIn { key: 0, value, wrong_script: false, via_info: false, spend: TSpend::P2sh { m, keys: keys.to_vec(), present } };
    let tout = |value: u64| TOut { kind: TKind::P2pkh([0; 20]), value };
    let sin = |value: u64, r: u8| SIn { key: 0, value, rseed: [r; 32] };
    let sh = |value: u64| ShOut { key: 1, internal: false, div: 0, value, memo: Memo::Empty, ovk: Some([9; 32]), change: false, wrong_owner: false };
    let oin = |value: u64, r: u8| OIn { key: 0, internal: false, div: 0, value, rho: [r; 32], rseed: [r ^ 0x55; 32], wrong_version: false };
    let mut v = vec![];
    // builder unit test `fails_on_negative_change`
    v.push(("empty request", b.clone(), Expect::Err("Insufficient(10000)")));
    v.push(("only a sapling output", Case { s_out: vec![sh(50_000)], ..b.clone() }, Expect::Err("Insufficient(60000)")));
    v.push(("only a transparent output", Case { t_out: vec![tout(50_000)], ..b.clone() }, Expect::Err("Insufficient(60000)")));
    v.push((
        "one zatoshi short",
        Case { s_in: vec![sin(59_999, 1)], s_out: vec![sh(30_000)], t_out: vec![tout(15_000)], ..b.clone() },
        Expect::Err("Insufficient(1)"),
    ));
    v.push((
        "exactly funded",
        Case { s_in: vec![sin(59_999, 1), sin(1, 2)], s_out: vec![sh(30_000)], t_out: vec![tout(15_000)], ..b.clone() },
        Expect::Ok { fee: 15_000 },
    ));
    v.push((
        "one zatoshi over",
        Case { s_in: vec![sin(59_999, 1), sin(2, 2)], s_out: vec![sh(30_000)], t_out: vec![tout(15_000)], ..b.clone() },
        Expect::Err("Change(1)"),
    ));
    // transparent only, two different keys (signature indexing), v6
    v.push((
        "two transparent inputs",
        Case { t_in: vec![tin(0, 30_000), tin(1, 20_000)], t_out: vec![tout(40_000)], ..b.clone() },
        Expect::Ok { fee: 10_000 },
    ));
    v.push((
        "three inputs, same key twice, pczt",
        Case { engine: Engine::Pczt, t_in: vec![tin(2, 30_000), tin(3, 20_000), tin(2, 5_000)], t_out: vec![tout(40_000)], ..b.clone() },
        Expect::Ok { fee: 15_000 },
    ));
    // builder unit test `per_pool_bundle_types_build_two_plus_one_pczt`
    v.push((
        "orchard spend to unpadded ironwood output",
        Case {
            engine: Engine::Pczt,
            sap_anchor: Anc::None,
            orc_anchor: Anc::Real,
            iro_anchor: Anc::Real,
            iro_pad: Pad { required: false, min: Some(1) },
            o_in: vec![oin(100_000, 1)],
            i_out: vec![sh(85_000)],
            ..b.clone()
        },
        Expect::Ok { fee: 15_000 },
    ));
    v.push((
        "orchard spend to padded ironwood output",
        Case {
            engine: Engine::Pczt,
            sap_anchor: Anc::None,
            orc_anchor: Anc::Real,
            iro_anchor: Anc::Real,
            o_in: vec![oin(100_000, 1)],
            i_out: vec![sh(80_000)],
            ..b.clone()
        },
        Expect::Ok { fee: 20_000 },
    ));
    // builder unit test `build_for_pczt_rejects_explicit_v5_when_ironwood_is_used`
    v.push((
        "explicit v5 with ironwood content",
        Case { engine: Engine::Pczt, sap_anchor: Anc::None, iro_anchor: Anc::Real, propose: Some((Ver::V5, false)), i_out: vec![sh(10_000)], ..b.clone() },
        Expect::Err("Target(None)"),
    ));
    // orchard at NU5 (v5, cross-address permitted): 1 spend + 1 output share an action, padded to 2
    v.push((
        "orchard v5 spend and output",
        Case { engine: Engine::Pczt, height: 40_001, sap_anchor: Anc::None, orc_anchor: Anc::Real, o_in: vec![oin(100_000, 3)], o_out: vec![sh(90_000)], ..b.clone() },
        Expect::Ok { fee: 10_000 },
    ));
    // orchard after NU6.3: spend and change never share an action: 2 actions
    v.push((
        "orchard v6 spend and change",
        Case {
            engine: Engine::Pczt,
            sap_anchor: Anc::None,
            orc_anchor: Anc::Real,
            o_in: vec![oin(100_000, 3)],
            o_out: vec![ShOut { key: 0, internal: true, change: true, ..sh(90_000) }],
            ..b.clone()
        },
        Expect::Ok { fee: 10_000 },
    ));
    v.push((
        "fixed fee rule",
        Case { rule: Rule::Fixed(1_234), t_in: vec![tin(0, 50_000)], t_out: vec![tout(48_766)], ..b.clone() },
        Expect::Ok { fee: 1_234 },
    ));
    v.push((
        "overwinter v3 transparent",
        Case { height: 15, sap_anchor: Anc::None, t_in: vec![tin(0, 50_000)], t_out: vec![tout(40_000)], ..b.clone() },
        Expect::Ok { fee: 10_000 },
    ));
    v.push(("pre-overwinter", Case { height: 5, sap_anchor: Anc::None, t_in: vec![tin(0, 50_000)], t_out: vec![tout(40_000)], ..b.clone() }, Expect::Any));
    v.push((
        "512-byte memo",
        Case { s_in: vec![sin(100_000, 4)], s_out: vec![ShOut { memo: Memo::Full(42), ..sh(90_000) }], ..b.clone() },
        Expect::Ok { fee: 10_000 },
    ));
    // ---- P2SH multisig inputs. Priced size (documented estimate): 36 + CompactSize(L) + L + 4 with
    // L = 1 (OP_0) + m * (1 + 73) + push(redeem script); redeem script = 3 + 34 n bytes.
    // 2-of-3: redeem 105 bytes (OP_PUSHDATA1: 107), L = 256 -> 3-byte CompactSize -> 299 bytes
    // -> ceil(299 / 150) = 2 logical actions; two of them: ceil(598 / 150) = 4 -> fee 20 000.
    v.push((
        "two 2-of-3 p2sh inputs, v6",
        Case { t_in: vec![msig(2, &[7, 8, 9], 0b111, 30_000), msig(2, &[9, 3, 12], 0b110, 30_000)], t_out: vec![tout(40_000)], ..b.clone() },
        Expect::Ok { fee: 20_000 },
    ));
    // 1-of-1: redeem 37 bytes, L = 1 + 74 + 38 = 113 -> 154 bytes; plus a P2PKH input priced at 150:
    // ceil(304 / 150) = 3 -> fee 15 000 (two P2PKH inputs would pay 10 000). Height 45 = Heartwood: v4.
    v.push((
        "1-of-1 p2sh and p2pkh inputs, v4",
        Case { height: 45, t_in: vec![msig(1, &[11], 0b1, 30_000), tin(1, 25_000)], t_out: vec![tout(40_000)], ..b.clone() },
        Expect::Ok { fee: 15_000 },
    ));
    v.push((
        "2-of-2 p2sh input, v3",
        Case { height: 15, sap_anchor: Anc::None, t_in: vec![msig(2, &[4, 2], 0b11, 50_000)], t_out: vec![tout(40_000)], ..b.clone() },
        Expect::Ok { fee: 10_000 },
    ));
    v.push((
        "2-of-3 p2sh input, v5, signing set in reverse order",
        Case { height: 40_001, sap_anchor: Anc::None, key_perm: 1, t_in: vec![msig(2, &[3, 14, 8], 0b111, 50_000)], t_out: vec![tout(40_000)], ..b.clone() },
        Expect::Ok { fee: 10_000 },
    ));
    v.push((
        "2-of-3 p2sh input, explicit v4 after NU5, with sapling output",
        // 2 transparent logical actions + max(0 spends, 2 padded outputs)
        Case { height: 40_001, propose: Some((Ver::V4, false)), t_in: vec![msig(2, &[3, 14, 8], 0b101, 70_000)], s_out: vec![sh(50_000)], ..b.clone() },
        Expect::Ok { fee: 20_000 },
    ));
    // 3-of-9: redeem 309 bytes (OP_PUSHDATA2: 312), L = 1 + 222 + 312 = 535 -> 578 bytes -> 4 actions
    v.push((
        "3-of-9 p2sh input (OP_PUSHDATA2 redeem script)",
        Case { t_in: vec![msig(3, &[0, 1, 2, 3, 4, 5, 7, 8, 9], 0b1_0101_0000, 70_000)], t_out: vec![tout(50_000)], ..b.clone() },
        Expect::Ok { fee: 20_000 },
    ));
    // 2-of-4: redeem 139 bytes (OP_PUSHDATA1 with a length byte >= 0x80, see the findings):
    // L = 1 + 148 + 141 = 290 -> 333 bytes -> 3 logical actions
    v.push((
        "2-of-4 p2sh input (139-byte redeem script)",
        Case { t_in: vec![msig(2, &[7, 8, 9, 10], 0b1111, 55_000)], t_out: vec![tout(40_000)], ..b.clone() },
        Expect::Any,
    ));
    v.push((
        "2-of-3 p2sh input with one key",
        Case { t_in: vec![msig(2, &[7, 8, 9], 0b010, 50_000)], t_out: vec![tout(40_000)], ..b.clone() },
        Expect::Err("TMissingKey"),
    ));
    v.push((
        "p2sh coin that does not commit to the redeem script",
        Case { t_in: vec![TIn { wrong_script: true, ..msig(2, &[7, 8, 9], 0b111, 50_000) }, TIn { key: 1, wrong_script: true, ..msig(1, &[7], 0b1, 50_000) }, tin(0, 50_000)], t_out: vec![tout(40_000)], ..b.clone() },
        Expect::Ok { fee: 10_000 },
    ));
    v.push((
        "non-multisig redeem script, ZIP 317",
        Case { t_in: vec![TIn { spend: TSpend::P2shOther, ..tin(2, 50_000) }], t_out: vec![tout(40_000)], ..b.clone() },
        Expect::ErrStarts("UnknownP2sh("),
    ));
    v.push((
        "non-multisig redeem script, fixed fee, full build",
        Case { rule: Rule::Fixed(10_000), t_in: vec![TIn { spend: TSpend::P2shOther, ..tin(2, 50_000) }], t_out: vec![tout(40_000)], ..b.clone() },
        Expect::Err("TUnsupportedScript"),
    ));
    v.push((
        "p2sh and p2pkh inputs, pczt",
        Case { engine: Engine::Pczt, sap_anchor: Anc::None, t_in: vec![msig(2, &[7, 8, 9], 0, 30_000), tin(3, 30_000)], t_out: vec![tout(45_000)], ..b.clone() },
        Expect::Ok { fee: 15_000 },
    ));
    // ---- DeferredPcztBuilder
    let deferred = Case { engine: Engine::Deferred, sap_anchor: Anc::None, ..b.clone() };
    v.push((
        "deferred: ironwood spend to ironwood output",
        Case { i_in: vec![OIn { wrong_version: false, ..oin(100_000, 5) }], i_out: vec![sh(90_000)], ..deferred.clone() },
        Expect::Ok { fee: 10_000 },
    ));
    v.push((
        "deferred: orchard spend to unpadded ironwood output",
        Case { iro_pad: Pad { required: false, min: Some(1) }, o_in: vec![oin(100_000, 1)], i_out: vec![sh(85_000)], ..deferred.clone() },
        Expect::Ok { fee: 15_000 },
    ));
    v.push(("deferred: below NU6.3", Case { height: 40_039, i_out: vec![sh(90_000)], ..deferred.clone() }, Expect::Err("DeferralUnsupported")));
    // required all-dummy Orchard bundle next to Ironwood content (see the findings): 2 dummy Orchard
    // actions + 2 Ironwood actions are emitted and paid for
    v.push((
        "deferred: required orchard bundle without orchard content",
        Case { orc_pad: Pad { required: true, min: None }, i_in: vec![oin(100_000, 5)], i_out: vec![sh(80_000)], ..deferred.clone() },
        Expect::Ok { fee: 20_000 },
    ));
    v.push((
        "deferred: required unpadded ironwood bundle without ironwood content",
        Case {
            iro_pad: Pad { required: true, min: Some(1) },
            o_in: vec![oin(100_000, 5)],
            o_out: vec![ShOut { key: 0, internal: true, change: true, ..sh(85_000) }],
            ..deferred.clone()
        },
        Expect::Ok { fee: 15_000 },
    ));
    // required all-dummy bundles in versions that cannot carry them (see the findings)
    v.push((
        "required ironwood bundle, explicit v5",
        Case {
            engine: Engine::Pczt,
            sap_anchor: Anc::None,
            iro_anchor: Anc::Real,
            iro_pad: Pad { required: true, min: None },
            propose: Some((Ver::V5, false)),
            t_in: vec![tin(0, 50_000)],
            t_out: vec![tout(35_000)],
            ..b.clone()
        },
        Expect::Any,
    ));
    v.push((
        "required orchard bundle, explicit v4",
        Case {
            engine: Engine::Pczt,
            height: 40_001,
            sap_anchor: Anc::None,
            orc_anchor: Anc::Real,
            orc_pad: Pad { required: true, min: None },
            propose: Some((Ver::V4, false)),
            t_in: vec![tin(0, 50_000)],
            t_out: vec![tout(35_000)],
            ..b.clone()
        },
        Expect::Any,
    ));
    v
}

fn check_regress(i: u64) -> CaseResult {
    let (name, c, want) = regress_cases().swap_remove(i as usize);
    let (obs, s) = check_case_full(&c)?;
    match want {
        Expect::Any => {}
        Expect::Ok { fee } => {
            vensure!(s.ok, "regress-expectation", "{name}: expected success, got {}", s.err);
            vensure_eq!(s.fee, fee, "regress-expectation", "{name}: fee");
        }
        Expect::Err(e) => vensure!(!s.ok && s.err == e, "regress-expectation", "{name}: expected {e}, got ok={} {}", s.ok, s.err),
        Expect::ErrStarts(e) => vensure!(!s.ok && s.err.starts_with(e), "regress-expectation", "{name}: expected {e}.., got ok={} {}", s.ok, s.err),
    }
    Ok(Obs { nontrivial: true, key: vcore::hash64(name.as_bytes()), ..obs })
}

fn main() {
    let ctx = Ctx::from_args("C14", "exploration");
    let _ = CTX.set(ctx.clone());
    ctx.set_rule(
        "A case is a whole builder request: LocalNetwork layout + target height (every upgrade boundary -1/0/+1, ZIP 212 \
         grace-period ends), engine (full build with mock Sapling provers / build_for_pczt / thorough: real Orchard proofs), \
         optional propose_version (valid and invalid, before or after the content), per-pool anchors (real/none/wrong), \
         Orchard and Ironwood BundlePadding (DEFAULT, UNPADDED, explicit minimum, bundle_required), fee rule (ZIP 317 \
         standard, non-standard parameters, fixed), 0..n transparent inputs: P2PKH or P2SH m-of-n multisig over 16 \
         generated secp256k1 keys (1 <= m <= n <= 4 mostly, up to 15 keys; keys in arbitrary order; all / exactly m / \
         more than m / m - 1 / none of the keys in the signing set, whose insertion order is varied), a small share of \
         non-multisig redeem scripts and of coins whose script does not fit the spend information; \
         P2PKH/P2SH/null-data outputs, Sapling/Orchard/Ironwood notes placed in incremental Merkle trees, shielded outputs \
         (recipients from generated keys, empty/short/512-byte memos, with and without ovk). One value is then solved with \
         the reference fee so that inputs - outputs - fee is 0, -1, +1 or far off. A fourth engine drives \
         DeferredPcztBuilder (Orchard / Ironwood content only, paddings incl. bundle_required on an empty pool, heights \
         with and without the v6 format). Non-trivial = successful build with \
         content in >= 2 pools, or a request exactly 1 zatoshi from balance; distinct = hash of the whole case.",
    );
    ctx.assume("secp256k1 ECDSA verification, the note-encryption primitives (try_note_decryption & co.), note commitments/nullifiers and the repo's signature_hash are trusted as primitives");
    ctx.assume("sapling-crypto / orchard pad bundles as their BundleType rustdoc says; the reference padding model is written from that text");
    ctx.assume("P2PKH inputs are priced with the ZIP 317 standard size of 150 bytes (documented on InputView for TransparentInputInfo)");
    ctx.assume("P2SH multisig inputs are priced with the documented estimate of their serialized size (p2sh_input_serialized_len: OP_0, m signatures of at most 72 DER bytes + 1 hash-type byte, the pushed redeem script); the reference formula is written from that text");
    ctx.assume("which m of more than m available multisig keys sign is not documented: any m valid signatures in public-key order (the OP_CHECKMULTISIG rule) by keys of the signing set are accepted");
    ctx.assume("a P2SH input whose redeem script is not multisig: ZIP 317 rules must refuse to price it (UnknownP2shInputs listing it), a full build under a fixed fee must fail with UnsupportedScript, build_for_pczt under a fixed fee may succeed (then carrying the requested redeem script) or fail with UnsupportedScript");
    ctx.assume("the v5/v6 reference signature hash recomputes the transparent part (ZIP 244 S.2) and takes the header / Sapling / Orchard / Ironwood digests from the transaction's own txid digests; the v3/v4 reference (ZIP 143/243) is assembled completely by the harness");
    ctx.assume("a target height below Overwinter is unsupported for full builds (v4_signature_hash documents the panic); the panic is accepted there as the signalled failure");
    ctx.assume("build_for_pczt with a Sapling anchor requires ZIP 212 to be enforced (documented sapling::builder::Error::PcztRequiresZip212), whether or not Sapling content is present");
    ctx.assume("when several documented failure reasons hold at once the builder may report any of them (their precedence is not documented)");
    ctx.assume("sums of requested inputs and of requested outputs are each kept within MAX_MONEY / 2 before solving, so no partial sum leaves the money range");
    let tier = ctx.tier;
    let max_n = tier.pick(3usize, 6usize);

    // C14_SKIP_FIXED=1 skips the fixed list; used only when measuring the sensitivity of the generated
    // sub-checks against mutants (a violation in the fixed list stops the run first).
    let skip_fixed = std::env::var_os("C14_SKIP_FIXED").is_some();
    let nr = if skip_fixed { 0 } else { regress_cases().len() as u64 };
    ctx.run_enum("regress", nr, true, check_regress, |i| {
        let (n, c, e) = regress_cases().swap_remove(i as usize);
        format!("{n}: {c:?} expect {e:?}")
    });

    ctx.run_prop_with("build-sapling", move || gen::arb_case(max_n, Engine::Build), tier.pick(50_000, 500_000), 600, check_case);
    ctx.run_prop_with("build-pczt", move || gen::arb_case(max_n, Engine::Pczt), tier.pick(24_000, 250_000), 600, check_case);
    ctx.run_prop_with("build-deferred", move || gen::arb_deferred_case(max_n), tier.pick(16_000, 150_000), 600, check_case);
    // generator health (fractions: the quotas differ between tiers)
    for (sub, label, frac) in [
        ("build-sapling", "ok", 0.25),
        ("build-sapling", "ok:two-or-more-pools", 0.10),
        ("build-sapling", "ok:two-or-more-signatures-verified", 0.07),
        ("build-sapling", "ok:sapling-content", 0.12),
        ("build-sapling", "ok:512-byte-memo-decrypted", 0.03),
        ("build-sapling", "ok:ovk-recovery", 0.06),
        ("build-sapling", "ok:proposed-version", 0.06),
        ("build-sapling", "one-zat-from-balance", 0.15),
        ("build-sapling", "err:insufficient-funds", 0.10),
        ("build-sapling", "err:change-required", 0.10),
        ("build-sapling", "err:missing-transparent-key", 0.01),
        ("build-sapling", "err:missing-sapling-key", 0.004),
        ("build-sapling", "err:target-incompatible", 0.002),
        ("build-sapling", "propose-rejected", 0.02),
        ("build-pczt", "ok", 0.20),
        ("build-pczt", "ok:two-or-more-pools", 0.12),
        ("build-pczt", "ok:three-or-more-pools", 0.05),
        ("build-pczt", "ok:orchard-content", 0.08),
        ("build-pczt", "ok:orchard-cross-address-disabled", 0.04),
        ("build-pczt", "ok:ironwood-content", 0.05),
        ("build-pczt", "ok:orchard-explicit-padding", 0.06),
        ("build-pczt", "ok:ironwood-explicit-padding", 0.03),
        ("build-pczt", "ok:padding-observed", 0.12),
        ("build-pczt", "ok:512-byte-memo-decrypted", 0.05),
        ("build-pczt", "ok:ovk-recovery", 0.08),
        ("build-pczt", "one-zat-from-balance", 0.15),
        ("build-pczt", "err:insufficient-funds", 0.10),
        ("build-pczt", "err:change-required", 0.10),
        ("build-pczt", "err:target-incompatible", 0.02),
        ("build-pczt", "err:pczt-requires-zip212", 0.04),
        ("build-pczt", "propose-rejected", 0.04),
    ] {
        ctx.require_label_fraction(sub, label, frac);
    }
    // transparent input kinds and deferred-builder configurations: labels that are functions of the
    // generated case only
    for (sub, label, frac) in [
        ("build-sapling", "has:p2sh-in", 0.25),
        ("build-sapling", "has:p2pkh-in", 0.30),
        ("build-sapling", "mixed-p2pkh-p2sh", 0.10),
        ("build-sapling", "two-or-more-p2sh-in", 0.05),
        ("build-sapling", "p2sh-in-v3", 0.004),
        ("build-sapling", "p2sh-in-v4", 0.05),
        ("build-sapling", "p2sh-in-v5", 0.07),
        ("build-sapling", "p2sh-in-v6", 0.08),
        ("build-sapling", "p2sh-in-proposed-v4-after-nu5", 0.02),
        ("build-sapling", "p2sh-missing-key", 0.05),
        ("build-sapling", "p2sh-exactly-m-keys", 0.10),
        ("build-sapling", "p2sh-more-than-m-keys", 0.10),
        ("build-sapling", "p2sh-signing-set-order-differs-from-pubkey-order", 0.09),
        ("build-sapling", "p2sh:m=1", 0.10),
        ("build-sapling", "p2sh:m>=2", 0.14),
        ("build-sapling", "p2sh:m=n", 0.10),
        ("build-sapling", "p2sh:m<n", 0.14),
        ("build-sapling", "p2sh:n>4", 0.05),
        ("build-sapling", "p2sh-redeem-direct-push", 0.09),
        ("build-sapling", "p2sh-redeem-pushdata1-below-128", 0.08),
        ("build-sapling", "p2sh-redeem-pushdata1-128-to-255", 0.06),
        ("build-sapling", "p2sh-redeem-pushdata2", 0.025),
        ("build-sapling", "p2sh-via-input-info", 0.09),
        ("build-sapling", "p2sh-wrong-coin-script", 0.01),
        ("build-sapling", "p2sh-non-multisig-redeem-script", 0.01),
        ("build-pczt", "has:p2sh-in", 0.20),
        ("build-pczt", "mixed-p2pkh-p2sh", 0.10),
        ("build-pczt", "p2sh-in-v4", 0.04),
        ("build-pczt", "p2sh-in-v5", 0.07),
        ("build-pczt", "p2sh-in-v6", 0.08),
        ("build-pczt", "p2sh-wrong-coin-script", 0.01),
        ("build-pczt", "p2sh-non-multisig-redeem-script", 0.01),
        ("build-deferred", "deferred:required-bundle-on-empty-pool", 0.06),
        ("build-deferred", "deferred:required-bundle-on-used-pool", 0.15),
        ("build-deferred", "deferred:height-without-v6", 0.07),
        ("build-deferred", "one-zat-from-balance", 0.10),
        ("build-deferred", "delta:0", 0.25),
    ] {
        ctx.require_label_fraction(sub, label, frac);
    }
    for sub in ["build-sapling", "build-pczt"] {
        for l in ["branch:overwinter", "branch:sapling", "branch:blossom", "branch:heartwood", "branch:canopy", "branch:nu5", "branch:nu6", "branch:nu6.1", "branch:nu6.2", "branch:nu6.3", "rule:fixed", "rule:zip317-non-standard", "version:v4", "version:v5", "version:v6"] {
            ctx.require_label_fraction(sub, l, 0.008);
        }
    }
    let prove_cases: u64 = std::env::var("C14_PROVE").ok().and_then(|s| s.parse().ok()).unwrap_or(tier.pick(0, 64));
    if prove_cases > 0 {
        ctx.run_prop_with("build-prove", move || gen::arb_case(2, Engine::Prove), prove_cases, 24, check_case);
        if prove_cases >= 32 {
            ctx.require_label_fraction("build-prove", "ok:orchard-content", 0.15);
            ctx.require_label_fraction("build-prove", "ok:ironwood-content", 0.08);
        }
    }
    ctx.finish();
}

//! Independent recomputation of the SIGHASH_ALL signature hash of one transparent input of a built
//! transaction, written from the ZIP texts (not from `zcash_primitives::transaction::sighash*`):
//!
//! * v3: ZIP 143, v4: ZIP 243 — the whole preimage is assembled here from the transaction's fields;
//!   the last item commits to the *scriptCode* of the input (the redeem script for a P2SH coin).
//! * v5: ZIP 244 section S.2 (`transparent_sig_digest`), v6: the same section under the repository's
//!   v6 digest tree — the transparent part is recomputed here from the coins; the header, Sapling,
//!   Orchard and Ironwood digests (which do not depend on the input being signed) are taken from the
//!   transaction's own txid digests, or are the digests of an absent bundle. S.2g commits to the
//!   *scriptPubKey* of the coin.
//!
//! Shared with the code under test: BLAKE2b, and the accessors of the transaction's fields.

use blake2b_simd::{Hash as Blake2bHash, Params};
use ff::PrimeField;
use zcash_primitives::transaction::{Transaction, TxDigests, TxVersion};

use crate::types::Ver;

const SIGHASH_ALL: u8 = 1;

fn b2(personal: &[u8], data: &[u8]) -> [u8; 32] {
    assert_eq!(personal.len(), 16, "harness: BLAKE2b personalization is 16 bytes");
    let h = Params::new().hash_length(32).personal(personal).hash(data);
    h.as_bytes().try_into().expect("32-byte digest")
}

fn compact_size(n: usize, out: &mut Vec<u8>) {
    if n < 253 {
        out.push(n as u8);
    } else if n <= 0xFFFF {
        out.push(253);
        out.extend_from_slice(&(n as u16).to_le_bytes());
    } else {
        out.push(254);
        out.extend_from_slice(&(n as u32).to_le_bytes());
    }
}

fn script_field(s: &[u8], out: &mut Vec<u8>) {
    compact_size(s.len(), out);
    out.extend_from_slice(s);
}

fn with_branch(prefix: &[u8; 12], branch: u32) -> [u8; 16] {
    let mut p = [0u8; 16];
    p[..12].copy_from_slice(prefix);
    p[12..].copy_from_slice(&branch.to_le_bytes());
    p
}

struct TFields {
    /// (prevout hash, prevout index, sequence)
    vin: Vec<([u8; 32], u32, u32)>,
    /// (value, scriptPubKey)
    vout: Vec<(u64, Vec<u8>)>,
}

fn transparent_fields(tx: &Transaction) -> TFields {
    match tx.transparent_bundle() {
        Some(b) => TFields {
            vin: b.vin.iter().map(|i| (*i.prevout().hash(), i.prevout().n(), i.sequence())).collect(),
            vout: b.vout.iter().map(|o| (o.value().into_u64(), o.script_pubkey().0 .0.clone())).collect(),
        },
        None => TFields { vin: vec![], vout: vec![] },
    }
}

/// ZIP 143 (v3) / ZIP 243 (v4) signature hash of transparent input `input` with SIGHASH_ALL.
/// `script_code` / `value`: of the coin being spent.
pub fn sighash_v3_v4(tx: &Transaction, ver: Ver, input: usize, script_code: &[u8], value: u64) -> [u8; 32] {
    // ZIP 202 / ZIP 203 / ZIP 243: header = version | fOverwintered, and the version group ids
    let (header, vgid): (u32, u32) = match ver {
        Ver::V3 => (0x8000_0003, 0x03C4_8270),
        Ver::V4 => (0x8000_0004, 0x892F_2085),
        other => panic!("harness: {other:?} is not a ZIP 143 / ZIP 243 format"),
    };
    let sapling = ver == Ver::V4;
    let t = transparent_fields(tx);
    let zero = [0u8; 32];
    let mut pre: Vec<u8> = vec![];
    // 1. header, 2. nVersionGroupId
    pre.extend_from_slice(&header.to_le_bytes());
    pre.extend_from_slice(&vgid.to_le_bytes());
    // 3. hashPrevouts (SIGHASH_ALL: all prevouts)
    let mut d = vec![];
    for (h, n, _) in &t.vin {
        d.extend_from_slice(h);
        d.extend_from_slice(&n.to_le_bytes());
    }
    pre.extend_from_slice(&b2(b"ZcashPrevoutHash", &d));
    // 4. hashSequence
    let mut d = vec![];
    for (_, _, s) in &t.vin {
        d.extend_from_slice(&s.to_le_bytes());
    }
    pre.extend_from_slice(&b2(b"ZcashSequencHash", &d));
    // 5. hashOutputs
    let mut d = vec![];
    for (v, s) in &t.vout {
        d.extend_from_slice(&v.to_le_bytes());
        script_field(s, &mut d);
    }
    pre.extend_from_slice(&b2(b"ZcashOutputsHash", &d));
    // 6. hashJoinSplits: the builder never creates JoinSplits
    assert!(tx.sprout_bundle().is_none_or(|b| b.joinsplits.is_empty()), "harness: built transaction with JoinSplits");
    pre.extend_from_slice(&zero);
    if sapling {
        let (spends, outputs) = match tx.sapling_bundle() {
            Some(b) => (b.shielded_spends().to_vec(), b.shielded_outputs().to_vec()),
            None => (vec![], vec![]),
        };
        // 7. hashShieldedSpends: cv, anchor, nullifier, rk, zkproof of every spend
        if spends.is_empty() {
            pre.extend_from_slice(&zero);
        } else {
            let mut d = vec![];
            for s in &spends {
                d.extend_from_slice(&s.cv().to_bytes());
                d.extend_from_slice(s.anchor().to_repr().as_ref());
                d.extend_from_slice(&s.nullifier().0);
                d.extend_from_slice(&<[u8; 32]>::from(*s.rk()));
                d.extend_from_slice(s.zkproof());
            }
            pre.extend_from_slice(&b2(b"ZcashSSpendsHash", &d));
        }
        // 8. hashShieldedOutputs: every output description in full
        if outputs.is_empty() {
            pre.extend_from_slice(&zero);
        } else {
            let mut d = vec![];
            for o in &outputs {
                d.extend_from_slice(&o.cv().to_bytes());
                d.extend_from_slice(&o.cmu().to_bytes());
                d.extend_from_slice(&o.ephemeral_key().0);
                d.extend_from_slice(o.enc_ciphertext());
                d.extend_from_slice(o.out_ciphertext());
                d.extend_from_slice(o.zkproof());
            }
            pre.extend_from_slice(&b2(b"ZcashSOutputHash", &d));
        }
    }
    // 9. nLockTime, 10. nExpiryHeight
    pre.extend_from_slice(&tx.lock_time().to_le_bytes());
    pre.extend_from_slice(&u32::from(tx.expiry_height()).to_le_bytes());
    // 11. valueBalance (v4 only)
    if sapling {
        let vb: i64 = tx.sapling_bundle().map(|b| i64::from(*b.value_balance())).unwrap_or(0);
        pre.extend_from_slice(&vb.to_le_bytes());
    }
    // 12. nHashType
    pre.extend_from_slice(&(SIGHASH_ALL as u32).to_le_bytes());
    // 13. the input being signed: outpoint, scriptCode, value, nSequence
    let (h, n, seq) = &t.vin[input];
    pre.extend_from_slice(h);
    pre.extend_from_slice(&n.to_le_bytes());
    script_field(script_code, &mut pre);
    pre.extend_from_slice(&(value as i64).to_le_bytes());
    pre.extend_from_slice(&seq.to_le_bytes());

    b2(&with_branch(b"ZcashSigHash", u32::from(tx.consensus_branch_id())), &pre)
}

/// ZIP 244 signature digest (v5) and its v6 variant for transparent input `input` with
/// SIGHASH_ALL. `coins[j]` = (value, scriptPubKey) of the coin spent by input j.
pub fn sighash_v5_v6(tx: &Transaction, ver: Ver, parts: &TxDigests<Blake2bHash>, coins: &[(u64, Vec<u8>)], input: usize) -> [u8; 32] {
    assert!(matches!((ver, tx.version()), (Ver::V5, TxVersion::V5) | (Ver::V6, TxVersion::V6)), "harness: ZIP 244 formats only");
    let t = transparent_fields(tx);
    assert_eq!(coins.len(), t.vin.len(), "harness: one coin per input");
    // S.2a hash_type
    let mut pre: Vec<u8> = vec![SIGHASH_ALL];
    // S.2b prevouts_sig_digest
    let mut d = vec![];
    for (h, n, _) in &t.vin {
        d.extend_from_slice(h);
        d.extend_from_slice(&n.to_le_bytes());
    }
    pre.extend_from_slice(&b2(b"ZTxIdPrevoutHash", &d));
    // S.2c amounts_sig_digest
    let mut d = vec![];
    for (v, _) in coins {
        d.extend_from_slice(&(*v as i64).to_le_bytes());
    }
    pre.extend_from_slice(&b2(b"ZTxTrAmountsHash", &d));
    // S.2d scriptpubkeys_sig_digest
    let mut d = vec![];
    for (_, s) in coins {
        script_field(s, &mut d);
    }
    pre.extend_from_slice(&b2(b"ZTxTrScriptsHash", &d));
    // S.2e sequence_sig_digest
    let mut d = vec![];
    for (_, _, s) in &t.vin {
        d.extend_from_slice(&s.to_le_bytes());
    }
    pre.extend_from_slice(&b2(b"ZTxIdSequencHash", &d));
    // S.2f outputs_sig_digest
    let mut d = vec![];
    for (v, s) in &t.vout {
        d.extend_from_slice(&v.to_le_bytes());
        script_field(s, &mut d);
    }
    pre.extend_from_slice(&b2(b"ZTxIdOutputsHash", &d));
    // S.2g txin_sig_digest: prevout, value, scriptPubKey, nSequence of the input being signed
    let (h, n, seq) = &t.vin[input];
    let mut d = vec![];
    d.extend_from_slice(h);
    d.extend_from_slice(&n.to_le_bytes());
    d.extend_from_slice(&(coins[input].0 as i64).to_le_bytes());
    script_field(&coins[input].1, &mut d);
    d.extend_from_slice(&seq.to_le_bytes());
    pre.extend_from_slice(&b2(b"Zcash___TxInHash", &d));
    let transparent_sig_digest = b2(b"ZTxIdTranspaHash", &pre);

    // S.1 header, S.3 sapling, S.4 orchard (v6: + Ironwood): identical to the txid digests; an
    // absent bundle hashes the empty string under the bundle's personalization
    let or_empty = |d: &Option<Blake2bHash>, personal: &[u8]| -> [u8; 32] {
        match d {
            Some(h) => h.as_bytes().try_into().expect("32-byte digest"),
            None => b2(personal, &[]),
        }
    };
    let mut pre: Vec<u8> = vec![];
    pre.extend_from_slice(parts.header_digest.as_bytes());
    pre.extend_from_slice(&transparent_sig_digest);
    pre.extend_from_slice(&or_empty(&parts.sapling_digest, b"ZTxIdSaplingHash"));
    if ver == Ver::V6 {
        pre.extend_from_slice(&or_empty(&parts.orchard_digest, b"ZTxIdOrchardH_v6"));
        pre.extend_from_slice(&or_empty(&parts.ironwood_digest, b"ZTxIdIronwd_H_v6"));
    } else {
        pre.extend_from_slice(&or_empty(&parts.orchard_digest, b"ZTxIdOrchardHash"));
    }
    b2(&with_branch(b"ZcashTxHash_", u32::from(tx.consensus_branch_id())), &pre)
}

//! Drives the builder for one planned case: construction, `propose_version`, the add calls (each
//! checked against the documented acceptance rule), and the build through the selected engine.

use std::convert::Infallible;

use rand_chacha::ChaCha20Rng;
use rand_core::SeedableRng;
use sapling::prover::mock::{MockOutputProver, MockSpendProver};
use vcore::{catch, panic_site, vensure, vfail, Fail};
use zcash_primitives::transaction::builder::{
    BuildConfig, BuildResult, Builder, BundlePadding, DeferredPcztBuilder, Error as BErr, FeeError as BFeeError, PcztResult,
};
use zcash_primitives::transaction::fees::{fixed, zip317, FeeRule};
use zcash_protocol::consensus::BlockHeight;
use zcash_protocol::local_consensus::LocalNetwork;
use zcash_protocol::memo::MemoBytes;
use zcash_protocol::value::{BalanceError, Zatoshis};
use zcash_transparent::address::{Script, TransparentAddress};
use zcash_transparent::builder::{SpendInfo, TransparentInputInfo, TransparentSigningSet};
use zcash_transparent::bundle::{OutPoint, TxOut};

use crate::plan::*;
use crate::types::*;
use crate::world::*;

pub struct World {
    pub net: LocalNetwork,
    /// (outpoint, coin) per requested transparent input
    pub coins: Vec<(OutPoint, TxOut)>,
    pub s_notes: Vec<SapNote>,
    pub o_notes: Vec<OrcNote>,
    pub i_notes: Vec<OrcNote>,
    pub sap_root: sapling::Anchor,
    pub orc_root: orchard::Anchor,
    pub iro_root: orchard::Anchor,
}

pub fn zat(v: u64) -> Zatoshis {
    Zatoshis::from_u64(v).expect("harness: value within MAX_MONEY")
}

/// `zcash_script` view of a redeem script taken from the chain / the wallet.
pub fn redeem_from_bytes(b: &[u8]) -> zcash_script::script::FromChain {
    zcash_script::script::FromChain::parse(&zcash_script::script::Code(b.to_vec())).expect("harness: redeem script parses")
}

pub fn script_from_bytes(b: &[u8]) -> Script {
    let mut enc = Vec::with_capacity(b.len() + 3);
    if b.len() < 253 {
        enc.push(b.len() as u8);
    } else {
        enc.push(253);
        enc.extend_from_slice(&(b.len() as u16).to_le_bytes());
    }
    enc.extend_from_slice(b);
    Script::read(&enc[..]).expect("harness: script encoding")
}

pub fn memo_bytes(m: &Memo) -> MemoBytes {
    match m {
        Memo::Empty => MemoBytes::empty(),
        other => MemoBytes::from_bytes(&other.bytes()).expect("harness: memo at most 512 bytes"),
    }
}

pub fn build_world(c: &Case, p: &Plan) -> World {
    let k = keys();
    let coins = c
        .t_in
        .iter()
        .enumerate()
        .map(|(i, x)| {
            let mut h = [0u8; 32];
            h[..8].copy_from_slice(&(i as u64 + 1).to_le_bytes());
            h[8..24].copy_from_slice(&c.seed[..16]);
            let op = OutPoint::new(h, (i as u32 * 3) % 7);
            let script = match (&x.spend, x.wrong_script) {
                (TSpend::P2pkh, false) => p2pkh_script(&k.t[x.key as usize].pkh),
                // another key's P2PKH script, or a P2SH script over the right key hash
                (TSpend::P2pkh, true) if x.key & 1 == 0 => p2pkh_script(&k.t[(x.key as usize + 1) % 6].pkh),
                (TSpend::P2pkh, true) => p2sh_script(&k.t[x.key as usize].pkh),
                (_, false) => p2sh_script(&hash160(p.redeem[i].as_ref().expect("p2sh has a redeem script"))),
                // P2SH of another script, or a P2PKH script over the right script hash
                (_, true) if x.key & 1 == 0 => {
                    let mut other = p.redeem[i].clone().expect("p2sh has a redeem script");
                    *other.last_mut().expect("non-empty") ^= 1;
                    p2sh_script(&hash160(&other))
                }
                (_, true) => p2pkh_script(&hash160(p.redeem[i].as_ref().expect("p2sh has a redeem script"))),
            };
            let coin = TxOut::new(zat(p.val[T_IN][i]), script_from_bytes(&script));
            (op, coin)
        })
        .collect();
    let s_entries: Vec<(usize, u64, [u8; 32])> =
        c.s_in.iter().enumerate().map(|(i, x)| (x.key as usize, p.val[S_IN][i], x.rseed)).collect();
    let (s_notes, sap_root) = sapling_tree(&s_entries);
    let oe = |v: &[OIn], kind: usize, v3: bool| -> Vec<OrcEntry> {
        v.iter()
            .enumerate()
            .map(|(i, x)| OrcEntry {
                key: x.key as usize,
                internal: x.internal,
                div: x.div,
                value: p.val[kind][i],
                rho: x.rho,
                rseed: x.rseed,
                v3: v3 != x.wrong_version,
            })
            .collect()
    };
    let (o_notes, orc_root) = orchard_tree(&oe(&c.o_in, O_IN, false));
    let (i_notes, iro_root) = orchard_tree(&oe(&c.i_in, I_IN, true));
    World { net: local_network(&LAYOUTS[c.layout as usize]), coins, s_notes, o_notes, i_notes, sap_root, orc_root, iro_root }
}

#[derive(Debug)]
#[allow(dead_code)]
pub enum RErr {
    Insufficient(i64),
    Change(i64),
    FeeOverflow,
    Balance(String),
    Target(Option<String>),
    TMissingKey,
    TUnsupportedScript,
    /// outpoints listed by `zip317::FeeError::UnknownP2shInputs`
    UnknownP2sh(Vec<OutPoint>),
    DeferralUnsupported,
    SapZip212,
    SapMissingKey,
    Other(String),
}

pub enum Outcome {
    Built(Box<BuildResult>),
    Pczt(Box<PcztResult<LocalNetwork>>),
    /// result of `DeferredPcztBuilder::build_for_pczt` and the fee `get_fee` announced before
    DeferredPczt(Box<PcztResult<LocalNetwork>>, u64),
    Err(RErr),
    Panic(String),
}

pub trait FeKind: std::fmt::Debug {
    fn overflow(&self) -> bool;
    fn unknown_p2sh(&self) -> Option<Vec<OutPoint>>;
}
impl FeKind for zip317::FeeError {
    fn overflow(&self) -> bool {
        matches!(self, zip317::FeeError::Balance(BalanceError::Overflow))
    }
    fn unknown_p2sh(&self) -> Option<Vec<OutPoint>> {
        match self {
            zip317::FeeError::UnknownP2shInputs(v) => Some(v.clone()),
            _ => None,
        }
    }
}
impl FeKind for Infallible {
    fn overflow(&self) -> bool {
        match *self {}
    }
    fn unknown_p2sh(&self) -> Option<Vec<OutPoint>> {
        match *self {}
    }
}

fn map_err<FE: FeKind>(e: BErr<FE>) -> RErr {
    match e {
        BErr::InsufficientFunds(v) => RErr::Insufficient(i64::from(v)),
        BErr::ChangeRequired(v) => RErr::Change(i64::from(v)),
        BErr::Fee(BFeeError::FeeRule(fe)) => {
            if fe.overflow() {
                RErr::FeeOverflow
            } else if let Some(v) = fe.unknown_p2sh() {
                RErr::UnknownP2sh(v)
            } else {
                RErr::Other(format!("Fee(FeeRule({fe:?}))"))
            }
        }
        BErr::Balance(b) => RErr::Balance(format!("{b:?}")),
        BErr::TargetIncompatible(_, _, pool) => RErr::Target(pool.map(|p| p.to_string())),
        BErr::TransparentBuild(zcash_transparent::builder::Error::MissingSigningKey) => RErr::TMissingKey,
        BErr::TransparentBuild(zcash_transparent::builder::Error::UnsupportedScript) => RErr::TUnsupportedScript,
        BErr::AnchorDeferralUnsupported(_) => RErr::DeferralUnsupported,
        BErr::SaplingBuild(sapling::builder::Error::PcztRequiresZip212) => RErr::SapZip212,
        BErr::SaplingBuild(sapling::builder::Error::MissingSpendingKey) => RErr::SapMissingKey,
        other => RErr::Other(format!("{other:?}")),
    }
}

fn classify_add(e: BErr<Infallible>) -> String {
    use orchard::builder::{OutputError, SpendError};
    match e {
        BErr::SaplingBuilderNotAvailable => "sapling-na".into(),
        BErr::OrchardBuilderNotAvailable => "orchard-na".into(),
        BErr::IronwoodBuilderNotAvailable => "ironwood-na".into(),
        BErr::SaplingBuild(sapling::builder::Error::AnchorMismatch) => "sapling-anchor-mismatch".into(),
        BErr::OrchardSpend(SpendError::AnchorMismatch) => "orchard-anchor-mismatch".into(),
        BErr::IronwoodSpend(SpendError::AnchorMismatch) => "ironwood-anchor-mismatch".into(),
        BErr::OrchardRecipient(OutputError::CrossAddressDisabled) => "orchard-cross-address-disabled".into(),
        BErr::OrchardRecipient(OutputError::RecipientNotOwned) => "orchard-recipient-not-owned".into(),
        BErr::IronwoodSpendUnsupportedNoteVersion(_) => "ironwood-note-version".into(),
        BErr::TransparentBuild(zcash_transparent::builder::Error::NullDataTooLong { .. }) => "null-data-too-long".into(),
        other => format!("other:{other:?}"),
    }
}

fn classify_t(e: zcash_transparent::builder::Error) -> String {
    match e {
        zcash_transparent::builder::Error::InvalidAddress => "transparent-invalid-address".into(),
        other => format!("other:{other:?}"),
    }
}

fn check_add(what: &str, i: usize, want: &'static str, got: Result<(), String>) -> Result<(), Fail> {
    match got {
        Ok(()) => vensure!(want.is_empty(), "add-unexpected-success", "{what}[{i}] was accepted although the documented outcome is {want}"),
        Err(g) => {
            vensure!(!want.is_empty(), "add-unexpected-error", "{what}[{i}] was rejected with {g} although it satisfies the documented preconditions");
            vensure!(g == want, "add-wrong-error", "{what}[{i}] was rejected with {g}, documented outcome {want}")
        }
    }
    Ok(())
}

fn padding(p: Pad) -> BundlePadding {
    // exercise the named constants where they denote the same configuration
    if p == (Pad { required: false, min: None }) {
        BundlePadding::DEFAULT
    } else if p == (Pad { required: false, min: Some(1) }) {
        BundlePadding::UNPADDED
    } else {
        BundlePadding { bundle_required: p.required, pad_to_minimum: p.min }
    }
}

fn ovk_o(o: &Option<[u8; 32]>) -> Option<orchard::keys::OutgoingViewingKey> {
    o.map(orchard::keys::OutgoingViewingKey::from)
}

/// Creates the builder, proposes the version and adds the content; every step is compared with the
/// plan. Panics of the builder propagate to the caller's `catch`.
fn drive(c: &Case, p: &Plan, w: &World) -> Result<Option<Builder<LocalNetwork, ()>>, Fail> {
    let k = keys();
    let cfg = BuildConfig::Standard {
        sapling_anchor: match c.sap_anchor {
            Anc::None => None,
            Anc::Real => Some(w.sap_root),
            Anc::Wrong => Some(sapling::Anchor::empty_tree()),
        },
        orchard_anchor: match c.orc_anchor {
            Anc::None => None,
            Anc::Real => Some(w.orc_root),
            Anc::Wrong => Some(orchard::Anchor::empty_tree()),
        },
        ironwood_anchor: match c.iro_anchor {
            Anc::None => None,
            Anc::Real => Some(w.iro_root),
            Anc::Wrong => Some(orchard::Anchor::empty_tree()),
        },
        orchard_padding: padding(c.orc_pad),
        ironwood_padding: padding(c.iro_pad),
    };
    let mut b = Builder::new(w.net, BlockHeight::from_u32(c.height), cfg);

    let replan = std::cell::Cell::new(false);
    let propose = |b: &mut Builder<LocalNetwork, ()>, v: Ver| -> Result<(), Fail> {
        let want = p.propose_ok.expect("plan has a proposal");
        let got = b.propose_version::<Infallible>(v.real());
        if p.propose_undecided && want && matches!(got, Err(BErr::TargetIncompatible(..))) {
            replan.set(true);
            return Ok(());
        }
        match got {
            Ok(()) => vensure!(want, "propose-version-accepted-invalid", "propose_version({v:?}) accepted under {:?} (late={:?})", p.br, c.propose),
            Err(BErr::TargetIncompatible(..)) => {
                vensure!(!want, "propose-version-rejected-valid", "propose_version({v:?}) rejected under {:?} although valid (late={:?})", p.br, c.propose)
            }
            Err(e) => vfail!("propose-version-wrong-error", "propose_version({v:?}) failed with {e:?}"),
        }
        Ok(())
    };
    if let Some((v, false)) = c.propose {
        propose(&mut b, v)?;
        if replan.get() {
            return Ok(None);
        }
    }

    for (i, x) in c.t_in.iter().enumerate() {
        let (op, coin) = w.coins[i].clone();
        let pk = k.t[x.key as usize].pk;
        let got = match (&p.redeem[i], x.via_info) {
            (None, true) => TransparentInputInfo::from_parts(op, coin, SpendInfo::P2pkh { pubkey: pk }).map(|info| b.add_transparent_input(info)).map_err(classify_t),
            (None, false) => b.add_transparent_p2pkh_input(pk, op, coin).map_err(classify_t),
            (Some(r), true) => TransparentInputInfo::from_parts(op, coin, SpendInfo::P2sh { redeem_script: redeem_from_bytes(r) })
                .map(|info| b.add_transparent_input(info))
                .map_err(classify_t),
            (Some(r), false) => b.add_transparent_p2sh_input(redeem_from_bytes(r), op, coin).map_err(classify_t),
        };
        check_add("transparent input", i, p.exp[T_IN][i], got)?;
    }
    for (i, x) in c.t_out.iter().enumerate() {
        let v = zat(p.val[T_OUT][i]);
        let got = match &x.kind {
            TKind::P2pkh(h) => b.add_transparent_output(&TransparentAddress::PublicKeyHash(*h), v).map_err(classify_t),
            TKind::P2sh(h) => b.add_transparent_output(&TransparentAddress::ScriptHash(*h), v).map_err(classify_t),
            TKind::Null(d) => b.add_transparent_null_data_output::<Infallible>(d).map_err(classify_add),
        };
        check_add("transparent output", i, p.exp[T_OUT][i], got)?;
    }
    for (i, x) in c.s_in.iter().enumerate() {
        let sk = &k.s[x.key as usize];
        let n = &w.s_notes[i];
        let got = b.add_sapling_spend::<Infallible>(sk.dfvk.fvk().clone(), n.note.clone(), n.path.clone()).map_err(classify_add);
        check_add("sapling spend", i, p.exp[S_IN][i], got)?;
    }
    for (i, x) in c.s_out.iter().enumerate() {
        let to = k.s[x.key as usize].address(x.internal, x.div);
        let ovk = x.ovk.map(sapling::keys::OutgoingViewingKey);
        let got = b.add_sapling_output::<Infallible>(ovk, to, zat(p.val[S_OUT][i]), memo_bytes(&x.memo)).map_err(classify_add);
        check_add("sapling output", i, p.exp[S_OUT][i], got)?;
    }
    for (i, x) in c.o_in.iter().enumerate() {
        let n = &w.o_notes[i];
        let got = b.add_orchard_spend::<Infallible>(k.o[x.key as usize].fvk.clone(), n.note, n.path.clone()).map_err(classify_add);
        check_add("orchard spend", i, p.exp[O_IN][i], got)?;
    }
    for (i, x) in c.o_out.iter().enumerate() {
        let ok = &k.o[x.key as usize];
        let to = ok.address(x.internal, x.div);
        let v = zat(p.val[O_OUT][i]);
        let got = if x.change {
            let fvk = if x.wrong_owner { k.o[(x.key as usize + 1) % k.o.len()].fvk.clone() } else { ok.fvk.clone() };
            b.add_orchard_change_output::<Infallible>(fvk, ovk_o(&x.ovk), to, v, memo_bytes(&x.memo)).map_err(classify_add)
        } else {
            b.add_orchard_output::<Infallible>(ovk_o(&x.ovk), to, v, memo_bytes(&x.memo)).map_err(classify_add)
        };
        check_add("orchard output", i, p.exp[O_OUT][i], got)?;
    }
    for (i, x) in c.i_in.iter().enumerate() {
        let n = &w.i_notes[i];
        let got = b.add_ironwood_spend::<Infallible>(k.o[x.key as usize].fvk.clone(), n.note, n.path.clone()).map_err(classify_add);
        check_add("ironwood spend", i, p.exp[I_IN][i], got)?;
    }
    for (i, x) in c.i_out.iter().enumerate() {
        let to = k.o[x.key as usize].address(x.internal, x.div);
        let got = b.add_ironwood_output::<Infallible>(ovk_o(&x.ovk), to, zat(p.val[I_OUT][i]), memo_bytes(&x.memo)).map_err(classify_add);
        check_add("ironwood output", i, p.exp[I_OUT][i], got)?;
    }

    if let Some((v, true)) = c.propose {
        propose(&mut b, v)?;
        if replan.get() {
            return Ok(None);
        }
    }
    Ok(Some(b))
}

fn finish<FR: FeeRule>(c: &Case, p: &Plan, b: Builder<LocalNetwork, ()>, rule: &FR) -> Outcome
where
    FR::Error: FeKind,
{
    let k = keys();
    let rng = ChaCha20Rng::from_seed(c.seed);
    match c.engine {
        Engine::Pczt => match b.build_for_pczt(rng, rule) {
            Ok(r) => Outcome::Pczt(Box::new(r)),
            Err(e) => Outcome::Err(map_err(e)),
        },
        Engine::Deferred => unreachable!("deferred cases use drive_deferred"),
        Engine::Build | Engine::Prove => {
            // signing keys: as planned (every key in use minus the deliberately omitted ones, plus
            // an unrelated one, in a case-dependent order)
            let mut set = TransparentSigningSet::new();
            for i in &p.sign_set {
                set.add_key(k.t[*i].sk);
            }
            let mut sk: Vec<usize> = p.accepted(S_IN).map(|i| c.s_in[i].key as usize).collect();
            sk.push(4);
            sk.sort();
            sk.dedup();
            sk.retain(|x| Some(*x) != p.omit_skey);
            if c.key_perm & 2 == 2 {
                sk.reverse();
            }
            let extsks: Vec<sapling::zip32::ExtendedSpendingKey> = sk.into_iter().map(|i| k.s[i].extsk.clone()).collect();
            let mut ok: Vec<usize> = p.accepted(O_IN).map(|i| c.o_in[i].key as usize).collect();
            ok.extend(p.accepted(I_IN).map(|i| c.i_in[i].key as usize));
            // change outputs of a cross-address-disabled bundle are signed by their owner
            ok.extend(p.accepted(O_OUT).map(|i| c.o_out[i].key as usize));
            ok.sort();
            ok.dedup();
            if c.key_perm & 4 == 4 {
                ok.reverse();
            }
            let saks: Vec<orchard::keys::SpendAuthorizingKey> = ok.into_iter().map(|i| orchard::keys::SpendAuthorizingKey::from(&k.o[i].sk)).collect();
            match b.build(&set, &extsks, &saks, rng, &MockSpendProver, &MockOutputProver, rule) {
                Ok(r) => Outcome::Built(Box::new(r)),
                Err(e) => Outcome::Err(map_err(e)),
            }
        }
    }
}

enum DeferredStep {
    Ready(Box<DeferredPcztBuilder<LocalNetwork>>),
    Refused(RErr),
}

/// `DeferredPcztBuilder`: construction and the add calls, each compared with the plan.
fn drive_deferred(c: &Case, p: &Plan, w: &World) -> Result<DeferredStep, Fail> {
    let k = keys();
    let mut b = match DeferredPcztBuilder::new::<Infallible>(w.net, BlockHeight::from_u32(c.height), padding(c.orc_pad), padding(c.iro_pad)) {
        Ok(b) => {
            vensure!(p.deferral_ok, "deferred-builder-accepted-pre-v6-height", "DeferredPcztBuilder::new succeeded under {:?} whose transaction format is not v6", p.br);
            b
        }
        Err(e) => {
            let e = map_err(e);
            vensure!(!p.deferral_ok, "deferred-builder-refused-v6-height", "DeferredPcztBuilder::new failed with {e:?} under {:?}", p.br);
            return Ok(DeferredStep::Refused(e));
        }
    };
    for (i, x) in c.o_in.iter().enumerate() {
        let got = b.add_orchard_spend::<Infallible>(k.o[x.key as usize].fvk.clone(), w.o_notes[i].note).map_err(classify_add);
        check_add("orchard spend", i, p.exp[O_IN][i], got)?;
    }
    for (i, x) in c.o_out.iter().enumerate() {
        let ok = &k.o[x.key as usize];
        let to = ok.address(x.internal, x.div);
        let v = zat(p.val[O_OUT][i]);
        let got = if x.change {
            let fvk = if x.wrong_owner { k.o[(x.key as usize + 1) % k.o.len()].fvk.clone() } else { ok.fvk.clone() };
            b.add_orchard_change_output::<Infallible>(fvk, ovk_o(&x.ovk), to, v, memo_bytes(&x.memo)).map_err(classify_add)
        } else {
            b.add_orchard_output::<Infallible>(ovk_o(&x.ovk), to, v, memo_bytes(&x.memo)).map_err(classify_add)
        };
        check_add("orchard output", i, p.exp[O_OUT][i], got)?;
    }
    for (i, x) in c.i_in.iter().enumerate() {
        let got = b.add_ironwood_spend::<Infallible>(k.o[x.key as usize].fvk.clone(), w.i_notes[i].note).map_err(classify_add);
        check_add("ironwood spend", i, p.exp[I_IN][i], got)?;
    }
    for (i, x) in c.i_out.iter().enumerate() {
        let to = k.o[x.key as usize].address(x.internal, x.div);
        let got = b.add_ironwood_output::<Infallible>(ovk_o(&x.ovk), to, zat(p.val[I_OUT][i]), memo_bytes(&x.memo)).map_err(classify_add);
        check_add("ironwood output", i, p.exp[I_OUT][i], got)?;
    }
    Ok(DeferredStep::Ready(Box::new(b)))
}

fn finish_deferred<FR: FeeRule>(c: &Case, b: DeferredPcztBuilder<LocalNetwork>, rule: &FR) -> Result<Outcome, Fail>
where
    FR::Error: FeKind,
{
    // `get_fee` is documented as the fee "as a function of the spends and outputs added so far":
    // it must be the fee that `build_for_pczt` then enforces
    let announced = b.get_fee(rule);
    let rng = ChaCha20Rng::from_seed(c.seed);
    Ok(match b.build_for_pczt(rng, rule) {
        Ok(r) => {
            vensure!(announced.is_ok(), "deferred-get-fee-disagrees-with-build", "get_fee failed with {:?} but build_for_pczt succeeded", announced.as_ref().err());
            Outcome::DeferredPczt(Box::new(r), announced.map(|f| f.into_u64()).unwrap_or(0))
        }
        Err(e) => Outcome::Err(map_err(e)),
    })
}

/// `None`: the builder rejected a proposal that the plan tolerantly assumed accepted; re-plan.
pub fn run(c: &Case, p: &Plan, w: &World) -> Result<Option<Outcome>, Fail> {
    if c.engine == Engine::Deferred {
        let step = match catch(|| drive_deferred(c, p, w)) {
            Ok(r) => r?,
            Err(pm) => vfail!(format!("builder-panic:{}", panic_site(&pm)), "panic while configuring the deferred builder: {pm}"),
        };
        let b = match step {
            DeferredStep::Ready(b) => *b,
            DeferredStep::Refused(e) => return Ok(Some(Outcome::Err(e))),
        };
        let out = catch(|| match &c.rule {
            Rule::Standard => finish_deferred(c, b, &zip317::FeeRule::standard()),
            Rule::NonStd { marginal, grace, std_in, std_out } => {
                let r = zip317::FeeRule::non_standard(zat(*marginal), *grace, *std_in, *std_out).expect("harness: non-zero standard sizes");
                finish_deferred(c, b, &r)
            }
            Rule::Fixed(f) => finish_deferred(c, b, &fixed::FeeRule::non_standard(zat(*f))),
        });
        return Ok(Some(match out {
            Ok(o) => o?,
            Err(pm) => Outcome::Panic(pm),
        }));
    }
    let b = match catch(|| drive(c, p, w)) {
        Ok(r) => r?,
        Err(pm) => vfail!(format!("builder-panic:{}", panic_site(&pm)), "panic while configuring the builder: {pm}"),
    };
    let Some(b) = b else { return Ok(None) };
    let out = catch(|| match &c.rule {
        Rule::Standard => finish(c, p, b, &zip317::FeeRule::standard()),
        Rule::NonStd { marginal, grace, std_in, std_out } => {
            let r = zip317::FeeRule::non_standard(zat(*marginal), *grace, *std_in, *std_out).expect("harness: non-zero standard sizes");
            finish(c, p, b, &r)
        }
        Rule::Fixed(f) => finish(c, p, b, &fixed::FeeRule::non_standard(zat(*f))),
    });
    Ok(Some(match out {
        Ok(o) => o,
        Err(pm) => Outcome::Panic(pm),
    }))
}

//! Oracle for a successful full `build`: content, padding, fee, decryption, transparent signatures.

use std::collections::BTreeMap;

use vcore::{vensure, vensure_eq, vfail, Fail};
use zcash_note_encryption::{try_compact_note_decryption, try_note_decryption, try_output_recovery_with_ovk};
use zcash_primitives::transaction::builder::BuildResult;
use zcash_primitives::transaction::sighash::{signature_hash, SignableInput};
use zcash_primitives::transaction::txid::TxIdDigester;
use zcash_primitives::transaction::{Authorization as TxAuthorization, Transaction};
use zcash_protocol::value::{BalanceError, ZatBalance, Zatoshis};
use zcash_transparent::address::Script;
use zcash_transparent::bundle::OutPoint;
use zcash_transparent::sighash::{SighashType, TransparentAuthorizingContext};

use crate::plan::*;
use crate::run::World;
use crate::types::*;
use crate::world::*;

#[derive(Debug)]
pub struct OAuth {
    amounts: Vec<Zatoshis>,
    scripts: Vec<Script>,
}
impl zcash_transparent::bundle::Authorization for OAuth {
    type ScriptSig = Script;
}
impl TransparentAuthorizingContext for OAuth {
    fn input_amounts(&self) -> Vec<Zatoshis> {
        self.amounts.clone()
    }
    fn input_scriptpubkeys(&self) -> Vec<Script> {
        self.scripts.clone()
    }
}
pub struct OTx;
impl TxAuthorization for OTx {
    type TransparentAuth = OAuth;
    type SaplingAuth = sapling::bundle::Authorized;
    type OrchardAuth = orchard::bundle::Authorized;
}
struct TMap(Vec<Zatoshis>, Vec<Script>);
impl zcash_transparent::bundle::MapAuth<zcash_transparent::bundle::Authorized, OAuth> for TMap {
    fn map_script_sig(&self, s: Script) -> Script {
        s
    }
    fn map_authorization(&self, _: zcash_transparent::bundle::Authorized) -> OAuth {
        OAuth { amounts: self.0.clone(), scripts: self.1.clone() }
    }
}

/// What the oracle learned from a result (for labels).
#[derive(Default, Debug)]
pub struct Seen {
    pub sigs_verified: usize,
    pub decrypted: usize,
    pub ovk_recovered: usize,
    pub padding_observed: usize,
    pub memo512: usize,
    pub fee: u128,
    /// P2SH inputs whose scriptSig was checked / signatures inside them
    pub p2sh_inputs: usize,
    pub p2sh_sigs_verified: usize,
    /// signature hashes recomputed by the harness's own ZIP 143 / 243 / 244 code and found equal
    pub ref_sighashes: usize,
    /// hits of the known finding about the deferred builder's required-but-omitted bundle
    pub known_deferred_required: usize,
    /// hits of the known finding about OP_PUSHDATA1 lengths of 128..=255 in P2SH scriptSigs
    pub known_pushdata1_length: usize,
}

pub fn zip212_real(z: Z212) -> sapling::note_encryption::Zip212Enforcement {
    use sapling::note_encryption::Zip212Enforcement as Z;
    match z {
        Z212::Off => Z::Off,
        Z212::Grace => Z::GracePeriod,
        Z212::On => Z::On,
    }
}

pub fn expected_memo(m: &Memo) -> [u8; 512] {
    // ZIP 302: the empty memo is 0xF6 followed by zeros; any other memo is zero-padded to 512 bytes
    let mut out = [0u8; 512];
    match m {
        Memo::Empty => out[0] = 0xF6,
        other => {
            let b = other.bytes();
            out[..b.len()].copy_from_slice(&b);
        }
    }
    out
}

/// One element of a push-only script.
#[derive(Debug, PartialEq, Eq)]
pub struct Push<'a> {
    /// 0x00 (OP_0), 0x01..=0x4b (direct push), 0x4c (OP_PUSHDATA1), 0x4d (OP_PUSHDATA2)
    pub opcode: u8,
    pub data: &'a [u8],
}

/// Parses a script made of data pushes only (OP_0, direct pushes, OP_PUSHDATA1/2); `None` for any
/// other opcode or a truncated push.
pub fn parse_push_only(mut s: &[u8]) -> Option<Vec<Push<'_>>> {
    let mut out = vec![];
    while let Some((&op, rest)) = s.split_first() {
        let (len, rest) = match op {
            0x00..=0x4b => (op as usize, rest),
            0x4c => (*rest.first()? as usize, &rest[1..]),
            0x4d => {
                if rest.len() < 2 {
                    return None;
                }
                (u16::from_le_bytes([rest[0], rest[1]]) as usize, &rest[2..])
            }
            _ => return None,
        };
        if rest.len() < len {
            return None;
        }
        out.push(Push { opcode: op, data: &rest[..len] });
        s = &rest[len..];
    }
    Some(out)
}

/// The known mis-encoding (`SIG_PUSHDATA1_LENGTH`): `ss` ends with `OP_PUSHDATA1 <len> 0x00 <redeem>`
/// for a redeem script of 128..=255 bytes. Returns the scriptSig with the stray sign byte removed.
fn repair_pushdata1_length(ss: &[u8], redeem: &[u8]) -> Option<Vec<u8>> {
    if !(128..=255).contains(&redeem.len()) {
        return None;
    }
    let mut tail = vec![0x4c, redeem.len() as u8, 0x00];
    tail.extend_from_slice(redeem);
    ss.ends_with(&tail).then(|| {
        let cut = ss.len() - redeem.len() - 1;
        let mut v = ss[..cut].to_vec();
        v.extend_from_slice(redeem);
        v
    })
}

/// The coin's script is the P2SH template (`OP_HASH160 <20 bytes> OP_EQUAL`).
pub fn is_p2sh_script(s: &[u8]) -> bool {
    s.len() == 23 && s[0] == 0xa9 && s[1] == 0x14 && s[22] == 0x87
}

/// Size with which the fee rule prices the observed input `ss` (scriptSig) spending a coin locked
/// by `coin_script`: the ZIP 317 standard size for P2PKH; for P2SH the documented estimate for the
/// number of signatures and the redeem script that the scriptSig carries.
fn observed_priced_size(coin_script: &[u8], ss: &[u8]) -> Result<usize, Fail> {
    if !is_p2sh_script(coin_script) {
        return Ok(P2PKH_PRICED_SIZE);
    }
    let Some(pushes) = parse_push_only(ss).filter(|p| p.len() >= 3) else {
        vfail!("script-sig-malformed", "P2SH input: scriptSig {} is not OP_0 <sig>.. <redeem script>", hex::encode(ss))
    };
    Ok(p2sh_multisig_input_size(pushes.len() - 2, pushes[pushes.len() - 1].data.len()))
}

/// scriptSig of a P2PKH spend: <push sig||hashtype> <push 33-byte pubkey>
fn parse_p2pkh_script_sig(s: &[u8]) -> Option<(&[u8], u8, &[u8])> {
    let l1 = *s.first()? as usize;
    if !(2..=75).contains(&l1) || s.len() < 1 + l1 + 1 {
        return None;
    }
    let sig = &s[1..1 + l1];
    let l2 = s[1 + l1] as usize;
    if l2 != 33 || s.len() != 1 + l1 + 1 + l2 {
        return None;
    }
    let pk = &s[2 + l1..];
    Some((&sig[..l1 - 1], sig[l1 - 1], pk))
}

pub fn check_transparent_part(
    c: &Case,
    p: &Plan,
    w: &World,
    vin: &[(OutPoint, Option<Vec<u8>>)],
    vout: &[(u64, Vec<u8>)],
) -> Result<(), Fail> {
    let want_in: Vec<&OutPoint> = p.accepted(T_IN).map(|i| &w.coins[i].0).collect();
    let got_in: Vec<&OutPoint> = vin.iter().map(|x| &x.0).collect();
    {
        let mut a = want_in.clone();
        let mut b = got_in.clone();
        a.sort();
        b.sort();
        vensure!(a == b, "transparent-inputs-mismatch", "result spends {got_in:?}, requested {want_in:?}");
    }
    vensure!(want_in == got_in, "transparent-input-order", "inputs reordered: result {got_in:?}, requested {want_in:?}");
    let want_out: Vec<(u64, Vec<u8>)> = p.accepted(T_OUT).map(|i| (p.val[T_OUT][i], expected_script(&c.t_out[i].kind))).collect();
    {
        let mut a = want_out.clone();
        let mut b = vout.to_vec();
        a.sort();
        b.sort();
        vensure!(a == b, "transparent-outputs-mismatch", "result outputs {vout:?}, requested {want_out:?}");
    }
    vensure!(want_out == vout, "transparent-output-order", "outputs reordered: result {vout:?}, requested {want_out:?}");
    Ok(())
}

pub fn check_built(c: &Case, p: &Plan, w: &World, res: &BuildResult) -> Result<Seen, Fail> {
    let k = keys();
    let mut seen = Seen::default();
    let tx: &Transaction = res.transaction();

    vensure_eq!(Ver::of(tx.version()), Some(p.eff_ver), "tx-version", "transaction version {:?}", tx.version());
    vensure_eq!(tx.consensus_branch_id(), p.br.real(), "tx-branch", "consensus branch id");

    // ---- transparent content
    let (vin, vout): (Vec<(OutPoint, Option<Vec<u8>>)>, Vec<(u64, Vec<u8>)>) = match tx.transparent_bundle() {
        Some(b) => (
            b.vin.iter().map(|i| (i.prevout().clone(), Some(i.script_sig().0 .0.clone()))).collect(),
            b.vout.iter().map(|o| (o.value().into_u64(), o.script_pubkey().0 .0.clone())).collect(),
        ),
        None => (vec![], vec![]),
    };
    check_transparent_part(c, p, w, &vin, &vout)?;
    let mut vin = vin;
    for (n, i) in p.accepted(T_IN).enumerate() {
        let Some(redeem) = p.redeem[i].as_ref().filter(|_| c.t_in[i].spend.is_p2sh_multisig()) else { continue };
        let ss = vin[n].1.as_ref().expect("built input has a scriptSig");
        if let Some(repaired) = repair_pushdata1_length(ss, redeem) {
            if !crate::known_hit(SIG_PUSHDATA1_LENGTH) {
                vfail!(
                    SIG_PUSHDATA1_LENGTH,
                    "P2SH input {n}: the {}-byte redeem script is pushed as OP_PUSHDATA1 {:02x} 00 .. (two length bytes): scriptSig {} parses as a {}-byte push of 00||redeem[..{}] followed by the stray opcode {:#04x}; it is not push-only and does not carry the redeem script",
                    redeem.len(),
                    redeem.len(),
                    hex::encode(ss),
                    redeem.len(),
                    redeem.len() - 1,
                    redeem[redeem.len() - 1]
                );
            }
            // known: continue with the scriptSig as it was meant (also for the sizes below: the stray
            // byte is disregarded for exactly these inputs)
            vin[n].1 = Some(repaired);
            seen.known_pushdata1_length += 1;
        }
        // structure: exactly OP_0, m signatures, the redeem script (minimal push)
        let ss = vin[n].1.as_ref().expect("built input has a scriptSig");
        let pr = p.p2sh[i].as_ref().expect("p2sh multisig view");
        let Some(pushes) = parse_push_only(ss) else {
            vfail!("script-sig-malformed", "P2SH input {n}: scriptSig {} is not push-only", hex::encode(ss))
        };
        vensure!(
            pushes.len() == pr.m + 2,
            "p2sh-script-sig-wrong-element-count",
            "P2SH input {n} ({}-of-{}): scriptSig has {} elements, expected OP_0 + {} signatures + redeem script: {}",
            pr.m,
            pr.keys.len(),
            pushes.len(),
            pr.m,
            hex::encode(ss)
        );
        vensure!(pushes[0].opcode == 0x00, "p2sh-script-sig-no-leading-op0", "P2SH input {n}: scriptSig starts with opcode {:#04x}, not OP_0 (CHECKMULTISIG pops one extra element)", pushes[0].opcode);
        let last = &pushes[pushes.len() - 1];
        vensure!(last.data == &redeem[..], "p2sh-script-sig-wrong-redeem-script", "P2SH input {n}: last scriptSig element {} is not the requested redeem script {}", hex::encode(last.data), hex::encode(redeem));
        vensure!(ss.ends_with(&push_data(redeem)), "p2sh-script-sig-redeem-push-not-minimal", "P2SH input {n}: {}-byte redeem script pushed with opcode {:#04x}", last.data.len(), last.opcode);
    }
    let vin = vin;

    // ---- observed shape
    let (s_spends, s_outputs) = tx.sapling_bundle().map(|b| (b.shielded_spends().len(), b.shielded_outputs().len())).unwrap_or((0, 0));
    let o_actions = tx.orchard_bundle().map(|b| b.actions().len()).unwrap_or(0);
    let i_actions = tx.ironwood_bundle().map(|b| b.actions().len()).unwrap_or(0);
    let mut t_in_sizes = vec![];
    for ((_, ss), i) in vin.iter().zip(p.accepted(T_IN)) {
        t_in_sizes.push(observed_priced_size(&w.coins[i].1.script_pubkey().0 .0, ss.as_ref().expect("built input has a scriptSig"))?);
    }
    let observed = Shape {
        t_in_sizes,
        t_out_sizes: vout.iter().map(|(_, s)| txout_size(s.len())).collect(),
        s_spends,
        s_outputs,
        o_actions,
        i_actions,
    };
    let sig_pool = if p.undecided_shape { SIG_REQUIRED_BUNDLE_EMITTED } else { "bundle-in-version-without-pool" };
    vensure!(o_actions == 0 || p.eff_ver.has_orchard(), sig_pool, "Orchard bundle with {o_actions} actions in a {:?} transaction", p.eff_ver);
    vensure!(i_actions == 0 || p.eff_ver.has_ironwood(), sig_pool, "Ironwood bundle with {i_actions} actions in a {:?} transaction", p.eff_ver);
    vensure!(s_spends + s_outputs == 0 || p.eff_ver.has_sapling(), sig_pool, "Sapling bundle in a {:?} transaction", p.eff_ver);

    // ---- fee paid with the true prevout values
    let prevouts: BTreeMap<OutPoint, Zatoshis> = w.coins.iter().map(|(op, coin)| (op.clone(), coin.value())).collect();
    let paid = match tx.fee_paid(|op| Ok::<_, BalanceError>(prevouts.get(op).copied())) {
        Ok(Some(f)) => f.into_u64() as u128,
        other => vfail!("fee-paid-unavailable", "fee_paid returned {other:?} with all prevouts known"),
    };
    seen.fee = paid;
    // independent sum of the pool balances
    let t_bal: i128 = vin.iter().map(|(op, _)| prevouts[op].into_u64() as i128).sum::<i128>() - vout.iter().map(|(v, _)| *v as i128).sum::<i128>();
    let zb = |b: &ZatBalance| i64::from(*b) as i128;
    let s_bal = tx.sapling_bundle().map(|b| zb(b.value_balance())).unwrap_or(0);
    let o_bal = tx.orchard_bundle().map(|b| zb(b.value_balance())).unwrap_or(0);
    let i_bal = tx.ironwood_bundle().map(|b| zb(b.value_balance())).unwrap_or(0);
    vensure_eq!(paid as i128, t_bal + s_bal + o_bal + i_bal, "fee-paid-not-sum-of-balances", "fee_paid vs transparent {t_bal} + sapling {s_bal} + orchard {o_bal} + ironwood {i_bal}");
    match ref_fee(&c.rule, &observed) {
        Some(f) if paid != f && p.undecided_shape && ref_fee(&c.rule, &p.shape) == Some(paid) => vfail!(
            SIG_FEE_OMITTED_BUNDLE,
            "fee paid {paid} includes the padding of a required bundle that the {:?} result does not carry; the rule prescribes {f} for the result shape {observed:?}",
            p.eff_ver
        ),
        Some(f) => vensure!(paid == f, "fee-not-fee-rule-of-result-shape", "fee paid {paid} but the rule {:?} prescribes {f} for the result shape {observed:?}", c.rule),
        None => vfail!("fee-not-fee-rule-of-result-shape", "transaction built although the fee of its shape {observed:?} is not a valid amount"),
    }
    // ZIP 317 proper (true serialized input sizes) is a lower bound of the fee paid under the
    // standard parameters
    if c.rule == Rule::Standard {
        let t_in_bytes: u128 = vin.iter().map(|(_, ss)| { let l = ss.as_ref().map(|s| s.len()).unwrap_or(0); (36 + compact_size_len(l) + l + 4) as u128 }).sum();
        let lower = ref_fee_exact_sizes(&c.rule, &observed, t_in_bytes);
        vensure!(lower.is_some_and(|f| paid >= f), "fee-below-zip317-of-serialized-size", "fee paid {paid} below the ZIP 317 fee {lower:?} of the serialized transaction ({t_in_bytes} input bytes)");
    }
    if !p.undecided_shape {
        vensure!(observed == p.shape, "shape-not-requested-plus-padding", "result shape {observed:?}, requested content plus prescribed padding {:?}", p.shape);
    }
    // pool balances account for exactly the requested values (padding adds no value)
    let acc_sum = |kind: usize| -> i128 { p.accepted(kind).map(|i| p.val[kind][i] as i128).sum() };
    vensure_eq!(s_bal, acc_sum(S_IN) - acc_sum(S_OUT), "sapling-balance-not-requested", "Sapling value balance vs requested spends - outputs");
    vensure_eq!(o_bal, acc_sum(O_IN) - acc_sum(O_OUT), "orchard-balance-not-requested", "Orchard value balance vs requested spends - outputs");
    vensure_eq!(i_bal, acc_sum(I_IN) - acc_sum(I_OUT), "ironwood-balance-not-requested", "Ironwood value balance vs requested spends - outputs");
    vensure!(p.diff() == Some(0), "built-unbalanced-request", "transaction built although inputs - outputs - fee = {:?}", p.diff());

    // ---- transparent signatures
    if !vin.is_empty() {
        let acc: Vec<usize> = p.accepted(T_IN).collect();
        let amounts: Vec<Zatoshis> = acc.iter().map(|i| w.coins[*i].1.value()).collect();
        let scripts: Vec<Script> = acc.iter().map(|i| w.coins[*i].1.script_pubkey().clone()).collect();
        let data = tx.clone().into_data().map_authorization::<OTx>(TMap(amounts.clone(), scripts.clone()), (), ());
        let parts = data.digest(TxIdDigester);
        let bundle = data.transparent_bundle().expect("vin non-empty");
        let secp = secp256k1::Secp256k1::verification_only();
        let ref_coins: Vec<(u64, Vec<u8>)> = acc.iter().map(|i| (w.coins[*i].1.value().into_u64(), w.coins[*i].1.script_pubkey().0 .0.clone())).collect();
        // signature hash of input n for the given scriptCode: through the public API, and
        // recomputed from the ZIP text; both must agree
        let ref_count = std::cell::Cell::new(0usize);
        let sighash = |n: usize, script_code: &[u8]| -> Result<secp256k1::Message, Fail> {
            let code = crate::run::script_from_bytes(script_code);
            let si = zcash_transparent::sighash::SignableInput::from_parts(bundle, SighashType::ALL, n, &code, &scripts[n], amounts[n])
                .map_err(|e| Fail::new("harness-signable-input", format!("{e}")))?;
            let h = signature_hash(&data, &SignableInput::Transparent(si), &parts);
            let reference = match p.eff_ver {
                Ver::V3 | Ver::V4 => crate::sighash_ref::sighash_v3_v4(tx, p.eff_ver, n, script_code, ref_coins[n].0),
                Ver::V5 | Ver::V6 => crate::sighash_ref::sighash_v5_v6(tx, p.eff_ver, &parts, &ref_coins, n),
                Ver::Sprout2 => vfail!("built-pre-overwinter", "a pre-Overwinter transaction with transparent inputs was built"),
            };
            vensure!(
                *h.as_ref() == reference,
                "signature-hash-differs-from-reference",
                "input {n} ({:?}): signature_hash gives {}, the {} reference {} (scriptCode {} bytes, value {})",
                p.eff_ver,
                hex::encode(h.as_ref()),
                if matches!(p.eff_ver, Ver::V3 | Ver::V4) { "ZIP 143/243" } else { "ZIP 244" },
                hex::encode(reference),
                script_code.len(),
                ref_coins[n].0
            );
            ref_count.set(ref_count.get() + 1);
            Ok(secp256k1::Message::from_digest(*h.as_ref()))
        };
        for (n, i) in acc.iter().enumerate() {
            let ss = vin[n].1.as_ref().expect("built input has a scriptSig");
            let coin_script = &scripts[n].0 .0;
            match &c.t_in[*i].spend {
                TSpend::P2pkh => {
                    let key = &k.t[c.t_in[*i].key as usize];
                    let Some((der, hash_type, pk_bytes)) = parse_p2pkh_script_sig(ss) else {
                        vfail!("script-sig-malformed", "input {n}: scriptSig {} is not <sig> <pubkey>", hex::encode(ss))
                    };
                    vensure_eq!(hash_type, 0x01, "script-sig-hash-type", "input {n}: hash type byte");
                    vensure!(pk_bytes == key.pk.serialize(), "script-sig-wrong-pubkey", "input {n}: scriptSig pubkey {} is not the requested key {}", hex::encode(pk_bytes), hex::encode(key.pk.serialize()));
                    // the pubkey must hash to the coin's script
                    vensure!(p2pkh_script(&hash160(pk_bytes)) == *coin_script, "script-sig-pubkey-not-for-coin", "input {n}: hash160(pubkey) does not match the coin's script");
                    let sig = match secp256k1::ecdsa::Signature::from_der(der) {
                        Ok(s) => s,
                        Err(e) => vfail!("script-sig-malformed", "input {n}: signature is not DER: {e}"),
                    };
                    // P2PKH: the scriptCode is the coin's script
                    let msg = sighash(n, coin_script)?;
                    vensure!(
                        secp.verify_ecdsa(&msg, &sig, &key.pk).is_ok(),
                        "transparent-signature-invalid",
                        "input {n} of {}: signature does not verify against signature_hash(SIGHASH_ALL, {n}, {:?}, coin script)",
                        acc.len(),
                        amounts[n]
                    );
                    seen.sigs_verified += 1;
                }
                TSpend::P2sh { .. } => {
                    let pr = p.p2sh[*i].as_ref().expect("p2sh multisig view");
                    let Some(pushes) = parse_push_only(ss) else {
                        vfail!("script-sig-malformed", "P2SH input {n}: scriptSig {} is not push-only", hex::encode(ss))
                    };
                    // (structure checked above: exactly OP_0, m signatures, the requested redeem script)
                    let last = &pushes[pushes.len() - 1];
                    // the redeem script must be the one the coin commits to
                    vensure!(p2sh_script(&hash160(last.data)) == *coin_script, "p2sh-redeem-script-not-for-coin", "P2SH input {n}: hash160(redeem script) does not match the coin's script hash");
                    let Some((m, pubkeys)) = parse_multisig_redeem_script(last.data) else {
                        vfail!("harness-redeem-script", "the harness's own redeem script does not parse as multisig")
                    };
                    debug_assert_eq!(m as usize, pr.m);
                    // P2SH: the scriptCode is the redeem script; scriptPubKey / value are the coin's
                    let msg = sighash(n, last.data)?;
                    // OP_CHECKMULTISIG: signatures must come in the order of their public keys
                    let mut next_key = 0usize;
                    for (j, sp) in pushes[1..=pr.m].iter().enumerate() {
                        vensure!(sp.opcode as usize == sp.data.len() && (9..=73).contains(&sp.data.len()), "script-sig-malformed", "P2SH input {n}: signature {j} pushed as opcode {:#04x} with {} bytes", sp.opcode, sp.data.len());
                        let (der, hash_type) = sp.data.split_at(sp.data.len() - 1);
                        vensure_eq!(hash_type[0], 0x01, "script-sig-hash-type", "P2SH input {n} signature {j}: hash type byte");
                        let sig = match secp256k1::ecdsa::Signature::from_der(der) {
                            Ok(s) => s,
                            Err(e) => vfail!("script-sig-malformed", "P2SH input {n}: signature {j} is not DER: {e}"),
                        };
                        let verifies = |pos: usize| secp256k1::PublicKey::from_slice(&pubkeys[pos]).is_ok_and(|pk| secp.verify_ecdsa(&msg, &sig, &pk).is_ok());
                        let anywhere: Vec<usize> = (0..pubkeys.len()).filter(|pos| verifies(*pos)).collect();
                        vensure!(
                            !anywhere.is_empty(),
                            "transparent-signature-invalid",
                            "P2SH input {n} of {} ({}-of-{}): signature {j} verifies under none of the redeem script's keys against signature_hash(SIGHASH_ALL, {n}, script_code = redeem script, {:?}, coin script)",
                            acc.len(),
                            pr.m,
                            pr.keys.len(),
                            amounts[n]
                        );
                        let Some(pos) = (next_key..pubkeys.len()).find(|pos| verifies(*pos)) else {
                            vfail!(
                                "p2sh-signatures-not-in-pubkey-order",
                                "P2SH input {n} ({}-of-{}): signature {j} verifies under key position(s) {anywhere:?} but the previous signature already consumed the keys below position {next_key}; OP_CHECKMULTISIG fails",
                                pr.m,
                                pr.keys.len()
                            )
                        };
                        vensure!(pr.available.contains(&pos), "p2sh-signed-by-key-outside-signing-set", "P2SH input {n}: signature {j} is by key position {pos}, which is not in the signing set (available {:?})", pr.available);
                        next_key = pos + 1;
                        seen.sigs_verified += 1;
                        seen.p2sh_sigs_verified += 1;
                    }
                    seen.p2sh_inputs += 1;
                }
                TSpend::P2shOther => vfail!("built-with-unsupported-redeem-script", "input {n}: a P2SH input whose redeem script is not multisig was signed: {}", hex::encode(ss)),
            }
        }
        seen.ref_sighashes = ref_count.get();
    }

    // ---- Sapling content
    let z = zip212_real(p.z212);
    if let Some(b) = tx.sapling_bundle() {
        let spends = b.shielded_spends();
        let outs = b.shielded_outputs();
        let want_nf: Vec<[u8; 32]> = p.accepted(S_IN).map(|i| w.s_notes[i].nf).collect();
        let mut a = want_nf.clone();
        let mut g: Vec<[u8; 32]> = spends.iter().map(|s| s.nullifier().0).collect();
        a.sort();
        g.sort();
        vensure!(a == g, "sapling-spends-mismatch", "spend nullifiers in the result differ from the requested notes ({} vs {})", g.len(), a.len());
        for (n, nf) in want_nf.iter().enumerate() {
            let idx = res.sapling_meta().spend_index(n);
            vensure!(idx.is_some_and(|i| i < spends.len() && spends[i].nullifier().0 == *nf), "sapling-meta-spend-index", "spend_index({n}) = {idx:?} does not point at the requested note");
        }
        let acc: Vec<usize> = p.accepted(S_OUT).collect();
        let mut requested_positions = vec![];
        for (n, i) in acc.iter().enumerate() {
            let x = &c.s_out[*i];
            let idx = res.sapling_meta().output_index(n);
            let Some(j) = idx.filter(|j| *j < outs.len()) else { vfail!("sapling-meta-output-index", "output_index({n}) = {idx:?} out of range") };
            requested_positions.push(j);
            let sk = &k.s[x.key as usize];
            let to = sk.address(x.internal, x.div);
            let want_memo = expected_memo(&x.memo);
            let Some((note, addr, memo)) = sapling::note_encryption::try_sapling_note_decryption(sk.ivk(x.internal), &outs[j], z) else {
                vfail!("sapling-output-not-decryptable", "requested Sapling output {n} (result index {j}) does not decrypt with the recipient's ivk")
            };
            vensure_eq!(note.value().inner(), p.val[S_OUT][*i], "sapling-output-wrong-value", "Sapling output {n} value");
            vensure!(addr == to, "sapling-output-wrong-recipient", "Sapling output {n} recipient");
            vensure!(memo == want_memo, "sapling-output-wrong-memo", "Sapling output {n} memo differs (last byte {} vs {})", memo[511], want_memo[511]);
            let compact = sapling::note_encryption::CompactOutputDescription::from(outs[j].clone());
            let cd = sapling::note_encryption::try_sapling_compact_note_decryption(sk.ivk(x.internal), &compact, z);
            vensure!(cd.is_some_and(|(n2, a2)| n2.value().inner() == p.val[S_OUT][*i] && a2 == to), "sapling-output-compact-decryption", "Sapling output {n}: compact decryption disagrees");
            seen.decrypted += 1;
            if matches!(x.memo, Memo::Full(_)) {
                seen.memo512 += 1;
            }
            if let Some(o) = x.ovk {
                let r = sapling::note_encryption::try_sapling_output_recovery(&sapling::keys::OutgoingViewingKey(o), &outs[j], z);
                vensure!(
                    r.is_some_and(|(n2, a2, m2)| n2.value().inner() == p.val[S_OUT][*i] && a2 == to && m2 == want_memo),
                    "sapling-output-ovk-recovery",
                    "Sapling output {n}: the sender's ovk does not recover the requested note"
                );
                seen.ovk_recovered += 1;
            }
        }
        {
            let mut d = requested_positions.clone();
            d.sort();
            d.dedup();
            vensure!(d.len() == requested_positions.len(), "sapling-meta-output-index", "two requested outputs map to one result index: {requested_positions:?}");
        }
        // every other output is padding: not addressed to any key of the request
        for (j, o) in outs.iter().enumerate() {
            if requested_positions.contains(&j) {
                continue;
            }
            for sk in &k.s {
                for internal in [false, true] {
                    if let Some((note, _, _)) = sapling::note_encryption::try_sapling_note_decryption(sk.ivk(internal), o, z) {
                        vensure!(note.value().inner() == 0, "padding-carries-value", "extra Sapling output {j} decrypts under a request key with value {}", note.value().inner());
                    }
                }
            }
            seen.padding_observed += 1;
        }
    } else {
        vensure!(p.n_acc(S_IN) + p.n_acc(S_OUT) == 0, "sapling-bundle-missing", "no Sapling bundle although Sapling content was requested");
    }

    // ---- Orchard / Ironwood content (real-proof engine only)
    for (name, bundle, meta, kin, kout, notes, ins, outs_req, v3) in [
        ("orchard", tx.orchard_bundle(), res.orchard_meta(), O_IN, O_OUT, &w.o_notes, &c.o_in, &c.o_out, false),
        ("ironwood", tx.ironwood_bundle(), res.ironwood_meta(), I_IN, I_OUT, &w.i_notes, &c.i_in, &c.i_out, true),
    ] {
        let _ = ins;
        let Some(b) = bundle else {
            vensure!(p.n_acc(kin) + p.n_acc(kout) == 0, "orchard-bundle-missing", "no {name} bundle although content was requested");
            continue;
        };
        let actions: Vec<_> = b.actions().iter().collect();
        let got_nf: Vec<[u8; 32]> = actions.iter().map(|a| a.nullifier().to_bytes()).collect();
        for (n, i) in p.accepted(kin).enumerate() {
            let nf = notes[i].nf;
            vensure_eq!(got_nf.iter().filter(|x| **x == nf).count(), 1, "orchard-spend-missing", "{name}: requested spend {n} appears in the result");
            let idx = meta.spend_action_index(n);
            vensure!(idx.is_some_and(|j| j < actions.len() && got_nf[j] == nf), "orchard-meta-spend-index", "{name}: spend_action_index({n}) = {idx:?}");
        }
        // BundleMetadata rustdoc: requested outputs are numbered plain outputs first (in the order
        // added), then the wallet-controlled change outputs (in the order added)
        let mut order: Vec<usize> = p.accepted(kout).filter(|i| !outs_req[*i].change).collect();
        order.extend(p.accepted(kout).filter(|i| outs_req[*i].change));
        for (n, i) in order.into_iter().enumerate() {
            let x = &outs_req[i];
            let idx = meta.output_action_index(n);
            let Some(j) = idx.filter(|j| *j < actions.len()) else { vfail!("orchard-meta-output-index", "{name}: output_action_index({n}) = {idx:?}") };
            let a = actions[j];
            let ok = &k.o[x.key as usize];
            let to = ok.address(x.internal, x.div);
            let want_memo = expected_memo(&x.memo);
            let (dec, cdec, rec) = if v3 {
                let d = orchard::note_encryption::IronwoodDomain::for_action(a);
                let ca = orchard::note_encryption::CompactAction::from(a);
                (
                    try_note_decryption(&d, ok.ivk(x.internal), a),
                    try_compact_note_decryption(&orchard::note_encryption::IronwoodDomain::for_compact_action(&ca), ok.ivk(x.internal), &ca),
                    x.ovk.map(|o| try_output_recovery_with_ovk(&d, &orchard::keys::OutgoingViewingKey::from(o), a, a.cv_net(), &a.encrypted_note().out_ciphertext)),
                )
            } else {
                let d = orchard::note_encryption::OrchardDomain::for_action(a);
                let ca = orchard::note_encryption::CompactAction::from(a);
                (
                    try_note_decryption(&d, ok.ivk(x.internal), a),
                    try_compact_note_decryption(&orchard::note_encryption::OrchardDomain::for_compact_action(&ca), ok.ivk(x.internal), &ca),
                    x.ovk.map(|o| try_output_recovery_with_ovk(&d, &orchard::keys::OutgoingViewingKey::from(o), a, a.cv_net(), &a.encrypted_note().out_ciphertext)),
                )
            };
            let Some((note, addr, memo)) = dec else { vfail!("orchard-output-not-decryptable", "{name}: requested output {n} (action {j}) does not decrypt with the recipient's ivk") };
            vensure_eq!(note.value().inner(), p.val[kout][i], "orchard-output-wrong-value", "{name} output {n} value");
            vensure!(addr == to, "orchard-output-wrong-recipient", "{name} output {n} recipient");
            vensure!(memo == want_memo, "orchard-output-wrong-memo", "{name} output {n} memo differs");
            vensure!(cdec.is_some_and(|(n2, a2)| n2.value().inner() == p.val[kout][i] && a2 == to), "orchard-output-compact-decryption", "{name} output {n}: compact decryption disagrees");
            seen.decrypted += 1;
            if matches!(x.memo, Memo::Full(_)) {
                seen.memo512 += 1;
            }
            if let Some(r) = rec {
                vensure!(
                    r.is_some_and(|(n2, a2, m2)| n2.value().inner() == p.val[kout][i] && a2 == to && m2 == want_memo),
                    "orchard-output-ovk-recovery",
                    "{name} output {n}: the sender's ovk does not recover the requested note"
                );
                seen.ovk_recovered += 1;
            }
        }
    }
    Ok(seen)
}

//! Byte-level oracle for PCZT encodings. Self-contained (pczt, zcash_pool_migration, vcore only) so
//! that a fuzz target can include this file with `#[path]` and call [`check_pczt_bytes`].
//!
//! Contract for callers: `Err(Fail)` is a violation unless its signature is listed as a known
//! finding (today: `txid-panic-on-malformed-bundle:<crate file>`); `Ok(obs)` with
//! `obs.sapling_anchor_placeholder` set is the known finding `v1-sapling-absent-anchor-placeholder`
//! (everything else about that input held). The function installs no panic hook of its own beyond
//! `vcore::catch`.

use pczt::Pczt;
use vcore::{catch, vensure, vensure_eq, vfail, Fail};
use zcash_pool_migration::pczt_txid::pczt_txid;

/// Forced-v2 serialisation: the canonical form PCZT values are compared through.
pub fn ser2(p: &Pczt) -> Vec<u8> {
    pczt::v2::Pczt::try_from(p.clone()).expect("the v2 encoding represents every PCZT").serialize()
}

#[derive(Clone, Debug, Default)]
pub struct BytesObs {
    pub accepted: bool,
    pub header_version: u32,
    /// The only difference between the parsed value and its own round trip is the Sapling anchor of a
    /// spend-less bundle turning from absent into `Some([0; 32])` (known finding).
    pub sapling_anchor_placeholder: bool,
    pub effects_ok: bool,
}

pub fn header_version(bytes: &[u8]) -> u32 {
    u32::from_le_bytes(bytes[4..8].try_into().unwrap())
}

pub fn without_sapling_anchor(p: &Pczt) -> Pczt {
    pczt::roles::redactor::Redactor::new(p.clone()).redact_sapling_with(|mut s| s.clear_anchor()).finish()
}

/// Byte-level oracle (no harness context, reusable by a fuzz target): `Pczt::parse` never panics; if
/// it accepts, the value serialises, its serialisation is accepted again and is a fixed point, the
/// minimal-version rule holds, the re-parsed value equals the parsed one, and computing the effects
/// does not panic.
pub fn check_pczt_bytes(bytes: &[u8]) -> Result<BytesObs, Fail> {
    let mut obs = BytesObs::default();
    let parsed = catch(|| Pczt::parse(bytes)).map_err(|p| Fail::new("parse-panic", format!("Pczt::parse panicked on {} bytes: {p}", bytes.len())))?;
    let p = match parsed {
        Err(_) => return Ok(obs),
        Ok(p) => p,
    };
    obs.accepted = true;
    let s1 = catch(|| p.clone().serialize())
        .map_err(|e| Fail::new("serialize-panic", format!("serialize panicked on an accepted PCZT: {e}")))?
        .map_err(|e| Fail::new("accepted-not-serializable", format!("serialize failed on an accepted PCZT: {e:?}")))?;
    vensure!(s1.len() >= 8 && &s1[..4] == b"PCZT", "bad-header", "serialisation does not start with the magic");
    obs.header_version = header_version(&s1);
    let v1 = catch(|| pczt::v1::Pczt::try_from(p.clone())).map_err(|e| Fail::new("serialize-panic", format!("v1 conversion panicked: {e}")))?;
    match (&v1, obs.header_version) {
        (Ok(v1), 1) => vensure!(v1.serialize() == s1, "version-not-minimal", "header says v1 but the bytes are not the v1 encoding"),
        (Err(_), 2) => {}
        (Ok(_), v) => vfail!("version-not-minimal", "the v1 encoding can represent this PCZT but serialize() chose version {v}"),
        (Err(e), v) => vfail!("version-not-minimal", "serialize() chose version {v} although the v1 conversion fails with {e:?}"),
    }
    let p2 = catch(|| Pczt::parse(&s1))
        .map_err(|e| Fail::new("parse-panic", format!("Pczt::parse panicked on a serialisation: {e}")))?
        .map_err(|e| Fail::new("own-encoding-rejected", format!("serialize() output is rejected by parse: {e:?}")))?;
    let s2 = p2.clone().serialize().map_err(|e| Fail::new("accepted-not-serializable", format!("{e:?}")))?;
    vensure!(s1 == s2, "reserialize-not-fixed-point", "serialize(parse(serialize(p))) != serialize(p) ({} vs {} bytes)", s2.len(), s1.len());
    // value equality through the forced-v2 bytes
    let (a, b) = (ser2(&p), ser2(&p2));
    if a != b {
        let placeholder = obs.header_version == 1
            && p.sapling().spends().is_empty()
            && p.sapling().anchor().is_none()
            && *p2.sapling().anchor() == Some([0u8; 32])
            && ser2(&without_sapling_anchor(&p)) == ser2(&without_sapling_anchor(&p2));
        if placeholder {
            obs.sapling_anchor_placeholder = true;
        } else {
            vfail!(
                "roundtrip-value-changed",
                "parse(serialize(p)) is not p (forced-v2 bytes {} vs {}): {}",
                b.len(),
                a.len(),
                first_diff(&format!("{p2:#?}"), &format!("{p:#?}"))
            );
        }
    }
    // the forced-v2 encoding is accepted and is a fixed point too
    let p3 = Pczt::parse(&a).map_err(|e| Fail::new("own-encoding-rejected", format!("forced v2 bytes are rejected by parse: {e:?}")))?;
    vensure!(ser2(&p3) == a, "reserialize-not-fixed-point", "forced-v2 bytes are not a fixed point");
    // `pczt_txid` documents `Err(TxIdError::Effects)` for a PCZT that parses but whose bundles are
    // malformed: it must not panic, and the answer survives the round trip
    let txid_panic = |e: String| Fail::new(format!("txid-panic-on-malformed-bundle:{}", dep_site(&e)), format!("pczt_txid / into_effects panicked on a PCZT accepted by parse: {e}"));
    let e1 = catch(|| pczt_txid(&p)).map_err(txid_panic)?;
    let e2 = catch(|| pczt_txid(&p2)).map_err(txid_panic)?;
    if !obs.sapling_anchor_placeholder {
        vensure_eq!(e1, e2, "roundtrip-txid-changed", "txid before/after a serialisation round trip");
    } else if let (Ok(a), Ok(b)) = (&e1, &e2) {
        vensure_eq!(a, b, "roundtrip-txid-changed", "txid before/after a serialisation round trip");
    }
    obs.effects_ok = e1.is_ok();
    Ok(obs)
}

/// "payload @ /root/.cargo/registry/src/<index>/crate-1.2.3/src/x.rs:207" -> "crate-1.2.3/src/x.rs"
pub fn dep_site(p: &str) -> String {
    let loc = p.rsplit_once(" @ ").map(|(_, l)| l).unwrap_or(p);
    let file = loc.rsplit_once(':').map(|(f, _)| f).unwrap_or(loc);
    match file.split_once(".cargo/registry/src/") {
        Some((_, rest)) => rest.split_once('/').map(|(_, r)| r.to_string()).unwrap_or_else(|| rest.to_string()),
        None => file.trim_start_matches("/repo/").to_string(),
    }
}

pub fn first_diff(a: &str, b: &str) -> String {
    for (la, lb) in a.lines().zip(b.lines()) {
        if la != lb {
            return format!("got `{}` expected `{}`", la.trim(), lb.trim());
        }
    }
    format!("line counts {} / {}", a.lines().count(), b.lines().count())
}


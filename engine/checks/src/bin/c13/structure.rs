//! Sub-check `combine-structure`: party copies that differ in STRUCTURE and in the modifiable flags.
//!
//! The crate has no Constructor role ("The roles currently without an implementation are:
//! Constructor", pczt/src/roles.rs), so the harness plays it at the wire level, exactly as a foreign
//! Constructor would: the v2 encoding of a PCZT is read into a generic value tree (a serde
//! `Serializer` over the public `pczt::v2::Pczt`), transparent inputs / outputs and shielded spends /
//! outputs / actions are appended, and the tree is written back in the postcard format and parsed with
//! `Pczt::parse`. The harness Constructor obeys the documented rule (`Global::tx_modifiable`): it adds
//! an input only while the Transparent Inputs Modifiable flag is set, an output only while the
//! Transparent Outputs Modifiable flag is set, shielded items only while the Shielded Modifiable flag
//! is set and no `bsk` has been computed.
//!
//! Every copy of a case draws its elements, in order, from one "full" transaction F (a builder base or
//! an empty `Creator` PCZT, plus fabricated P2PKH inputs and outputs; one generated sighash type per
//! input), so copies are position-wise prefixes of F unless a conflicting element is injected. Copies
//! then run the real roles in generated order: Signer (transparent, per-input sighash type; Sapling /
//! Orchard / Ironwood), Updater, Redactor, IO Finalizer, byte round trip, harness Constructor.
//!
//! Oracles (reference written from the rustdoc of `Global::tx_modifiable`, the comments in
//! `Bundle::merge` and BIP 174/370 as quoted there; nothing is read from the Combiner):
//! * flags after every role = the documented rule applied to the role sequence;
//! * the id implied by a copy = the id of the pristine prefix of F with the same structure, after
//!   every role;
//! * `Combiner::combine` in every order and bracketing fails (DataMismatch) exactly when the reference
//!   finds a conflict: a copy with fewer inputs (outputs, shielded items) than another although its
//!   own flag forbids modification, or two different values for one field; otherwise it succeeds with
//!   one result: the longest lists, flags merged towards false / false / true / false, every field any
//!   copy carried and nothing else, the id of the transaction made of the longest lists, and every
//!   signature it carries verifies under the signature hash of the COMBINED transaction.

use std::collections::{BTreeMap, BTreeSet};
use std::sync::Arc;

use pczt::roles::combiner::Error as CombineError;
use pczt::Pczt;
use proptest::prelude::*;
use rand_chacha::ChaCha20Rng;
use rand_core::{RngCore, SeedableRng};
use serde::ser::{self, Serialize};
use vcore::{catch, hash64, pick_index, vensure, vensure_eq, vfail, CaseResult, Ctx, Fail, Obs};
use zcash_pool_migration::pczt_txid::pczt_txid;
use zcash_protocol::TxId;

use super::base::{self, Base};
use super::bytes::{first_diff, ser2};
use super::{combine, combine_tree, permutations};

// ---------------------------------------------------------------------------------------------
// Generic wire tree
// ---------------------------------------------------------------------------------------------

#[derive(Clone, Debug, PartialEq)]
pub enum V {
    Bool(bool),
    U8(u8),
    U32(u32),
    U64(u64),
    I128(i128),
    Str(String),
    None,
    Some(Box<V>),
    /// length-prefixed sequence
    Seq(Vec<V>),
    /// fixed-size tuple / array
    Tuple(Vec<V>),
    Map(Vec<(V, V)>),
    Struct(Vec<(&'static str, V)>),
    /// unit or newtype enum variant
    Variant(u32, &'static str, Option<Box<V>>),
}

#[derive(Debug)]
pub struct TErr(String);
impl std::fmt::Display for TErr {
    fn fmt(&self, f: &mut std::fmt::Formatter<'_>) -> std::fmt::Result {
        f.write_str(&self.0)
    }
}
impl std::error::Error for TErr {}
impl ser::Error for TErr {
    fn custom<T: std::fmt::Display>(msg: T) -> Self {
        TErr(msg.to_string())
    }
}

struct TS;
pub struct SeqB {
    items: Vec<V>,
    tuple: bool,
}
pub struct MapB {
    items: Vec<(V, V)>,
    key: Option<V>,
}
pub struct StructB {
    fields: Vec<(&'static str, V)>,
}

fn unsupported<T>(what: &str) -> Result<T, TErr> {
    Err(TErr(format!("wire tree: unsupported serde data type {what}")))
}

impl ser::Serializer for TS {
    type Ok = V;
    type Error = TErr;
    type SerializeSeq = SeqB;
    type SerializeTuple = SeqB;
    type SerializeTupleStruct = SeqB;
    type SerializeTupleVariant = ser::Impossible<V, TErr>;
    type SerializeMap = MapB;
    type SerializeStruct = StructB;
    type SerializeStructVariant = ser::Impossible<V, TErr>;

    fn serialize_bool(self, v: bool) -> Result<V, TErr> {
        Ok(V::Bool(v))
    }
    fn serialize_i8(self, _: i8) -> Result<V, TErr> {
        unsupported("i8")
    }
    fn serialize_i16(self, _: i16) -> Result<V, TErr> {
        unsupported("i16")
    }
    fn serialize_i32(self, _: i32) -> Result<V, TErr> {
        unsupported("i32")
    }
    fn serialize_i64(self, _: i64) -> Result<V, TErr> {
        unsupported("i64")
    }
    fn serialize_i128(self, v: i128) -> Result<V, TErr> {
        Ok(V::I128(v))
    }
    fn serialize_u8(self, v: u8) -> Result<V, TErr> {
        Ok(V::U8(v))
    }
    fn serialize_u16(self, _: u16) -> Result<V, TErr> {
        unsupported("u16")
    }
    fn serialize_u32(self, v: u32) -> Result<V, TErr> {
        Ok(V::U32(v))
    }
    fn serialize_u64(self, v: u64) -> Result<V, TErr> {
        Ok(V::U64(v))
    }
    fn serialize_f32(self, _: f32) -> Result<V, TErr> {
        unsupported("f32")
    }
    fn serialize_f64(self, _: f64) -> Result<V, TErr> {
        unsupported("f64")
    }
    fn serialize_char(self, _: char) -> Result<V, TErr> {
        unsupported("char")
    }
    fn serialize_str(self, v: &str) -> Result<V, TErr> {
        Ok(V::Str(v.to_string()))
    }
    fn serialize_bytes(self, v: &[u8]) -> Result<V, TErr> {
        Ok(V::Seq(v.iter().map(|b| V::U8(*b)).collect()))
    }
    fn serialize_none(self) -> Result<V, TErr> {
        Ok(V::None)
    }
    fn serialize_some<T: ?Sized + Serialize>(self, value: &T) -> Result<V, TErr> {
        Ok(V::Some(Box::new(value.serialize(TS)?)))
    }
    fn serialize_unit(self) -> Result<V, TErr> {
        unsupported("unit")
    }
    fn serialize_unit_struct(self, _: &'static str) -> Result<V, TErr> {
        unsupported("unit struct")
    }
    fn serialize_unit_variant(self, _: &'static str, idx: u32, variant: &'static str) -> Result<V, TErr> {
        Ok(V::Variant(idx, variant, None))
    }
    fn serialize_newtype_struct<T: ?Sized + Serialize>(self, _: &'static str, value: &T) -> Result<V, TErr> {
        value.serialize(TS)
    }
    fn serialize_newtype_variant<T: ?Sized + Serialize>(self, _: &'static str, idx: u32, variant: &'static str, value: &T) -> Result<V, TErr> {
        Ok(V::Variant(idx, variant, Some(Box::new(value.serialize(TS)?))))
    }
    fn serialize_seq(self, _: Option<usize>) -> Result<SeqB, TErr> {
        Ok(SeqB { items: vec![], tuple: false })
    }
    fn serialize_tuple(self, _: usize) -> Result<SeqB, TErr> {
        Ok(SeqB { items: vec![], tuple: true })
    }
    fn serialize_tuple_struct(self, _: &'static str, _: usize) -> Result<SeqB, TErr> {
        Ok(SeqB { items: vec![], tuple: true })
    }
    fn serialize_tuple_variant(self, _: &'static str, _: u32, _: &'static str, _: usize) -> Result<Self::SerializeTupleVariant, TErr> {
        unsupported("tuple variant")
    }
    fn serialize_map(self, _: Option<usize>) -> Result<MapB, TErr> {
        Ok(MapB { items: vec![], key: None })
    }
    fn serialize_struct(self, _: &'static str, _: usize) -> Result<StructB, TErr> {
        Ok(StructB { fields: vec![] })
    }
    fn serialize_struct_variant(self, _: &'static str, _: u32, _: &'static str, _: usize) -> Result<Self::SerializeStructVariant, TErr> {
        unsupported("struct variant")
    }
    fn is_human_readable(&self) -> bool {
        false
    }
}

impl ser::SerializeSeq for SeqB {
    type Ok = V;
    type Error = TErr;
    fn serialize_element<T: ?Sized + Serialize>(&mut self, value: &T) -> Result<(), TErr> {
        self.items.push(value.serialize(TS)?);
        Ok(())
    }
    fn end(self) -> Result<V, TErr> {
        Ok(if self.tuple { V::Tuple(self.items) } else { V::Seq(self.items) })
    }
}
impl ser::SerializeTuple for SeqB {
    type Ok = V;
    type Error = TErr;
    fn serialize_element<T: ?Sized + Serialize>(&mut self, value: &T) -> Result<(), TErr> {
        self.items.push(value.serialize(TS)?);
        Ok(())
    }
    fn end(self) -> Result<V, TErr> {
        Ok(V::Tuple(self.items))
    }
}
impl ser::SerializeTupleStruct for SeqB {
    type Ok = V;
    type Error = TErr;
    fn serialize_field<T: ?Sized + Serialize>(&mut self, value: &T) -> Result<(), TErr> {
        self.items.push(value.serialize(TS)?);
        Ok(())
    }
    fn end(self) -> Result<V, TErr> {
        Ok(V::Tuple(self.items))
    }
}
impl ser::SerializeMap for MapB {
    type Ok = V;
    type Error = TErr;
    fn serialize_key<T: ?Sized + Serialize>(&mut self, key: &T) -> Result<(), TErr> {
        self.key = Some(key.serialize(TS)?);
        Ok(())
    }
    fn serialize_value<T: ?Sized + Serialize>(&mut self, value: &T) -> Result<(), TErr> {
        let k = self.key.take().ok_or_else(|| TErr("wire tree: map value without key".into()))?;
        self.items.push((k, value.serialize(TS)?));
        Ok(())
    }
    fn end(self) -> Result<V, TErr> {
        Ok(V::Map(self.items))
    }
}
impl ser::SerializeStruct for StructB {
    type Ok = V;
    type Error = TErr;
    fn serialize_field<T: ?Sized + Serialize>(&mut self, key: &'static str, value: &T) -> Result<(), TErr> {
        self.fields.push((key, value.serialize(TS)?));
        Ok(())
    }
    fn end(self) -> Result<V, TErr> {
        Ok(V::Struct(self.fields))
    }
}

fn varint(mut v: u128, out: &mut Vec<u8>) {
    loop {
        let b = (v & 0x7f) as u8;
        v >>= 7;
        if v == 0 {
            out.push(b);
            return;
        }
        out.push(b | 0x80);
    }
}

/// The postcard wire format of a tree.
pub fn encode(v: &V, out: &mut Vec<u8>) {
    match v {
        V::Bool(b) => out.push(*b as u8),
        V::U8(b) => out.push(*b),
        V::U32(x) => varint(*x as u128, out),
        V::U64(x) => varint(*x as u128, out),
        V::I128(x) => varint(((*x << 1) ^ (*x >> 127)) as u128, out),
        V::Str(s) => {
            varint(s.len() as u128, out);
            out.extend_from_slice(s.as_bytes());
        }
        V::None => out.push(0),
        V::Some(b) => {
            out.push(1);
            encode(b, out);
        }
        V::Seq(items) => {
            varint(items.len() as u128, out);
            for i in items {
                encode(i, out);
            }
        }
        V::Tuple(items) => {
            for i in items {
                encode(i, out);
            }
        }
        V::Map(kv) => {
            varint(kv.len() as u128, out);
            for (k, x) in kv {
                encode(k, out);
                encode(x, out);
            }
        }
        V::Struct(fs) => {
            for (_, x) in fs {
                encode(x, out);
            }
        }
        V::Variant(idx, _, val) => {
            varint(*idx as u128, out);
            if let Some(x) = val {
                encode(x, out);
            }
        }
    }
}

fn enc(v: &V) -> Vec<u8> {
    let mut o = vec![];
    encode(v, &mut o);
    o
}

fn harness(msg: impl Into<String>) -> Fail {
    Fail::new("harness-wire-tree", msg)
}

impl V {
    fn inner(&self) -> &V {
        match self {
            V::Some(b) => b.inner(),
            x => x,
        }
    }
    fn inner_mut(&mut self) -> &mut V {
        match self {
            V::Some(b) => b.inner_mut(),
            x => x,
        }
    }
    fn f(&self, name: &str) -> &V {
        match self.inner() {
            V::Struct(fs) => &fs.iter().find(|(n, _)| *n == name).unwrap_or_else(|| panic!("wire tree: no field {name}")).1,
            o => panic!("wire tree: field {name} of a non-struct {o:?}"),
        }
    }
    fn f_mut(&mut self, name: &str) -> &mut V {
        match self.inner_mut() {
            V::Struct(fs) => &mut fs.iter_mut().find(|(n, _)| *n == name).unwrap_or_else(|| panic!("wire tree: no field {name}")).1,
            _ => panic!("wire tree: field {name} of a non-struct"),
        }
    }
    fn seq(&self) -> &Vec<V> {
        match self.inner() {
            V::Seq(v) => v,
            o => panic!("wire tree: not a sequence: {o:?}"),
        }
    }
    fn seq_mut(&mut self) -> &mut Vec<V> {
        match self.inner_mut() {
            V::Seq(v) => v,
            _ => panic!("wire tree: not a sequence"),
        }
    }
    fn u8(&self) -> u8 {
        match self.inner() {
            V::U8(x) => *x,
            o => panic!("wire tree: not a u8: {o:?}"),
        }
    }
    fn opt_u64(&self) -> Option<u64> {
        match self {
            V::Some(b) => match **b {
                V::U64(x) => Some(x),
                _ => None,
            },
            _ => None,
        }
    }
}

fn arr(b: &[u8]) -> V {
    V::Tuple(b.iter().map(|x| V::U8(*x)).collect())
}
fn vecb(b: &[u8]) -> V {
    V::Seq(b.iter().map(|x| V::U8(*x)).collect())
}

pub fn tree_of(p: &Pczt) -> Result<V, Fail> {
    let w = pczt::v2::Pczt::try_from(p.clone()).map_err(|e| harness(format!("v2 conversion failed: {e:?}")))?;
    Serialize::serialize(&w, TS).map_err(|e| harness(e.0))
}

pub fn parse_tree(t: &V) -> Result<Pczt, Fail> {
    let mut bytes = b"PCZT".to_vec();
    bytes.extend_from_slice(&2u32.to_le_bytes());
    encode(t, &mut bytes);
    Pczt::parse(&bytes).map_err(|e| Fail::new("constructor-output-rejected", format!("Pczt::parse rejects the v2 encoding a Constructor wrote: {e:?}")))
}

const LISTS: [&str; 6] = [".transparent.inputs", ".transparent.outputs", ".sapling.spends", ".sapling.outputs", ".orchard.actions", ".ironwood.actions"];

fn is_bytes(items: &[V]) -> bool {
    items.iter().all(|x| matches!(x, V::U8(_)))
}

/// Path -> leaf value of everything a PCZT carries. Absent optional fields and map entries have no
/// leaf; the lengths of the item lists are not leaves (they are the structure).
fn flatten(v: &V, path: &str, out: &mut BTreeMap<String, Vec<u8>>) {
    match v {
        V::None => {}
        V::Some(b) => flatten(b, path, out),
        V::Struct(fs) => {
            for (n, x) in fs {
                flatten(x, &format!("{path}.{n}"), out);
            }
        }
        V::Seq(items) | V::Tuple(items) if is_bytes(items) && !LISTS.contains(&path) => {
            out.insert(path.to_string(), enc(v));
        }
        V::Seq(items) => {
            if !LISTS.contains(&path) {
                out.insert(format!("{path}#len"), (items.len() as u64).to_le_bytes().to_vec());
            }
            for (i, x) in items.iter().enumerate() {
                flatten(x, &format!("{path}[{i}]"), out);
            }
        }
        V::Tuple(items) => {
            for (i, x) in items.iter().enumerate() {
                flatten(x, &format!("{path}.{i}"), out);
            }
        }
        V::Map(kv) => {
            for (k, x) in kv {
                flatten(x, &format!("{path}{{{}}}", hex::encode(enc(k))), out);
            }
        }
        V::Variant(idx, _, val) => {
            out.insert(format!("{path}#variant"), idx.to_le_bytes().to_vec());
            if let Some(x) = val {
                flatten(x, path, out);
            }
        }
        scalar => {
            out.insert(path.to_string(), enc(scalar));
        }
    }
}

/// Leaves governed by their own merge rule rather than "equal or absent".
fn special(path: &str) -> bool {
    path == ".global.tx_modifiable" || path.contains(".value_sum")
}

fn content(t: &V) -> BTreeMap<String, Vec<u8>> {
    let mut m = BTreeMap::new();
    flatten(t, "", &mut m);
    m.retain(|k, _| !special(k));
    m
}

// ---------------------------------------------------------------------------------------------
// Case
// ---------------------------------------------------------------------------------------------

pub const MAX_COPIES: usize = 4;
const TYPES: [u8; 6] = [0x01, 0x02, 0x03, 0x81, 0x82, 0x83];

#[derive(Clone, Debug)]
pub enum CStep {
    AddIn,
    AddOut,
    AddShielded,
    /// sign one transparent input: (input selector, key slot)
    Sign(u32, u8),
    /// sign every transparent input
    SignAll,
    /// bit i of the mask selects the i-th signable shielded spend
    SignShielded(u16),
    /// Updater: (kind, item selector, value variant)
    Update(u8, u32, u8),
    /// Redactor: (kind, item selector)
    Redact(u8, u32),
    IoFinalize,
    Roundtrip,
}

#[derive(Clone, Debug)]
pub struct CopyPlan {
    /// own starting structure (inputs, outputs, shielded chain position); None = the case's common one
    own: Option<(u32, u32, u32)>,
    steps: Vec<CStep>,
}

#[derive(Clone, Debug)]
pub struct StructCase {
    base_sel: u32,
    /// Some(v6): start from an empty `Creator::new(..).build()` PCZT instead of a builder base
    creator: Option<bool>,
    seed: u64,
    extra_in: u8,
    extra_out: u8,
    sighash: [u8; 8],
    uniform_sighash: Option<u8>,
    n: usize,
    common: (u32, u32, u32),
    copies: Vec<CopyPlan>,
    /// one copy gets a different element at one position: (copy, kind, position selector)
    inject: Option<(u8, u8, u32)>,
    /// the one copy that may run the IO Finalizer (it signs dummy spends with fresh randomness)
    io_copy: u8,
    order_seed: u64,
}

fn arb_cstep() -> impl Strategy<Value = CStep> {
    prop_oneof![
        3 => Just(CStep::AddIn),
        3 => Just(CStep::AddOut),
        2 => Just(CStep::AddShielded),
        7 => (any::<u32>(), 0u8..3).prop_map(|(i, s)| CStep::Sign(i, s)),
        1 => Just(CStep::SignAll),
        1 => any::<u16>().prop_map(CStep::SignShielded),
        3 => (0u8..6, any::<u32>(), prop_oneof![9 => Just(0u8), 1 => Just(1u8)]).prop_map(|(k, i, v)| CStep::Update(k, i, v)),
        2 => (0u8..10, any::<u32>()).prop_map(|(k, i)| CStep::Redact(k, i)),
        1 => Just(CStep::IoFinalize),
        1 => Just(CStep::Roundtrip),
    ]
}

fn arb_copy() -> impl Strategy<Value = CopyPlan> {
    (prop::option::weighted(0.5, (any::<u32>(), any::<u32>(), any::<u32>())), prop::collection::vec(arb_cstep(), 0..6)).prop_map(|(own, steps)| CopyPlan { own, steps })
}

pub fn arb_struct_case() -> impl Strategy<Value = StructCase> {
    (
        (any::<u32>(), prop::option::weighted(0.25, any::<bool>()), any::<u64>(), 0u8..4, 0u8..4),
        (prop::array::uniform8(0u8..6), prop::option::weighted(0.4, 0u8..6)),
        2usize..=MAX_COPIES,
        (any::<u32>(), any::<u32>(), any::<u32>()),
        prop::collection::vec(arb_copy(), MAX_COPIES),
        prop::option::weighted(0.15, (0u8..MAX_COPIES as u8, 0u8..3, any::<u32>())),
        0u8..MAX_COPIES as u8,
        any::<u64>(),
    )
        .prop_map(|((base_sel, creator, seed, extra_in, extra_out), (sighash, uniform_sighash), n, common, copies, inject, io_copy, order_seed)| StructCase {
            base_sel,
            creator,
            seed,
            extra_in,
            extra_out,
            sighash,
            uniform_sighash,
            n,
            common,
            copies,
            inject,
            io_copy,
            order_seed,
        })
}

// ---------------------------------------------------------------------------------------------
// The full transaction F and the harness Constructor
// ---------------------------------------------------------------------------------------------

#[derive(Clone, Copy, Debug, PartialEq, Eq, PartialOrd, Ord)]
enum Sh {
    SSpend,
    SOut,
    OAct,
    IAct,
}

struct Full {
    /// F's PCZT without any items (global + empty lists; shielded bundles keep their own fields)
    skeleton: V,
    inputs: Vec<V>,
    outputs: Vec<V>,
    keys: Vec<Vec<secp256k1::SecretKey>>,
    s_spends: Vec<V>,
    s_outs: Vec<V>,
    o_acts: Vec<V>,
    i_acts: Vec<V>,
    /// order in which a Constructor adds the shielded items
    chain: Vec<(Sh, usize)>,
    /// does the harness reproduce the builder's value sums from the items' values?
    shielded_ok: bool,
    v6: bool,
}

const INITIAL_TX_MODIFIABLE: u8 = 0b1000_0011;

fn mk_input(prevout_txid: [u8; 32], prevout_index: u32, value: u64, script_pubkey: &[u8], sighash_type: u8) -> V {
    V::Struct(vec![
        ("prevout_txid", arr(&prevout_txid)),
        ("prevout_index", V::U32(prevout_index)),
        ("sequence", V::None),
        ("required_time_lock_time", V::None),
        ("required_height_lock_time", V::None),
        ("script_sig", V::None),
        ("value", V::U64(value)),
        ("script_pubkey", vecb(script_pubkey)),
        ("redeem_script", V::None),
        ("partial_signatures", V::Map(vec![])),
        ("sighash_type", V::U8(sighash_type)),
        ("bip32_derivation", V::Map(vec![])),
        ("ripemd160_preimages", V::Map(vec![])),
        ("sha256_preimages", V::Map(vec![])),
        ("hash160_preimages", V::Map(vec![])),
        ("hash256_preimages", V::Map(vec![])),
        ("proprietary", V::Map(vec![])),
    ])
}

fn mk_output(value: u64, script_pubkey: &[u8]) -> V {
    V::Struct(vec![
        ("value", V::U64(value)),
        ("script_pubkey", vecb(script_pubkey)),
        ("redeem_script", V::None),
        ("bip32_derivation", V::Map(vec![])),
        ("user_address", V::None),
        ("proprietary", V::Map(vec![])),
    ])
}

fn empty_transparent() -> V {
    V::Some(Box::new(V::Struct(vec![("inputs", V::Seq(vec![])), ("outputs", V::Seq(vec![]))])))
}

fn sapling_sum(spends: &[V], outs: &[V]) -> Option<i128> {
    let mut s = 0i128;
    for x in spends {
        s += x.f("value").opt_u64()? as i128;
    }
    for x in outs {
        s -= x.f("value").opt_u64()? as i128;
    }
    Some(s)
}

fn orchard_sum(acts: &[V]) -> Option<V> {
    let mut s = 0i128;
    for a in acts {
        s += a.f("spend").f("value").opt_u64()? as i128;
        s -= a.f("output").f("value").opt_u64()? as i128;
    }
    Some(V::Tuple(vec![V::U64(s.unsigned_abs() as u64), V::Bool(s < 0)]))
}

fn secret_key(rng: &mut ChaCha20Rng) -> secp256k1::SecretKey {
    loop {
        let mut b = [0u8; 32];
        rng.fill_bytes(&mut b);
        if let Ok(sk) = secp256k1::SecretKey::from_slice(&b) {
            return sk;
        }
    }
}

fn p2pkh_script(h: &[u8; 20]) -> Vec<u8> {
    let mut s = vec![0x76, 0xa9, 0x14];
    s.extend_from_slice(h);
    s.extend_from_slice(&[0x88, 0xac]);
    s
}

fn build_full(b: Option<&Base>, c: &StructCase) -> Result<Full, Fail> {
    use pczt::roles::creator::Creator;
    use zcash_protocol::consensus::BranchId;
    let mut rng = ChaCha20Rng::seed_from_u64(c.seed);
    let secp = secp256k1::Secp256k1::new();
    let (start, v6): (Pczt, bool) = match (b, c.creator) {
        (Some(b), None) => (b.pre_io.clone(), b.v6),
        (_, Some(v6)) => {
            let cr = if v6 {
                Creator::new(BranchId::Nu6_3.into(), base::TARGET_HEIGHT + 40, 133, None, None)
            } else {
                Creator::new(BranchId::Nu6_2.into(), base::TARGET_HEIGHT + 40, 133, Some([0; 32]), Some([0; 32]))
            };
            let p = cr.map_err(|e| harness(format!("Creator::new: {e:?}")))?.build().map_err(|e| harness(format!("Creator::build: {e:?}")))?;
            vensure_eq!(p.global().inputs_modifiable() && p.global().outputs_modifiable() && p.global().shielded_modifiable(), true, "creator-flags-wrong", "the Creator sets all three modifiable flags");
            vensure!(!p.global().has_sighash_single(), "creator-flags-wrong", "the Creator clears the Has SIGHASH_SINGLE flag");
            (p, v6)
        }
        (None, None) => unreachable!(),
    };
    let mut t = tree_of(&start)?;
    // self-check of the tree writer against postcard
    {
        let mut mine = b"PCZT".to_vec();
        mine.extend_from_slice(&2u32.to_le_bytes());
        encode(&t, &mut mine);
        vensure!(mine == ser2(&start), "harness-wire-tree", "the harness's postcard writer disagrees with the crate's v2 serialisation ({} vs {} bytes)", mine.len(), ser2(&start).len());
    }
    *t.f_mut("global").f_mut("tx_modifiable") = V::U8(INITIAL_TX_MODIFIABLE);
    let mut keys: Vec<Vec<secp256k1::SecretKey>> = vec![];
    let (mut inputs, mut outputs) = (vec![], vec![]);
    if !matches!(t.f("transparent"), V::None) {
        inputs = t.f("transparent").f("inputs").seq().clone();
        outputs = t.f("transparent").f("outputs").seq().clone();
        if let (Some(b), None) = (b, c.creator) {
            keys = b.t_sks.clone();
        }
    }
    vensure_eq!(keys.len(), inputs.len(), "harness-wire-tree", "keys for the base's own inputs");
    for _ in 0..c.extra_in.max(if inputs.is_empty() { 1 } else { 0 }) {
        let sk = secret_key(&mut rng);
        let pk = sk.public_key(&secp);
        let h = match zcash_transparent::address::TransparentAddress::from_pubkey(&pk) {
            zcash_transparent::address::TransparentAddress::PublicKeyHash(h) => h,
            _ => unreachable!(),
        };
        let mut txid = [0u8; 32];
        rng.fill_bytes(&mut txid);
        inputs.push(mk_input(txid, rng.next_u32() % 4, 100_000 + rng.next_u64() % 900_000, &p2pkh_script(&h), 1));
        keys.push(vec![sk]);
    }
    for _ in 0..c.extra_out {
        let mut h = [0u8; 20];
        rng.fill_bytes(&mut h);
        let script = if rng.next_u32() % 3 == 0 {
            let mut s = vec![0xa9, 0x14];
            s.extend_from_slice(&h);
            s.push(0x87);
            s
        } else {
            p2pkh_script(&h)
        };
        outputs.push(mk_output(10_000 + rng.next_u64() % 90_000, &script));
    }
    for (j, inp) in inputs.iter_mut().enumerate() {
        let ty = TYPES[c.uniform_sighash.unwrap_or(c.sighash[j % 8]) as usize];
        *inp.f_mut("sighash_type") = V::U8(ty);
    }
    let take = |t: &mut V, bundle: &str, list: &str| -> Vec<V> {
        if matches!(t.f(bundle), V::None) {
            vec![]
        } else {
            std::mem::take(t.f_mut(bundle).f_mut(list).seq_mut())
        }
    };
    let s_spends = take(&mut t, "sapling", "spends");
    let s_outs = take(&mut t, "sapling", "outputs");
    let o_acts = take(&mut t, "orchard", "actions");
    let i_acts = take(&mut t, "ironwood", "actions");
    // the harness must reproduce the builder's value sums, or it cannot play Constructor for shielded items
    let mut shielded_ok = true;
    if !matches!(t.f("sapling"), V::None) {
        shielded_ok &= sapling_sum(&s_spends, &s_outs).map(V::I128).as_ref() == Some(t.f("sapling").f("value_sum"));
    }
    for (name, acts) in [("orchard", &o_acts), ("ironwood", &i_acts)] {
        if !matches!(t.f(name), V::None) {
            shielded_ok &= orchard_sum(acts).as_ref() == Some(t.f(name).f("value_sum"));
        }
    }
    if matches!(t.f("transparent"), V::None) {
        *t.f_mut("transparent") = empty_transparent();
    } else {
        t.f_mut("transparent").f_mut("inputs").seq_mut().clear();
        t.f_mut("transparent").f_mut("outputs").seq_mut().clear();
    }
    // chain: a random interleaving of the four shielded lists
    let mut remaining: Vec<(Sh, usize, usize)> = vec![(Sh::SSpend, 0, s_spends.len()), (Sh::SOut, 0, s_outs.len()), (Sh::OAct, 0, o_acts.len()), (Sh::IAct, 0, i_acts.len())];
    let mut chain = vec![];
    loop {
        remaining.retain(|(_, at, n)| at < n);
        if remaining.is_empty() {
            break;
        }
        let k = (rng.next_u32() as usize) % remaining.len();
        chain.push((remaining[k].0, remaining[k].1));
        remaining[k].1 += 1;
    }
    Ok(Full { skeleton: t, inputs, outputs, keys, s_spends, s_outs, o_acts, i_acts, chain, shielded_ok, v6 })
}

/// Item counts of a chain prefix: (sapling spends, sapling outputs, orchard actions, ironwood actions).
fn chain_counts(f: &Full, pos: usize) -> [usize; 4] {
    let mut n = [0usize; 4];
    for (k, _) in &f.chain[..pos] {
        n[*k as usize] += 1;
    }
    n
}

fn set_shielded(f: &Full, t: &mut V, pos: usize, keep: &V) {
    let n = chain_counts(f, pos);
    let existing = |bundle: &str, list: &str| -> Vec<V> {
        if matches!(keep.f(bundle), V::None) {
            vec![]
        } else {
            keep.f(bundle).f(list).seq().clone()
        }
    };
    // items the copy already has keep whatever the roles added to them; new ones come from F
    let fill = |have: Vec<V>, src: &[V], n: usize| -> Vec<V> {
        let mut v = have;
        v.truncate(n);
        while v.len() < n {
            v.push(src[v.len()].clone());
        }
        v
    };
    if !matches!(t.f("sapling"), V::None) {
        let sp = fill(existing("sapling", "spends"), &f.s_spends, n[0]);
        let so = fill(existing("sapling", "outputs"), &f.s_outs, n[1]);
        *t.f_mut("sapling").f_mut("value_sum") = V::I128(sapling_sum(&f.s_spends[..n[0]], &f.s_outs[..n[1]]).unwrap_or(0));
        *t.f_mut("sapling").f_mut("spends") = V::Seq(sp);
        *t.f_mut("sapling").f_mut("outputs") = V::Seq(so);
    }
    for (name, src, k) in [("orchard", &f.o_acts, 2usize), ("ironwood", &f.i_acts, 3)] {
        if !matches!(t.f(name), V::None) {
            let a = fill(existing(name, "actions"), src, n[k]);
            *t.f_mut(name).f_mut("value_sum") = orchard_sum(&src[..n[k]]).unwrap_or(V::Tuple(vec![V::U64(0), V::Bool(false)]));
            *t.f_mut(name).f_mut("actions") = V::Seq(a);
        }
    }
}

/// The element a copy's Constructor adds at a position (F's, unless this copy got the injected variant).
fn element(f: &Full, inject: Option<(u8, usize)>, input: bool, j: usize) -> V {
    let mut e = if input { f.inputs[j].clone() } else { f.outputs[j].clone() };
    if let Some((kind, pos)) = inject {
        if pos == j {
            match (kind, input) {
                (0, true) => {
                    let ty = e.f("sighash_type").u8();
                    let other = TYPES[(TYPES.iter().position(|t| *t == ty).unwrap() + 1) % 6];
                    *e.f_mut("sighash_type") = V::U8(other);
                }
                (1, false) => {
                    if let V::U64(v) = e.f("value").clone() {
                        *e.f_mut("value") = V::U64(v + 1);
                    }
                }
                (2, true) => {
                    if let V::U32(v) = e.f("prevout_index").clone() {
                        *e.f_mut("prevout_index") = V::U32(v + 1);
                    }
                }
                _ => {}
            }
        }
    }
    e
}

/// Pristine prefix of F: what a Constructor working alone from the Creator's PCZT emits.
fn pristine(f: &Full, inject: Option<(u8, usize)>, n_in: usize, n_out: usize, pos: usize) -> V {
    let mut t = f.skeleton.clone();
    *t.f_mut("transparent").f_mut("inputs") = V::Seq((0..n_in).map(|j| element(f, inject, true, j)).collect());
    *t.f_mut("transparent").f_mut("outputs") = V::Seq((0..n_out).map(|j| element(f, inject, false, j)).collect());
    let keep = f.skeleton.clone();
    set_shielded(f, &mut t, pos, &keep);
    t
}

// ---------------------------------------------------------------------------------------------
// Signature hashes and signature verification (zcash_primitives / zcash_transparent digests only)
// ---------------------------------------------------------------------------------------------

struct Hashes {
    shielded: [u8; 32],
    transparent: Vec<[u8; 32]>,
}

fn hashes_of(p: &Pczt) -> Option<Hashes> {
    use pczt::roles::verifier::Verifier;
    use zcash_primitives::transaction::sighash::SignableInput;
    use zcash_primitives::transaction::txid::TxIdDigester;
    use zcash_primitives::transaction::{sighash_v5::v5_signature_hash, sighash_v6::v6_signature_hash, TransactionData, TxVersion};
    let txd: TransactionData<pczt::EffectsOnly> = catch(|| p.clone().into_effects()).ok()?.ok()?;
    let d = txd.digest(TxIdDigester);
    let signature_hash = |si: &SignableInput| -> [u8; 32] {
        match txd.version() {
            TxVersion::V6 => v6_signature_hash(&txd, si, &d).as_ref().try_into().unwrap(),
            _ => v5_signature_hash(&txd, si, &d).as_ref().try_into().unwrap(),
        }
    };
    let shielded = signature_hash(&SignableInput::Shielded);
    let mut transparent = vec![];
    Verifier::new(p.clone())
        .with_transparent::<(), _>(|t| {
            for (i, inp) in t.inputs().iter().enumerate() {
                transparent.push(inp.with_signable_input(i, |si| signature_hash(&SignableInput::Transparent(si))));
            }
            Ok(())
        })
        .ok()?;
    Some(Hashes { shielded, transparent })
}

/// Every signature `p` carries verifies under the signature hashes of the transaction `p` itself
/// implies (transparent: per the input's own sighash type). Returns (transparent, shielded) counts,
/// or None if the effects of `p` cannot be computed.
fn verify_own_signatures(p: &Pczt) -> Result<Option<(u64, u64)>, Fail> {
    use pczt::roles::verifier::Verifier;
    let Some(h) = hashes_of(p) else { return Ok(None) };
    let (mut nt, mut ns) = (0u64, 0u64);
    let mut bad: Option<String> = None;
    let secp = secp256k1::Secp256k1::verification_only();
    let _ = Verifier::new(p.clone()).with_transparent::<(), _>(|t| {
        for (i, inp) in t.inputs().iter().enumerate() {
            for (pk, sig) in inp.partial_signatures() {
                nt += 1;
                let ok = (|| {
                    let (der, ty) = sig.split_at(sig.len().checked_sub(1)?);
                    if ty != [inp.sighash_type().encode()] {
                        return None;
                    }
                    let s = secp256k1::ecdsa::Signature::from_der(der).ok()?;
                    let pk = secp256k1::PublicKey::from_slice(pk).ok()?;
                    secp.verify_ecdsa(&secp256k1::Message::from_digest(h.transparent[i]), &s, &pk).ok()
                })();
                if ok.is_none() {
                    bad = Some(format!(
                        "transparent input {i} (sighash type {:#04x}): the partial signature of {} does not verify under the signature hash of this transaction",
                        inp.sighash_type().encode(),
                        hex::encode(pk)
                    ));
                }
            }
        }
        Ok(())
    });
    let _ = Verifier::new(p.clone()).with_sapling::<(), _>(|sb| {
        for (i, sp) in sb.spends().iter().enumerate() {
            if let Some(sig) = sp.spend_auth_sig() {
                ns += 1;
                if sp.rk().verify(&h.shielded, sig).is_err() {
                    bad = Some(format!("sapling spend {i}: spend_auth_sig does not verify under the shielded signature hash of this transaction"));
                }
            }
        }
        Ok(())
    });
    for ironwood in [false, true] {
        let f = |ob: &orchard::pczt::Bundle| {
            for (i, a) in ob.actions().iter().enumerate() {
                if let Some(sig) = a.spend().spend_auth_sig() {
                    ns += 1;
                    if a.spend().rk().verify(&h.shielded, sig).is_err() {
                        bad = Some(format!("{} action {i}: spend_auth_sig does not verify under the shielded signature hash of this transaction", if ironwood { "ironwood" } else { "orchard" }));
                    }
                }
            }
            Ok(())
        };
        let _ = if ironwood { Verifier::new(p.clone()).with_ironwood::<(), _>(f).map(|_| ()) } else { Verifier::new(p.clone()).with_orchard::<(), _>(f).map(|_| ()) };
    }
    match bad {
        Some(m) => Err(Fail::new("signature-invalid", m)),
        None => Ok(Some((nt, ns))),
    }
}

// ---------------------------------------------------------------------------------------------
// Copies
// ---------------------------------------------------------------------------------------------

#[derive(Clone, Copy, Debug, PartialEq, Eq)]
struct Flags {
    inp: bool,
    out: bool,
    single: bool,
    sh: bool,
}

impl Flags {
    fn of(p: &Pczt) -> Flags {
        let g = p.global();
        Flags { inp: g.inputs_modifiable(), out: g.outputs_modifiable(), single: g.has_sighash_single(), sh: g.shielded_modifiable() }
    }
}

struct CopyState {
    p: Pczt,
    n_in: usize,
    n_out: usize,
    pos: usize,
    /// the flags the documentation prescribes after the roles run so far
    model: Flags,
    trace: Vec<String>,
    added: u64,
    refused_by_flags: u64,
    sig_types: BTreeSet<u8>,
    shielded_sigs: u64,
    io_finalized: bool,
    txid_checks: u64,
}

fn has_bsk(t: &V) -> [bool; 3] {
    let mut r = [false; 3];
    for (i, name) in ["sapling", "orchard", "ironwood"].iter().enumerate() {
        if !matches!(t.f(name), V::None) {
            r[i] = !matches!(t.f(name).f("bsk"), V::None);
        }
    }
    r
}

fn soft<E: std::fmt::Debug>(what: &'static str) -> impl Fn(E) -> String {
    move |e| format!("{what}: {e:?}")
}

#[allow(clippy::too_many_arguments)]
fn run_step(b: Option<&Base>, f: &Full, inject: Option<(u8, usize)>, st: &mut CopyState, step: &CStep, may_io: bool) -> Result<Result<Pczt, String>, Fail> {
    use pczt::roles::{io_finalizer::IoFinalizer, redactor::Redactor, signer::Signer, updater::Updater};
    let p = st.p.clone();
    let now = Flags::of(&p);
    Ok(match step {
        CStep::AddIn | CStep::AddOut => {
            let input = matches!(step, CStep::AddIn);
            let (have, total, allowed) = if input { (st.n_in, f.inputs.len(), now.inp) } else { (st.n_out, f.outputs.len(), now.out) };
            if have >= total {
                return Ok(Err("nothing left to add".into()));
            }
            if !allowed {
                st.refused_by_flags += 1;
                return Ok(Err("Constructor: the modifiable flag is cleared".into()));
            }
            let mut t = tree_of(&p)?;
            if matches!(t.f("transparent"), V::None) {
                *t.f_mut("transparent") = empty_transparent();
            }
            t.f_mut("transparent").f_mut(if input { "inputs" } else { "outputs" }).seq_mut().push(element(f, inject, input, have));
            let q = parse_tree(&t)?;
            if input {
                st.n_in += 1;
            } else {
                st.n_out += 1;
            }
            st.added += 1;
            Ok(q)
        }
        CStep::AddShielded => {
            if st.pos >= f.chain.len() || !f.shielded_ok {
                return Ok(Err("nothing left to add".into()));
            }
            let t0 = tree_of(&p)?;
            if !now.sh || has_bsk(&t0).iter().any(|x| *x) {
                st.refused_by_flags += 1;
                return Ok(Err("Constructor: shielded items are not modifiable".into()));
            }
            let mut t = t0.clone();
            // bundles the encoding elided come back from F's skeleton
            for name in ["sapling", "orchard", "ironwood"] {
                if matches!(t.f(name), V::None) && !matches!(f.skeleton.f(name), V::None) {
                    *t.f_mut(name) = f.skeleton.f(name).clone();
                }
            }
            set_shielded(f, &mut t, st.pos + 1, &t0);
            let q = parse_tree(&t)?;
            st.pos += 1;
            st.added += 1;
            Ok(q)
        }
        CStep::Sign(_, _) | CStep::SignAll => {
            if st.n_in == 0 {
                return Ok(Err("no input".into()));
            }
            let which: Vec<(usize, u8)> = match step {
                CStep::Sign(sel, slot) => vec![(pick_index(*sel, st.n_in), *slot)],
                _ => (0..st.n_in).map(|i| (i, 0)).collect(),
            };
            let t = tree_of(&p)?;
            let mut signer = match Signer::new(p.clone()) {
                Ok(s) => s,
                Err(e) => return Ok(Err(format!("Signer::new: {e:?}"))),
            };
            let hashes = hashes_of(&p);
            let mut model = st.model;
            let mut done = 0;
            for (i, slot) in which {
                let ty = t.f("transparent").f("inputs").seq()[i].f("sighash_type").u8();
                if ty & 0x1f == 3 && i >= st.n_out {
                    continue; // SIGHASH_SINGLE without a corresponding output
                }
                let sk = &f.keys[i][slot as usize % f.keys[i].len()];
                match signer.transparent_sighash(i) {
                    Ok(h) => {
                        if let Some(hs) = &hashes {
                            vensure_eq!(h, hs.transparent[i], "sighash-wrong", "Signer::transparent_sighash({i}) for sighash type {ty:#04x} vs the ZIP 244 / v6 digest of the PCZT's effects");
                        }
                    }
                    Err(e) => return Ok(Err(format!("Signer::transparent_sighash: {e:?}"))),
                }
                if let Err(e) = signer.sign_transparent(i, sk) {
                    // a partially applied Signer is dropped: nothing of it reaches the copy
                    return Ok(Err(format!("Signer::sign_transparent: {e:?}")));
                }
                // the documented rule (Global::tx_modifiable; BIP 370 Signer)
                if ty & 0x80 == 0 {
                    model.inp = false;
                }
                if ty & 0x1f != 2 {
                    model.out = false;
                }
                if ty & 0x1f == 3 {
                    model.single = true;
                }
                model.sh = false;
                st.sig_types.insert(ty);
                done += 1;
            }
            if done == 0 {
                return Ok(Err("nothing signable".into()));
            }
            st.model = model;
            Ok(signer.finish())
        }
        CStep::SignShielded(mask) => {
            let Some(b) = b else { return Ok(Err("no shielded keys".into())) };
            let n = chain_counts(f, st.pos);
            let mut bit = 0;
            let mut take = || {
                bit += 1;
                mask & (1 << ((bit - 1) % 16)) != 0
            };
            let s_sel: Vec<usize> = b.s_spend_idx.iter().copied().filter(|i| *i < n[0]).filter(|_| take()).collect();
            let o_sel: Vec<usize> = b.o_sign_idx.iter().copied().filter(|i| *i < n[2]).filter(|_| take()).collect();
            let i_sel: Vec<usize> = b.i_sign_idx.iter().copied().filter(|i| *i < n[3]).filter(|_| take()).collect();
            if s_sel.is_empty() && o_sel.is_empty() && i_sel.is_empty() {
                return Ok(Err("nothing selected".into()));
            }
            let mut q = p.clone();
            if !s_sel.is_empty() {
                let pgk = b.s_extsk.as_ref().unwrap().expsk.proof_generation_key();
                q = match Updater::new(q).update_sapling_with(|mut u| {
                    for i in &s_sel {
                        u.update_spend_with(*i, |mut su| su.set_proof_generation_key(pgk.clone()))?;
                    }
                    Ok(())
                }) {
                    Ok(u) => u.finish(),
                    Err(e) => return Ok(Err(format!("Updater::update_sapling_with: {e:?}"))),
                };
            }
            let mut signer = match Signer::new(q) {
                Ok(s) => s,
                Err(e) => return Ok(Err(format!("Signer::new: {e:?}"))),
            };
            if let Some(hs) = hashes_of(&p) {
                vensure_eq!(signer.shielded_sighash(), hs.shielded, "sighash-wrong", "Signer::shielded_sighash vs the digest of the PCZT's effects");
            }
            for i in &s_sel {
                if let Err(e) = signer.sign_sapling(*i, &b.s_extsk.as_ref().unwrap().expsk.ask) {
                    return Ok(Err(format!("Signer::sign_sapling: {e:?}")));
                }
            }
            for i in &o_sel {
                if let Err(e) = signer.sign_orchard(*i, &orchard::keys::SpendAuthorizingKey::from(b.o_sk.as_ref().unwrap())) {
                    return Ok(Err(format!("Signer::sign_orchard: {e:?}")));
                }
            }
            for i in &i_sel {
                if let Err(e) = signer.sign_ironwood(*i, &orchard::keys::SpendAuthorizingKey::from(b.i_sk.as_ref().unwrap())) {
                    return Ok(Err(format!("Signer::sign_ironwood: {e:?}")));
                }
            }
            // "all shielded signatures" clear the three modifiable flags
            st.model.inp = false;
            st.model.out = false;
            st.model.sh = false;
            st.shielded_sigs += (s_sel.len() + o_sel.len() + i_sel.len()) as u64;
            Ok(signer.finish())
        }
        CStep::Update(kind, sel, val) => {
            let key = format!("c13x-{kind}");
            let value = vec![0xC0 | *val; 1 + *val as usize];
            match kind {
                0 => Ok(Updater::new(p).update_global_with(|mut g| g.set_proprietary(key, value)).finish()),
                1 | 2 | 5 => {
                    if st.n_in == 0 {
                        return Ok(Err("no input".into()));
                    }
                    let i = pick_index(*sel, st.n_in);
                    let r = Updater::new(p).update_transparent_with(|mut u| {
                        u.update_input_with(i, |mut iu| {
                            match kind {
                                1 => iu.set_proprietary(key, value),
                                2 => {
                                    let mut pk = [2u8; 33];
                                    pk[1] = i as u8;
                                    iu.set_bip32_derivation(pk, zcash_transparent::pczt::Bip32Derivation::parse([*val; 32], vec![44 | 0x8000_0000, 133 | 0x8000_0000, *val as u32]).unwrap());
                                }
                                _ => iu.set_hash160_preimage(vec![i as u8, 7, *val]),
                            }
                            Ok(())
                        })
                    });
                    r.map(|u| u.finish()).map_err(soft("Updater::update_transparent_with"))
                }
                _ => {
                    if st.n_out == 0 {
                        return Ok(Err("no output".into()));
                    }
                    let o = pick_index(*sel, st.n_out);
                    let r = Updater::new(p).update_transparent_with(|mut u| {
                        u.update_output_with(o, |mut ou| {
                            if *kind == 3 {
                                ou.set_user_address(format!("t1c13x{val}"));
                            } else {
                                ou.set_proprietary(key, value);
                            }
                            Ok(())
                        })
                    });
                    r.map(|u| u.finish()).map_err(soft("Updater::update_transparent_with"))
                }
            }
        }
        CStep::Redact(kind, sel) => {
            let n = chain_counts(f, st.pos);
            let r = Redactor::new(p);
            let pick = |len: usize| if len == 0 { None } else { Some(pick_index(*sel, len)) };
            let q = match kind {
                0 => pick(st.n_in).map(|i| r.redact_transparent_with(|mut t| t.redact_input(i, |mut x| x.clear_partial_signatures()))),
                1 => pick(st.n_in).map(|i| r.redact_transparent_with(|mut t| t.redact_input(i, |mut x| x.clear_proprietary()))),
                2 => pick(st.n_in).map(|i| r.redact_transparent_with(|mut t| t.redact_input(i, |mut x| x.clear_bip32_derivation()))),
                3 => pick(st.n_out).map(|o| r.redact_transparent_with(|mut t| t.redact_output(o, |mut x| x.clear_user_address()))),
                4 => Some(r.redact_global_with(|mut g| g.clear_proprietary())),
                5 => pick(n[0]).map(|i| {
                    r.redact_sapling_with(|mut s| {
                        s.redact_spend(i, |mut x| {
                            x.clear_zip32_derivation();
                            x.clear_witness();
                        })
                    })
                }),
                6 => pick(n[1]).map(|i| {
                    r.redact_sapling_with(|mut s| {
                        s.redact_output(i, |mut x| {
                            x.clear_ock();
                            x.clear_zip32_derivation();
                        })
                    })
                }),
                7 => pick(n[2]).map(|i| {
                    r.redact_orchard_with(|mut s| {
                        s.redact_action(i, |mut x| {
                            x.clear_spend_zip32_derivation();
                            x.clear_output_ock();
                        })
                    })
                }),
                8 => pick(n[3]).map(|i| {
                    r.redact_ironwood_with(|mut s| {
                        s.redact_action(i, |mut x| {
                            x.clear_spend_witness();
                            x.clear_output_zip32_derivation();
                        })
                    })
                }),
                _ => pick(st.n_in).map(|i| r.redact_transparent_with(|mut t| t.redact_input(i, |mut x| x.clear_hash160_preimages()))),
            };
            match q {
                Some(r) => Ok(r.finish()),
                None => Err("nothing to redact".into()),
            }
        }
        CStep::IoFinalize => {
            if !may_io || st.io_finalized {
                return Ok(Err("another copy is the IO Finalizer's".into()));
            }
            match IoFinalizer::new(p.clone()).finalize_io() {
                Ok(q) => {
                    let n = chain_counts(f, st.pos);
                    // "set to false by the IO Finalizer if there are shielded spends or outputs"
                    if n.iter().any(|x| *x > 0) {
                        st.model.inp = false;
                        st.model.out = false;
                        st.model.sh = false;
                    }
                    st.io_finalized = true;
                    Ok(q)
                }
                Err(e) => Err(format!("IoFinalizer::finalize_io: {e:?}")),
            }
        }
        CStep::Roundtrip => {
            let bytes = p.clone().serialize().map_err(|e| Fail::new("accepted-not-serializable", format!("{e:?}")))?;
            let q = Pczt::parse(&bytes).map_err(|e| Fail::new("own-encoding-rejected", format!("{e:?}")))?;
            vensure!(ser2(&q) == ser2(&p), "roundtrip-value-changed", "parse(serialize(p)) is not p: {}", first_diff(&format!("{q:#?}"), &format!("{p:#?}")));
            Ok(q)
        }
    })
}

fn step_name(s: &CStep) -> &'static str {
    match s {
        CStep::AddIn | CStep::AddOut | CStep::AddShielded => "constructor",
        CStep::Sign(..) | CStep::SignAll | CStep::SignShielded(_) => "signer",
        CStep::Update(..) => "updater",
        CStep::Redact(..) => "redactor",
        CStep::IoFinalize => "io-finalizer",
        CStep::Roundtrip => "bytes",
    }
}

// ---------------------------------------------------------------------------------------------
// Reference for the Combiner
// ---------------------------------------------------------------------------------------------

#[derive(Clone, Debug)]
struct Model {
    /// inputs, outputs, sapling spends, sapling outputs, orchard actions, ironwood actions
    n: [usize; 6],
    flags: Flags,
    bsk: [bool; 3],
    /// encoded value sums of the sapling / orchard / ironwood bundles (None: bundle elided)
    value_sum: [Option<Vec<u8>>; 3],
    content: BTreeMap<String, Vec<u8>>,
}

fn list_len(t: &V, bundle: &str, list: &str) -> usize {
    if matches!(t.f(bundle), V::None) {
        0
    } else {
        t.f(bundle).f(list).seq().len()
    }
}

fn model_of(p: &Pczt) -> Result<Model, Fail> {
    let t = tree_of(p)?;
    let vs = |name: &str| if matches!(t.f(name), V::None) { None } else { Some(enc(t.f(name).f("value_sum"))) };
    Ok(Model {
        n: [
            list_len(&t, "transparent", "inputs"),
            list_len(&t, "transparent", "outputs"),
            list_len(&t, "sapling", "spends"),
            list_len(&t, "sapling", "outputs"),
            list_len(&t, "orchard", "actions"),
            list_len(&t, "ironwood", "actions"),
        ],
        flags: Flags::of(p),
        bsk: has_bsk(&t),
        value_sum: [vs("sapling"), vs("orchard"), vs("ironwood")],
        content: content(&t),
    })
}

#[derive(Debug)]
enum Verdict {
    Combine,
    /// (class, explanation)
    Conflict(&'static str, String),
    /// IO-finalized bundle next to a copy with another number of items: `Bundle::merge` refuses the
    /// pair, yet accepts the same set when an unfinalized copy of the longer structure comes first
    #[allow(dead_code)]
    Unspecified(String),
}

/// `combine([shorter open copy, unfinalized full copy, IO-finalized full copy])` succeeds while any
/// order or bracketing that meets (IO-finalized, shorter) directly fails.
pub const FINALIZED_VS_SHORTER: &str = "combine-grouping-dependent-finalized-vs-shorter-copy";

const LIST_NAMES: [&str; 6] = ["transparent inputs", "transparent outputs", "Sapling spends", "Sapling outputs", "Orchard actions", "Ironwood actions"];

fn reference(ms: &[Model]) -> Verdict {
    let max: Vec<usize> = (0..6).map(|k| ms.iter().map(|m| m.n[k]).max().unwrap()).collect();
    // 1. a copy with fewer items than another must itself allow modification
    for (i, m) in ms.iter().enumerate() {
        for k in 0..6 {
            let open = match k {
                0 => m.flags.inp,
                1 => m.flags.out,
                _ => m.flags.sh,
            };
            if m.n[k] < max[k] && !open {
                return Verdict::Conflict(
                    if k < 2 { "structural-transparent" } else { "structural-shielded" },
                    format!("copy {i} has {} {} and forbids modifying them, another copy has {}", m.n[k], LIST_NAMES[k], max[k]),
                );
            }
        }
    }
    // 2. two values for one field
    let mut u: BTreeMap<&String, (&Vec<u8>, usize)> = BTreeMap::new();
    for (i, m) in ms.iter().enumerate() {
        for (k, v) in &m.content {
            match u.get(k) {
                Some((v0, i0)) if *v0 != v => {
                    return Verdict::Conflict("data", format!("copies {i0} and {i} carry different values for {k}: {} / {}", hex::encode(v0), hex::encode(v)));
                }
                Some(_) => {}
                None => {
                    u.insert(k, (v, i));
                }
            }
        }
    }
    // 3. a binding signature key fixes the number of items of its bundle
    for (bi, lists) in [(0usize, vec![2usize, 3]), (1, vec![4]), (2, vec![5])] {
        if ms.iter().any(|m| m.bsk[bi]) {
            let differ = lists.iter().any(|k| ms.iter().any(|m| m.n[*k] != max[*k]));
            if differ {
                return Verdict::Unspecified(format!("a copy carries the {} bsk while the copies have different numbers of items in that bundle", ["Sapling", "Orchard", "Ironwood"][bi]));
            }
        }
    }
    // 4. Sapling copies that are not prefixes of one another in both lists (not generated; documented limitation)
    for a in ms {
        for b in ms {
            if a.n[2] < b.n[2] && a.n[3] > b.n[3] {
                return Verdict::Unspecified("Sapling copies with more spends / fewer outputs than each other".into());
            }
        }
    }
    Verdict::Combine
}

fn describe(c: &StructCase, f: &Full, states: &[CopyState]) -> String {
    let mut s = format!(
        "F: {} inputs (sighash types {:?}), {} outputs, shielded chain {:?}, v6={}; ",
        f.inputs.len(),
        f.inputs.iter().map(|i| format!("{:#04x}", i.f("sighash_type").u8())).collect::<Vec<_>>(),
        f.outputs.len(),
        f.chain,
        f.v6
    );
    for (i, st) in states.iter().enumerate() {
        s.push_str(&format!("copy{i}: in={} out={} chain={} flags={:?} steps={:?}; ", st.n_in, st.n_out, st.pos, Flags::of(&st.p), st.trace));
    }
    s.push_str(&format!("inject={:?}", c.inject));
    s
}

pub fn check_structure(ctx: &Ctx, c: &StructCase) -> CaseResult {
    let nb = super::n_bases(ctx);
    let bidx = pick_index(c.base_sel, nb) as u32;
    let b: Option<Arc<Base>> = if c.creator.is_some() { None } else { Some(base::base(ctx.seed, bidx)) };
    let f = build_full(b.as_deref(), c)?;
    let head = match &b {
        Some(b) => format!("base {bidx} {:?}", b.shape),
        None => format!("Creator PCZT v6={}", f.v6),
    };
    // harness sanity: F in full parses and reads back as written
    {
        let t = pristine(&f, None, f.inputs.len(), f.outputs.len(), f.chain.len());
        let p = parse_tree(&t).map_err(|e| Fail::new(e.signature, format!("{} [{head}]", e.msg)))?;
        let back = tree_of(&p)?;
        // (empty bundles are elided by the encoding)
        vensure!(enc(&back) == enc(&tree_of(&parse_tree(&back)?)?), "harness-wire-tree", "the full transaction does not read back as written [{head}]");
        vensure_eq!(list_len(&back, "transparent", "inputs"), f.inputs.len(), "harness-wire-tree", "inputs of F [{head}]");
    }

    let common = (pick_index(c.common.0, f.inputs.len() + 1), pick_index(c.common.1, f.outputs.len() + 1), pick_index(c.common.2, f.chain.len() + 1));
    let mut states: Vec<CopyState> = vec![];
    let mut refused = 0u64;
    let mut roles: BTreeSet<&'static str> = BTreeSet::new();
    for ci in 0..c.n {
        let plan = &c.copies[ci];
        let (n_in, n_out, mut pos) = match plan.own {
            Some((a, o, s)) => (pick_index(a, f.inputs.len() + 1), pick_index(o, f.outputs.len() + 1), pick_index(s, f.chain.len() + 1)),
            None => common,
        };
        if !f.shielded_ok {
            pos = f.chain.len();
        }
        let inject: Option<(u8, usize)> = c.inject.and_then(|(who, kind, sel)| {
            if who as usize % c.n != ci {
                return None;
            }
            let len = if kind == 1 { f.outputs.len() } else { f.inputs.len() };
            (len > 0).then(|| (kind, pick_index(sel, len)))
        });
        let p0 = parse_tree(&pristine(&f, inject, n_in, n_out, pos)).map_err(|e| Fail::new(e.signature, format!("{} [{head}]", e.msg)))?;
        let mut st = CopyState {
            model: Flags { inp: true, out: true, single: false, sh: true },
            p: p0,
            n_in,
            n_out,
            pos,
            trace: vec![],
            added: 0,
            refused_by_flags: 0,
            sig_types: BTreeSet::new(),
            shielded_sigs: 0,
            io_finalized: false,
            txid_checks: 0,
        };
        vensure_eq!(Flags::of(&st.p), st.model, "harness-wire-tree", "flags of a pristine copy [{head}]");
        let mut txids: BTreeMap<(usize, usize, usize), Option<TxId>> = BTreeMap::new();
        for (si, step) in plan.steps.iter().enumerate() {
            let name = step_name(step);
            let r = catch(|| run_step(b.as_deref(), &f, inject, &mut st, step, c.io_copy as usize % c.n == ci))
                .map_err(|e| Fail::new(format!("role-panic:{}", super::bytes::dep_site(&e)), format!("copy {ci} step {si} ({step:?}) panicked: {e} [{head}; {}]", describe(c, &f, &states))))?
                .map_err(|e| Fail::new(e.signature, format!("copy {ci} step {si} ({step:?}): {} [{head}; so far {:?}]", e.msg, st.trace)))?;
            let q = match r {
                Ok(q) => q,
                Err(why) => {
                    refused += 1;
                    st.trace.push(format!("{step:?}:refused({})", why.chars().take(70).collect::<String>()));
                    continue;
                }
            };
            // flags: the documented rule, applied to the role sequence
            let got = Flags::of(&q);
            if got != st.model {
                let sig = match step {
                    CStep::Sign(..) | CStep::SignAll | CStep::SignShielded(_) => "signer-flag-rule-violated",
                    CStep::IoFinalize => "io-finalizer-flag-rule-violated",
                    _ => "role-changed-modifiable-flags",
                };
                vfail!(sig, "copy {ci} after step {si} ({step:?}): tx_modifiable flags are {got:?}, the documented rule gives {:?} [{head}; so far {:?}]", st.model, st.trace);
            }
            // the id implied by the copy is the id of the pristine transaction with this structure
            let want = *txids.entry((st.n_in, st.n_out, st.pos)).or_insert_with(|| parse_tree(&pristine(&f, inject, st.n_in, st.n_out, st.pos)).ok().and_then(|p| pczt_txid(&p).ok()));
            if let (Some(w), Ok(g)) = (want, pczt_txid(&q)) {
                vensure_eq!(g, w, "role-changed-txid", "copy {ci} after step {si} ({step:?}, {name}) implies another transaction id than the Constructor's own PCZT with {} inputs / {} outputs / {} shielded items [{head}; so far {:?}]", st.n_in, st.n_out, st.pos, st.trace);
                st.txid_checks += 1;
            }
            roles.insert(name);
            st.trace.push(format!("{step:?}"));
            st.p = q;
        }
        // signatures of the finished copy
        verify_own_signatures(&st.p).map_err(|e| Fail::new(e.signature, format!("copy {ci}: {} [{head}; steps {:?}]", e.msg, st.trace)))?;
        states.push(st);
    }
    let desc = || format!("{head}; {}", describe(c, &f, &states));

    // ---- the reference's verdict
    let copies: Vec<Pczt> = states.iter().map(|s| s.p.clone()).collect();
    let models: Vec<Model> = copies.iter().map(model_of).collect::<Result<_, _>>()?;
    let verdict = reference(&models);

    let n = copies.len();
    let mut rng = ChaCha20Rng::seed_from_u64(c.order_seed);
    let mut orders = permutations(n);
    let flat = orders.len();
    let n_tree = if n >= 3 { 6 } else { 0 };
    let tree_orders: Vec<Vec<usize>> = (0..n_tree).map(|i| orders[(i * 7 + 3) % flat].clone()).collect();
    orders.extend(tree_orders);
    let mut oks: Vec<(usize, Pczt)> = vec![];
    let mut errs: Vec<usize> = vec![];
    for (oi, ord) in orders.iter().enumerate() {
        let list: Vec<Pczt> = ord.iter().map(|i| copies[*i].clone()).collect();
        let r = if oi < flat { combine(list)? } else { combine_tree(list, &mut rng)? };
        let br = if oi < flat { "" } else { " (bracketed)" };
        match (&verdict, r) {
            (_, Err(CombineError::NoPczts)) => vfail!("conflict-wrong-error", "order {ord:?}: NoPczts [{}]", desc()),
            (Verdict::Conflict(_, why), Ok(_)) => vfail!("structure-conflict-accepted", "order {ord:?}{br} combined although {why} [{}]", desc()),
            (Verdict::Conflict(..), Err(CombineError::DataMismatch)) => errs.push(oi),
            (Verdict::Combine, Err(e)) => vfail!("structure-compatible-rejected", "order {ord:?}{br} failed with {e:?} although no copy forbids what another adds and no field carries two values [{}]", desc()),
            (Verdict::Combine, Ok(p)) | (Verdict::Unspecified(_), Ok(p)) => oks.push((oi, p)),
            (Verdict::Unspecified(_), Err(_)) => errs.push(oi),
        }
    }

    // ---- labels
    let final_flags: Vec<Flags> = models.iter().map(|m| m.flags).collect();
    let differ_structure = models.iter().any(|m| m.n != models[0].n);
    let differ_flags = final_flags.iter().any(|x| *x != final_flags[0]);
    let sig_types: BTreeSet<u8> = states.iter().flat_map(|s| s.sig_types.iter().copied()).collect();
    let any_sig = !sig_types.is_empty() || states.iter().any(|s| s.shielded_sigs > 0);
    let mut obs = Obs::new(n >= 2 && (differ_structure || differ_flags) && any_sig)
        .key(hash64(format!("{c:?}").as_bytes()))
        .count("orders", orders.len() as u64)
        .count("role-steps-applied", states.iter().map(|s| s.trace.iter().filter(|t| !t.contains(":refused(")).count() as u64).sum())
        .count("role-steps-refused", refused)
        .count("constructor-adds", states.iter().map(|s| s.added).sum())
        .count("constructor-refused-by-flags", states.iter().map(|s| s.refused_by_flags).sum())
        .count("copy-txid-checks", states.iter().map(|s| s.txid_checks).sum())
        .count("shielded-signatures", states.iter().map(|s| s.shielded_sigs).sum())
        .label(if c.creator.is_some() { "base:creator" } else { "base:builder" })
        .label(if f.v6 { "tx-v6" } else { "tx-v5" })
        .label_if(final_flags.iter().any(|x| x.inp && x.out), "flags:in-open-out-open")
        .label_if(final_flags.iter().any(|x| !x.inp && x.out), "flags:in-frozen-out-open")
        .label_if(final_flags.iter().any(|x| x.inp && !x.out), "flags:in-open-out-frozen")
        .label_if(final_flags.iter().any(|x| !x.inp && !x.out), "flags:in-frozen-out-frozen")
        .label_if(final_flags.iter().any(|x| x.single), "flags:has-sighash-single")
        .label_if(final_flags.iter().any(|x| !x.sh) && final_flags.iter().any(|x| x.sh), "flags:shielded-mixed")
        .label_if(states.iter().any(|s| s.added > 0), "copy-extended-by-constructor")
        .label_if(differ_structure, "copies-differ-in-structure")
        .label_if(models.iter().any(|m| m.n[2..] != models[0].n[2..]), "copies-differ-in-shielded-structure")
        .label_if(states.iter().any(|s| s.io_finalized), "io-finalized-copy")
        .label_if(states.iter().any(|s| s.shielded_sigs > 0), "shielded-signature")
        .label_if(c.inject.is_some(), "injected-variant-element");
    for (ty, l) in [(0x01u8, "sighash:all"), (0x02, "sighash:none"), (0x03, "sighash:single"), (0x81, "sighash:all-anyonecanpay"), (0x82, "sighash:none-anyonecanpay"), (0x83, "sighash:single-anyonecanpay")] {
        obs = obs.label_if(sig_types.contains(&ty), l);
    }
    for k in roles {
        obs = obs.label(match k {
            "constructor" => "role:constructor",
            "signer" => "role:signer",
            "updater" => "role:updater",
            "redactor" => "role:redactor",
            "io-finalizer" => "role:io-finalizer",
            _ => "role:bytes",
        });
    }

    match &verdict {
        Verdict::Conflict(class, _) => {
            return Ok(obs
                .label("conflict")
                .label_if(*class == "structural-transparent", "combine-larger-into-frozen")
                .label_if(*class == "structural-transparent", "conflict:structural-transparent")
                .label_if(*class == "structural-shielded", "combine-larger-into-frozen")
                .label_if(*class == "structural-shielded", "conflict:structural-shielded")
                .label_if(*class == "data", "conflict:data"));
        }
        Verdict::Unspecified(_) => {
            obs = obs.label("unspecified:bsk-vs-other-structure");
            if !oks.is_empty() && !errs.is_empty() {
                // Candidate finding, reported to the lead; until it is listed in known_findings.json it is a
                // silent observation (DESIGN.md section 9.4), afterwards a counted KNOWN-FINDING.
                obs = obs.label(if ctx.known_hit(FINALIZED_VS_SHORTER) { "known:finalized-vs-shorter-copy-grouping-dependent" } else { "observation:finalized-vs-shorter-copy-grouping-dependent" });
            }
            if oks.is_empty() {
                return Ok(obs);
            }
        }
        Verdict::Combine => {}
    }

    // ---- one result
    let r0 = ser2(&oks[0].1);
    if matches!(verdict, Verdict::Combine) {
        for (oi, p) in &oks {
            vensure!(ser2(p) == r0, "combine-order-dependent", "order {:?} gives a different PCZT than order {:?}: {} [{}]", orders[*oi], orders[oks[0].0], first_diff(&format!("{p:#?}"), &format!("{:#?}", oks[0].1)), desc());
        }
    }
    for (oi, result) in oks.iter().take(if matches!(verdict, Verdict::Combine) { 1 } else { usize::MAX }) {
        let ord = &orders[*oi];
        let rm = model_of(result)?;
        // the longest lists
        for k in 0..6 {
            let want = models.iter().map(|m| m.n[k]).max().unwrap();
            vensure_eq!(rm.n[k], want, "combine-structure-wrong", "order {ord:?}: the combined PCZT has {} {}, the longest copy has {want} [{}]", rm.n[k], LIST_NAMES[k], desc());
        }
        // the flags: towards false / false / true / false
        let want = Flags {
            inp: final_flags.iter().all(|x| x.inp),
            out: final_flags.iter().all(|x| x.out),
            single: final_flags.iter().any(|x| x.single),
            sh: final_flags.iter().all(|x| x.sh),
        };
        vensure_eq!(rm.flags, want, "combine-flags-not-merged", "order {ord:?}: tx_modifiable of the combined PCZT vs the documented merge of {final_flags:?} [{}]", desc());
        // every field any copy carried, and nothing else
        let mut union: BTreeMap<String, Vec<u8>> = BTreeMap::new();
        for m in &models {
            for (k, v) in &m.content {
                union.entry(k.clone()).or_insert_with(|| v.clone());
            }
        }
        if union != rm.content {
            let missing: Vec<&String> = union.keys().filter(|k| !rm.content.contains_key(*k)).take(4).collect();
            let invented: Vec<&String> = rm.content.keys().filter(|k| !union.contains_key(*k)).take(4).collect();
            let changed: Vec<&String> = union.iter().filter(|(k, v)| rm.content.get(*k).map_or(false, |x| x != *v)).map(|(k, _)| k).take(4).collect();
            vfail!("combine-not-union", "order {ord:?}: the combined PCZT is not the field-wise union of the copies: missing {missing:?}, not carried by any copy {invented:?}, changed {changed:?} [{}]", desc());
        }
        // value sums: those of the copy with the most items
        for (bi, lists) in [(0usize, vec![2usize, 3]), (1, vec![4]), (2, vec![5])] {
            let best = models.iter().filter(|m| lists.iter().all(|k| m.n[*k] == rm.n[*k])).find_map(|m| m.value_sum[bi].clone());
            if let (Some(w), Some(g)) = (best, rm.value_sum[bi].clone()) {
                vensure!(g == w, "combine-value-sum-wrong", "order {ord:?}: value sum of bundle {bi} is {} but the copy with all its items says {} [{}]", hex::encode(&g), hex::encode(&w), desc());
            }
        }
        // the id: that of the transaction made of the longest lists (taken from the copies themselves)
        let mut graft = tree_of(&copies[0])?;
        for (bundle, ks) in [("transparent", vec![0usize, 1]), ("sapling", vec![2, 3]), ("orchard", vec![4]), ("ironwood", vec![5])] {
            if bundle == "transparent" {
                for (k, list) in [(0usize, "inputs"), (1, "outputs")] {
                    let src = models.iter().position(|m| m.n[k] == rm.n[k]).unwrap();
                    let st = tree_of(&copies[src])?;
                    if rm.n[k] > 0 {
                        if matches!(graft.f("transparent"), V::None) {
                            *graft.f_mut("transparent") = empty_transparent();
                        }
                        *graft.f_mut("transparent").f_mut(list) = st.f("transparent").f(list).clone();
                    }
                }
            } else if let Some(src) = models.iter().position(|m| ks.iter().all(|k| m.n[*k] == rm.n[*k])) {
                *graft.f_mut(bundle) = tree_of(&copies[src])?.f(bundle).clone();
            }
        }
        let want_txid = parse_tree(&graft).ok().and_then(|p| pczt_txid(&p).ok());
        if let (Some(w), Ok(g)) = (want_txid, pczt_txid(result)) {
            vensure_eq!(g, w, "combine-txid-changed", "order {ord:?}: the combined PCZT implies another id than the transaction made of the copies' longest item lists [{}]", desc());
            obs = obs.label("result-txid-checked");
            for (i, cp) in copies.iter().enumerate() {
                if models[i].n == rm.n {
                    if let Ok(t) = pczt_txid(cp) {
                        vensure_eq!(g, t, "combine-txid-changed", "order {ord:?}: copy {i} has the structure of the result but another id [{}]", desc());
                    }
                }
            }
        }
        // every signature carried over verifies under the COMBINED transaction
        match verify_own_signatures(result) {
            Err(e) => vfail!("signature-invalid-after-combine", "order {ord:?}: {} [{}]", e.msg, desc()),
            Ok(Some((nt, ns))) => obs = obs.count("result-signatures-verified", nt + ns).label_if(nt + ns > 0, "result-signatures-checked"),
            Ok(None) => {}
        }
    }
    if matches!(verdict, Verdict::Combine) {
        let result = &oks[0].1;
        for (i, cp) in copies.iter().enumerate() {
            let cc = combine(vec![cp.clone(), cp.clone()])?.map_err(|e| Fail::new("combine-not-idempotent", format!("combine(c,c) failed: {e:?} (copy {i}) [{}]", desc())))?;
            vensure!(ser2(&cc) == ser2(cp), "combine-not-idempotent", "combine(c,c) != c for copy {i} [{}]", desc());
            for (a, bb) in [(result.clone(), cp.clone()), (cp.clone(), result.clone())] {
                let ab = combine(vec![a, bb])?.map_err(|e| Fail::new("combine-not-absorbing", format!("combining the result with its own input {i} failed: {e:?} [{}]", desc())))?;
                vensure!(ser2(&ab) == r0, "combine-not-absorbing", "combining the result with its own input {i} changes it [{}]", desc());
            }
        }
        obs = obs.label("combined").label_if(differ_structure, "combined-different-structures").label_if(
            differ_structure && final_flags.iter().any(|x| !x.inp || !x.out || !x.sh),
            "combine-larger-into-open-with-frozen-other-side",
        );
    }
    Ok(obs)
}

// ---------------------------------------------------------------------------------------------
// Fixed cases (run by the `regression` sub-check)
// ---------------------------------------------------------------------------------------------

pub const N_FIXED: u64 = 8;

/// Selector that `pick_index` maps to `k` of `len`.
fn sel_for(k: usize, len: usize) -> u32 {
    ((((k as u64) << 32) / len as u64) + 1).min(u32::MAX as u64) as u32
}

/// Hand-written cases of the class; each must reach the named classification (generator health of
/// the fixed list) and pass every oracle of `check_structure`.
pub fn check_fixed(ctx: &Ctx, i: u64) -> CaseResult {
    let plain = |own: Option<(u32, u32, u32)>, steps: Vec<CStep>| CopyPlan { own, steps };
    let mut c = StructCase {
        base_sel: 0,
        creator: Some(i % 2 == 1),
        seed: 0xC13 + i,
        extra_in: 2,
        extra_out: 2,
        sighash: [0; 8],
        uniform_sighash: Some(0),
        n: 2,
        common: (sel_for(1, 3), sel_for(1, 3), 0),
        copies: vec![plain(None, vec![CStep::Sign(0, 0)]), plain(None, vec![]), plain(None, vec![]), plain(None, vec![])],
        inject: None,
        io_copy: 0,
        order_seed: i,
    };
    // F has 2 inputs and 2 outputs; the common structure is 1 input, 1 output
    let more_outputs = Some((sel_for(1, 3), sel_for(2, 3), 0));
    let more_inputs = Some((sel_for(2, 3), sel_for(1, 3), 0));
    let want: &'static str = match i {
        // ALL|ANYONECANPAY freezes the outputs: a copy with one more output conflicts (the seeded example)
        0 => {
            c.uniform_sighash = Some(3);
            c.copies[1].own = more_outputs;
            "conflict:structural-transparent"
        }
        // ... but leaves the inputs open
        1 => {
            c.uniform_sighash = Some(3);
            c.copies[1].own = more_inputs;
            "combined-different-structures"
        }
        // NONE freezes the inputs and leaves the outputs open
        2 => {
            c.uniform_sighash = Some(1);
            c.copies[1].own = more_outputs;
            "combined-different-structures"
        }
        3 => {
            c.uniform_sighash = Some(1);
            c.copies[1].own = more_inputs;
            "conflict:structural-transparent"
        }
        // SINGLE|ANYONECANPAY: outputs frozen, pairing flag set
        4 => {
            c.uniform_sighash = Some(5);
            c.copies[1].own = more_outputs;
            "flags:has-sighash-single"
        }
        // a fully signed (ALL) copy and an older, unsigned, shorter one
        5 => {
            c.uniform_sighash = Some(0);
            c.common = (u32::MAX, u32::MAX, 0);
            c.copies[0].steps = vec![CStep::SignAll];
            c.copies[1].own = Some((sel_for(1, 3), sel_for(1, 3), 0));
            "combined-different-structures"
        }
        // NONE|ANYONECANPAY leaves both open; the other copy extends both lists
        6 => {
            c.uniform_sighash = Some(4);
            c.copies[1].own = Some((u32::MAX, u32::MAX, 0));
            "combined-different-structures"
        }
        // IO-finalized copy (bsk set) + unfinalized copy of the same structure + shorter open copy:
        // `Bundle::merge` refuses (finalized, shorter) directly but accepts the three in the order
        // shorter, unfinalized, finalized. Recorded, not asserted (see `Verdict::Unspecified`).
        _ => {
            c.creator = None;
            c.base_sel = sel_for(4, super::n_bases(ctx)); // template 4: Orchard spends and outputs (v5)
            c.extra_in = 0;
            c.extra_out = 0;
            let b = base::base(ctx.seed, 4);
            let f = build_full(Some(&b), &c)?;
            vensure!(f.chain.len() >= 2 && f.shielded_ok, "harness-wire-tree", "template 4 has at least two Orchard actions whose value sum the harness reproduces");
            let l = f.chain.len();
            c.n = 3;
            c.common = (u32::MAX, u32::MAX, u32::MAX);
            c.copies[0] = plain(Some((u32::MAX, u32::MAX, sel_for(l - 1, l + 1))), vec![]);
            c.copies[1] = plain(None, vec![]);
            c.copies[2] = plain(None, vec![CStep::IoFinalize]);
            c.io_copy = 2;
            "unspecified:bsk-vs-other-structure"
        }
    };
    let obs = check_structure(ctx, &c)?;
    vensure!(obs.labels.contains(&want), "harness-fixed-case-misclassified", "fixed structure case {i} did not reach '{want}': labels {:?}", obs.labels);
    if i == 7 {
        vensure!(obs.labels.contains(&"io-finalized-copy"), "harness-fixed-case-misclassified", "fixed structure case 7: the IO Finalizer did not run: {:?}", obs.labels);
    }
    Ok(Obs { key: 5000 + i, ..obs })
}

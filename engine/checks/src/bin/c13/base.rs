//! Base PCZTs for C13: small real transactions built through
//! `Builder::build_for_pczt` (or `DeferredPcztBuilder`) -> `Creator::build_from_parts` -> `IoFinalizer`.
//!
//! A base is a deterministic function of `(run seed, base index)`; the index is drawn by the proptest
//! strategy, so cases replay. Bases are cached per process (each costs tens of milliseconds).

use std::collections::BTreeMap;
use std::convert::Infallible;
use std::sync::{Arc, Mutex, OnceLock};

use incrementalmerkletree::{Position, Retention};
use pczt::roles::{creator::Creator, io_finalizer::IoFinalizer};
use pczt::Pczt;
use rand_chacha::ChaCha20Rng;
use rand_core::{RngCore, SeedableRng};
use shardtree::{store::memory::MemoryShardStore, ShardTree};
use zcash_primitives::transaction::{
    builder::{BuildConfig, Builder, BundlePadding, DeferredPcztBuilder, PcztParts, PcztResult},
    fees::zip317,
    txid::{to_txid, TxIdDigester},
    TransactionData, TxVersion,
};
use zcash_protocol::{
    consensus::BlockHeight,
    local_consensus::LocalNetwork,
    memo::MemoBytes,
    value::{ZatBalance, Zatoshis},
    TxId,
};
use zcash_transparent::{
    address::TransparentAddress,
    bundle::{OutPoint, TxOut},
    keys::NonHardenedChildIndex,
    zip48,
};

pub const TARGET_HEIGHT: u32 = 10_000_000;

#[derive(Clone, Copy, Debug, PartialEq, Eq, PartialOrd, Ord)]
pub enum Fmt {
    /// v5 transaction (NU6.2), v1-encodable unless something forces v2.
    V5,
    /// v6 transaction (NU6.3) with anchors and witnesses supplied by the builder.
    V6,
    /// v6 transaction built by `DeferredPcztBuilder`: anchors and real-spend witnesses ABSENT.
    V6Deferred,
}

/// The generated request. Counts are of *requested* spends/outputs; padding adds dummies.
#[derive(Clone, Debug)]
pub struct Shape {
    pub fmt: Fmt,
    pub t_in: u8,
    pub p2sh: bool,
    pub t_out: u8,
    pub s_in: u8,
    pub s_out: u8,
    pub o_in: u8,
    pub o_out: u8,
    pub i_in: u8,
    pub i_out: u8,
    pub unpadded: bool,
    pub memo_len: u16,
    pub no_ovk: bool,
}

pub fn network(v6: bool) -> LocalNetwork {
    LocalNetwork {
        overwinter: Some(BlockHeight::from_u32(1)),
        sapling: Some(BlockHeight::from_u32(2)),
        blossom: Some(BlockHeight::from_u32(3)),
        heartwood: Some(BlockHeight::from_u32(4)),
        canopy: Some(BlockHeight::from_u32(5)),
        nu5: Some(BlockHeight::from_u32(6)),
        nu6: Some(BlockHeight::from_u32(7)),
        nu6_1: Some(BlockHeight::from_u32(8)),
        nu6_2: Some(BlockHeight::from_u32(9)),
        nu6_3: if v6 { Some(BlockHeight::from_u32(10)) } else { None },
    }
}


pub struct Base {
    pub idx: u32,
    pub shape: Shape,
    /// `Creator::build_from_parts` output, before the IO Finalizer.
    pub pre_io: Pczt,
    /// IO-finalized PCZT: the value every party copy derives from.
    pub pczt: Pczt,
    /// Transaction id computed from the builder's `PcztParts` directly (no pczt-crate code involved).
    pub txid_parts: TxId,
    /// Shielded and per-input transparent (SIGHASH_ALL) signature hashes, computed the same way.
    pub sighash_parts: [u8; 32],
    pub t_sighash_parts: Vec<[u8; 32]>,
    pub v6: bool,
    /// Secret keys able to sign each transparent input (P2PKH: 1, P2SH 2-of-3: 3).
    pub t_sks: Vec<Vec<secp256k1::SecretKey>>,
    pub s_extsk: Option<sapling::zip32::ExtendedSpendingKey>,
    pub s_spend_idx: Vec<usize>,
    pub o_sk: Option<orchard::keys::SpendingKey>,
    pub o_spend_idx: Vec<usize>,
    pub i_sk: Option<orchard::keys::SpendingKey>,
    pub i_spend_idx: Vec<usize>,
    /// Actions whose spend still needs a signature after IO finalization: the requested spends plus
    /// the zero-valued wallet spends that accompany change outputs in the restricted Orchard pool.
    pub o_sign_idx: Vec<usize>,
    pub i_sign_idx: Vec<usize>,
    /// Anchors and real-spend witnesses of the request (installed by the builder, or ABSENT from
    /// the PCZT when `deferred`).
    pub deferred: bool,
    pub s_anchor: sapling::Anchor,
    pub s_paths: Vec<sapling::MerklePath>,
    pub o_anchor: orchard::Anchor,
    pub o_paths: Vec<orchard::tree::MerklePath>,
    pub i_anchor: orchard::Anchor,
    pub i_paths: Vec<orchard::tree::MerklePath>,
    /// Action indices of the requested (non-dummy) outputs and the memo they carry.
    pub o_out_idx: Vec<usize>,
    pub i_out_idx: Vec<usize>,
    pub memo: [u8; 512],
    /// Per action: does `replace_enc_ciphertext_with_decrypted_memo_plaintext` recover a memo (its
    /// documentation allows it to leave undecryptable outputs, e.g. padding, unchanged)? Observed once.
    pub o_memo_ok: Vec<bool>,
    pub i_memo_ok: Vec<bool>,
    pub p2sh: Vec<bool>,
    /// Requested value balance (inputs - outputs) of the transparent, Sapling, Orchard, Ironwood parts.
    pub vb: [i64; 4],
    /// Deterministic signature cache: (key debug string, variant) -> signature bytes.
    pub sig_cache: Mutex<BTreeMap<(String, u8), Vec<u8>>>,
    /// Observed inventory: does removing this key (Debug form) change the base's bytes?
    pub has_cache: Mutex<BTreeMap<String, bool>>,
    // item counts as present in the PCZT (after padding)
    pub n_tin: usize,
    pub n_tout: usize,
    pub n_sspend: usize,
    pub n_sout: usize,
    pub n_oact: usize,
    pub n_iact: usize,
}

fn rnd(rng: &mut ChaCha20Rng, n: u64) -> u64 {
    // n small; modulo bias is irrelevant here and the stream stays deterministic
    rng.next_u64() % n.max(1)
}

fn bytes32(rng: &mut ChaCha20Rng) -> [u8; 32] {
    let mut b = [0u8; 32];
    rng.fill_bytes(&mut b);
    b
}

pub fn gen_shape(rng: &mut ChaCha20Rng, idx: u32) -> Shape {
    // The first indices force one base per template so that every class is always present.
    let template = if idx < 14 { idx as u64 } else { rnd(rng, 14) };
    let c12 = |rng: &mut ChaCha20Rng| 1 + rnd(rng, 2) as u8; // 1..=2
    let c02 = |rng: &mut ChaCha20Rng| rnd(rng, 3) as u8; // 0..=2
    let mut s = Shape {
        fmt: Fmt::V5,
        t_in: 0,
        p2sh: false,
        t_out: 0,
        s_in: 0,
        s_out: 0,
        o_in: 0,
        o_out: 0,
        i_in: 0,
        i_out: 0,
        unpadded: rnd(rng, 4) == 0,
        memo_len: match rnd(rng, 4) {
            0 => 0,
            1 => 1 + rnd(rng, 20) as u16,
            2 => 512,
            _ => 100 + rnd(rng, 300) as u16,
        },
        no_ovk: rnd(rng, 5) == 0,
    };
    match template {
        0 => {
            s.t_in = c12(rng);
            s.t_out = c12(rng);
        }
        1 => {
            s.t_in = c12(rng);
            s.o_out = c12(rng);
            s.t_out = c02(rng).min(1);
        }
        2 => {
            s.t_in = c12(rng);
            s.s_out = c12(rng);
        }
        3 => {
            s.s_in = c12(rng);
            s.s_out = c12(rng);
            s.o_out = c02(rng).min(1);
        }
        4 => {
            s.o_in = c12(rng);
            s.o_out = c12(rng);
            s.t_out = c02(rng).min(1);
        }
        5 => {
            s.t_in = 1;
            s.s_in = 1;
            s.o_in = 1;
            s.t_out = 1;
            s.s_out = 1;
            s.o_out = 1;
        }
        6 => {
            s.p2sh = true;
            s.t_in = c02(rng).min(1);
            s.o_out = 1;
            s.t_out = c02(rng).min(1);
        }
        7 => {
            s.fmt = Fmt::V6;
            s.t_in = c12(rng);
            s.i_out = c12(rng);
            s.t_out = c02(rng).min(1);
        }
        8 => {
            s.fmt = Fmt::V6;
            s.i_in = c12(rng);
            s.i_out = c12(rng);
            s.t_out = c02(rng).min(1);
        }
        9 => {
            s.fmt = Fmt::V6;
            s.o_in = c12(rng);
            s.o_out = c02(rng).min(1); // change back to the spending key only
            s.i_out = c12(rng);
        }
        10 => {
            s.fmt = Fmt::V6;
            s.s_in = 1;
            s.s_out = c02(rng).min(1);
            s.i_out = 1;
            s.t_in = c02(rng).min(1);
        }
        11 => {
            s.fmt = Fmt::V6;
            s.t_in = c12(rng);
            s.t_out = c12(rng);
        }
        12 => {
            s.fmt = Fmt::V6Deferred;
            s.o_in = c12(rng);
            s.o_out = c02(rng).min(1);
            s.i_out = c12(rng);
        }
        _ => {
            s.fmt = Fmt::V6Deferred;
            s.i_in = c12(rng);
            s.i_out = c12(rng);
            s.o_in = c02(rng).min(1);
        }
    }
    s
}

struct TIn {
    sks: Vec<secp256k1::SecretKey>,
    outpoint: OutPoint,
    coin: TxOut,
    p2sh: bool,
}

struct Plan {
    shape: Shape,
    v6: bool,
    t_ins: Vec<TIn>,
    p2sh_fvk: Option<zip48::FullViewingKey>,
    t_outs: Vec<(TransparentAddress, u64)>,
    s_extsk: sapling::zip32::ExtendedSpendingKey,
    s_notes: Vec<(sapling::Note, sapling::MerklePath)>,
    s_anchor: sapling::Anchor,
    s_outs: Vec<u64>,
    o_sk: orchard::keys::SpendingKey,
    o_notes: Vec<(orchard::Note, orchard::tree::MerklePath)>,
    o_anchor: orchard::Anchor,
    o_outs: Vec<u64>,
    i_sk: orchard::keys::SpendingKey,
    i_notes: Vec<(orchard::Note, orchard::tree::MerklePath)>,
    i_anchor: orchard::Anchor,
    i_outs: Vec<u64>,
    memo: MemoBytes,
    total_in: u64,
}

fn secret_key(rng: &mut ChaCha20Rng) -> secp256k1::SecretKey {
    loop {
        if let Ok(sk) = secp256k1::SecretKey::from_slice(&bytes32(rng)) {
            return sk;
        }
    }
}

fn orchard_sk(rng: &mut ChaCha20Rng) -> orchard::keys::SpendingKey {
    loop {
        if let Some(sk) = Option::from(orchard::keys::SpendingKey::from_bytes(bytes32(rng))) {
            return sk;
        }
    }
}

fn orchard_note(
    rng: &mut ChaCha20Rng,
    addr: orchard::Address,
    value: u64,
    version: orchard::note::NoteVersion,
) -> orchard::Note {
    loop {
        let mut rho_b = bytes32(rng);
        rho_b[31] &= 0x3f; // < 2^254 < p
        let Some(rho): Option<orchard::note::Rho> = Option::from(orchard::note::Rho::from_bytes(&rho_b)) else {
            continue;
        };
        let Some(rseed): Option<orchard::note::RandomSeed> =
            Option::from(orchard::note::RandomSeed::from_bytes(bytes32(rng), &rho))
        else {
            continue;
        };
        if let Some(n) = Option::from(orchard::Note::from_parts(
            addr,
            orchard::value::NoteValue::from_raw(value),
            rho,
            rseed,
            version,
        )) {
            return n;
        }
    }
}

fn orchard_tree(
    rng: &mut ChaCha20Rng,
    notes: &[orchard::Note],
) -> (orchard::Anchor, Vec<orchard::tree::MerklePath>) {
    use orchard::tree::MerkleHashOrchard;
    let mut tree = ShardTree::<_, 32, 16>::new(MemoryShardStore::<MerkleHashOrchard, u32>::empty(), 100);
    // a few foreign leaves first so that positions are not all zero
    let pre = rnd(rng, 3);
    let mut positions = vec![];
    let mut leaves = vec![];
    let mut pos = 0u64;
    for _ in 0..pre {
        let mut b = bytes32(rng);
        b[31] &= 0x3f;
        let cmx: orchard::note::ExtractedNoteCommitment =
            Option::from(orchard::note::ExtractedNoteCommitment::from_bytes(&b)).expect("below modulus");
        tree.append(MerkleHashOrchard::from_cmx(&cmx), Retention::Ephemeral).unwrap();
        pos += 1;
    }
    for n in notes {
        let cmx: orchard::note::ExtractedNoteCommitment = n.commitment().into();
        let leaf = MerkleHashOrchard::from_cmx(&cmx);
        tree.append(leaf, Retention::Marked).unwrap();
        positions.push(pos);
        leaves.push(leaf);
        pos += 1;
    }
    if notes.is_empty() {
        return (orchard::Anchor::empty_tree(), vec![]);
    }
    tree.checkpoint(TARGET_HEIGHT - 1).unwrap();
    let mut paths = vec![];
    let mut anchor = None;
    for (p, leaf) in positions.iter().zip(leaves.iter()) {
        let mp = tree.witness_at_checkpoint_depth(Position::from(*p), 0).unwrap().unwrap();
        let root = mp.root(*leaf);
        let a: orchard::Anchor = root.into();
        if let Some(prev) = anchor {
            assert!(prev == a, "witnesses of one tree share the root");
        }
        anchor = Some(a);
        paths.push(mp.into());
    }
    (anchor.unwrap(), paths)
}

fn sapling_tree(
    rng: &mut ChaCha20Rng,
    notes: &[sapling::Note],
) -> (sapling::Anchor, Vec<sapling::MerklePath>) {
    let mut tree = ShardTree::<_, 32, 16>::new(MemoryShardStore::<sapling::Node, u32>::empty(), 100);
    if notes.is_empty() {
        return (sapling::Anchor::empty_tree(), vec![]);
    }
    let pre = rnd(rng, 3);
    let mut pos = 0u64;
    // foreign leaves: commitments of throw-away notes
    for _ in 0..pre {
        let extsk = sapling::zip32::ExtendedSpendingKey::master(&bytes32(rng));
        let addr = extsk.to_diversifiable_full_viewing_key().default_address().1;
        let n = sapling::Note::from_parts(
            addr,
            sapling::value::NoteValue::from_raw(1 + rnd(rng, 1000)),
            sapling::Rseed::AfterZip212(bytes32(rng)),
        );
        tree.append(sapling::Node::from_cmu(&n.cmu()), Retention::Ephemeral).unwrap();
        pos += 1;
    }
    let mut positions = vec![];
    let mut leaves = vec![];
    for n in notes {
        let leaf = sapling::Node::from_cmu(&n.cmu());
        tree.append(leaf, Retention::Marked).unwrap();
        positions.push(pos);
        leaves.push(leaf);
        pos += 1;
    }
    tree.checkpoint(TARGET_HEIGHT - 1).unwrap();
    let mut paths = vec![];
    let mut anchor: Option<sapling::Anchor> = None;
    for (p, leaf) in positions.iter().zip(leaves.iter()) {
        let mp = tree.witness_at_checkpoint_depth(Position::from(*p), 0).unwrap().unwrap();
        let a: sapling::Anchor = mp.root(*leaf).into();
        if let Some(prev) = anchor {
            assert!(prev == a);
        }
        anchor = Some(a);
        paths.push(mp);
    }
    (anchor.unwrap(), paths)
}

fn make_plan(rng: &mut ChaCha20Rng, shape: Shape) -> Plan {
    let v6 = shape.fmt != Fmt::V5;
    let params = network(v6);
    let in_value = |rng: &mut ChaCha20Rng| 1_000_000 + rnd(rng, 4_000_000);
    let out_value = |rng: &mut ChaCha20Rng| 10_000 + rnd(rng, 100_000);
    let mut total_in = 0u64;

    // transparent inputs
    let secp = secp256k1::Secp256k1::new();
    let mut t_ins = vec![];
    let mut p2sh_fvk = None;
    if shape.p2sh {
        let sks: Vec<zip48::AccountPrivKey> = (0..3)
            .map(|_| zip48::AccountPrivKey::from_seed(&params, &bytes32(rng), zip32::AccountId::ZERO).unwrap())
            .collect();
        let key_info = sks.iter().map(|sk| sk.to_account_pubkey()).collect();
        let fvk = zip48::FullViewingKey::standard(std::num::NonZeroU8::new(2).unwrap(), key_info).unwrap();
        let (addr, _redeem) = fvk.derive_address(zip32::Scope::External, NonHardenedChildIndex::ZERO);
        let mut signing: Vec<secp256k1::SecretKey> = sks
            .iter()
            .map(|sk| sk.derive_signing_key(zip32::Scope::External, NonHardenedChildIndex::ZERO))
            .collect();
        // `sortedmulti` orders the keys by their compressed encoding; keep the same order here so
        // that "slot k" is the k-th key of the redeem script.
        signing.sort_by_key(|sk| sk.public_key(&secp).serialize());
        let v = in_value(rng);
        total_in += v;
        p2sh_fvk = Some(fvk);
        t_ins.push(TIn {
            sks: signing,
            outpoint: OutPoint::new(bytes32(rng), rnd(rng, 4) as u32),
            coin: TxOut::new(Zatoshis::from_u64(v).unwrap(), addr.script().into()),
            p2sh: true,
        });
    }
    for _ in 0..shape.t_in {
        let sk = secret_key(rng);
        let pk = sk.public_key(&secp);
        let addr = TransparentAddress::from_pubkey(&pk);
        let v = in_value(rng);
        total_in += v;
        t_ins.push(TIn {
            sks: vec![sk],
            outpoint: OutPoint::new(bytes32(rng), rnd(rng, 4) as u32),
            coin: TxOut::new(Zatoshis::from_u64(v).unwrap(), addr.script().into()),
            p2sh: false,
        });
    }
    let t_outs = (0..shape.t_out)
        .map(|_| {
            let mut h = [0u8; 20];
            rng.fill_bytes(&mut h);
            let addr = if rnd(rng, 3) == 0 {
                TransparentAddress::ScriptHash(h)
            } else {
                TransparentAddress::PublicKeyHash(h)
            };
            (addr, out_value(rng))
        })
        .collect();

    // sapling
    let s_extsk = sapling::zip32::ExtendedSpendingKey::master(&bytes32(rng));
    let s_addr = s_extsk.to_diversifiable_full_viewing_key().default_address().1;
    let s_raw: Vec<sapling::Note> = (0..shape.s_in)
        .map(|_| {
            let v = in_value(rng);
            total_in += v;
            sapling::Note::from_parts(
                s_addr,
                sapling::value::NoteValue::from_raw(v),
                sapling::Rseed::AfterZip212(bytes32(rng)),
            )
        })
        .collect();
    let (s_anchor, s_paths) = sapling_tree(rng, &s_raw);
    let s_notes = s_raw.into_iter().zip(s_paths).collect();
    let s_outs = (0..shape.s_out).map(|_| out_value(rng)).collect();

    // orchard
    let o_sk = orchard_sk(rng);
    let o_fvk = orchard::keys::FullViewingKey::from(&o_sk);
    let o_addr = o_fvk.address_at(0u32, orchard::keys::Scope::External);
    let o_raw: Vec<orchard::Note> = (0..shape.o_in)
        .map(|_| {
            let v = in_value(rng);
            total_in += v;
            orchard_note(rng, o_addr, v, orchard::note::NoteVersion::V2)
        })
        .collect();
    let (o_anchor, o_paths) = orchard_tree(rng, &o_raw);
    let o_notes = o_raw.into_iter().zip(o_paths).collect();
    let o_outs = (0..shape.o_out).map(|_| out_value(rng)).collect();

    // ironwood
    let i_sk = orchard_sk(rng);
    let i_fvk = orchard::keys::FullViewingKey::from(&i_sk);
    let i_addr = i_fvk.address_at(0u32, orchard::keys::Scope::External);
    let i_raw: Vec<orchard::Note> = (0..shape.i_in)
        .map(|_| {
            let v = in_value(rng);
            total_in += v;
            orchard_note(rng, i_addr, v, orchard::note::NoteVersion::V3)
        })
        .collect();
    let (i_anchor, i_paths) = orchard_tree(rng, &i_raw);
    let i_notes = i_raw.into_iter().zip(i_paths).collect();
    let i_outs = (0..shape.i_out).map(|_| out_value(rng)).collect();

    let memo = {
        let mut m = vec![0u8; shape.memo_len as usize];
        rng.fill_bytes(&mut m);
        if let Some(f) = m.first_mut() {
            // arbitrary-data memo (0xFF prefix) so that every byte string is a valid memo
            *f = 0xFF;
        }
        if shape.memo_len == 0 {
            MemoBytes::empty()
        } else {
            MemoBytes::from_bytes(&m).unwrap()
        }
    };

    Plan {
        shape,
        v6,
        t_ins,
        p2sh_fvk,
        t_outs,
        s_extsk,
        s_notes,
        s_anchor,
        s_outs,
        o_sk,
        o_notes,
        o_anchor,
        o_outs,
        i_sk,
        i_notes,
        i_anchor,
        i_outs,
        memo,
        total_in,
    }
}

/// Which output list absorbs the remainder (the last entry of that list).
#[derive(Clone, Copy, PartialEq)]
enum Sink {
    T,
    S,
    O,
    I,
}

fn sink_of(p: &Plan) -> Sink {
    if !p.i_outs.is_empty() {
        Sink::I
    } else if !p.o_outs.is_empty() {
        Sink::O
    } else if !p.s_outs.is_empty() {
        Sink::S
    } else {
        assert!(!p.t_outs.is_empty(), "every shape has an output");
        Sink::T
    }
}

type BErr = zcash_primitives::transaction::builder::Error<Infallible>;

fn z(v: u64) -> Zatoshis {
    Zatoshis::from_u64(v).unwrap()
}

fn populate_standard(p: &Plan, sink_value: u64) -> Result<Builder<LocalNetwork, ()>, String> {
    let sink = sink_of(p);
    let needs_s = !p.s_notes.is_empty() || !p.s_outs.is_empty();
    let needs_o = !p.o_notes.is_empty() || !p.o_outs.is_empty();
    let needs_i = !p.i_notes.is_empty() || !p.i_outs.is_empty();
    let padding = if p.shape.unpadded { BundlePadding::UNPADDED } else { BundlePadding::DEFAULT };
    let mut b = Builder::new(
        network(p.v6),
        BlockHeight::from_u32(TARGET_HEIGHT),
        BuildConfig::Standard {
            sapling_anchor: needs_s.then_some(p.s_anchor),
            orchard_anchor: needs_o.then_some(p.o_anchor),
            ironwood_anchor: needs_i.then_some(p.i_anchor),
            orchard_padding: padding,
            ironwood_padding: padding,
        },
    );
    for t in &p.t_ins {
        if t.p2sh {
            let (_, redeem) = p
                .p2sh_fvk
                .as_ref()
                .unwrap()
                .derive_address(zip32::Scope::External, NonHardenedChildIndex::ZERO);
            b.add_transparent_p2sh_input(redeem.weaken(), t.outpoint.clone(), t.coin.clone())
                .map_err(|e| format!("p2sh input: {e:?}"))?;
        } else {
            let secp = secp256k1::Secp256k1::new();
            b.add_transparent_p2pkh_input(t.sks[0].public_key(&secp), t.outpoint.clone(), t.coin.clone())
                .map_err(|e| format!("p2pkh input: {e:?}"))?;
        }
    }
    let last = |i: usize, n: usize, s: Sink| s == sink && i + 1 == n;
    for (i, (addr, v)) in p.t_outs.iter().enumerate() {
        let v = if last(i, p.t_outs.len(), Sink::T) { sink_value } else { *v };
        b.add_transparent_output(addr, z(v)).map_err(|e| format!("t out: {e:?}"))?;
    }
    // sapling
    let s_dfvk = p.s_extsk.to_diversifiable_full_viewing_key();
    for (n, mp) in &p.s_notes {
        b.add_sapling_spend::<Infallible>(s_dfvk.fvk().clone(), n.clone(), mp.clone())
            .map_err(|e: BErr| format!("s spend: {e:?}"))?;
    }
    for (i, v) in p.s_outs.iter().enumerate() {
        let v = if last(i, p.s_outs.len(), Sink::S) { sink_value } else { *v };
        let ovk = (!p.shape.no_ovk).then(|| s_dfvk.to_ovk(zip32::Scope::External));
        let to = if i % 2 == 0 {
            s_dfvk.default_address().1
        } else {
            p.s_extsk.derive_internal().to_diversifiable_full_viewing_key().default_address().1
        };
        b.add_sapling_output::<Infallible>(ovk, to, z(v), p.memo.clone())
            .map_err(|e: BErr| format!("s out: {e:?}"))?;
    }
    // orchard
    let o_fvk = orchard::keys::FullViewingKey::from(&p.o_sk);
    for (n, mp) in &p.o_notes {
        b.add_orchard_spend::<Infallible>(o_fvk.clone(), *n, mp.clone())
            .map_err(|e: BErr| format!("o spend: {e:?}"))?;
    }
    for (i, v) in p.o_outs.iter().enumerate() {
        let v = if last(i, p.o_outs.len(), Sink::O) { sink_value } else { *v };
        let ovk = (!p.shape.no_ovk).then(|| o_fvk.to_ovk(orchard::keys::Scope::External));
        if p.v6 {
            // cross-address transfers are disabled in the post-NU6.3 Orchard pool: change only
            b.add_orchard_change_output::<Infallible>(
                o_fvk.clone(),
                ovk,
                o_fvk.address_at(0u32, orchard::keys::Scope::External),
                z(v),
                p.memo.clone(),
            )
            .map_err(|e: BErr| format!("o change: {e:?}"))?;
        } else {
            let to = orchard::keys::FullViewingKey::from(&p.i_sk).address_at(i as u32, orchard::keys::Scope::External);
            b.add_orchard_output::<Infallible>(ovk, to, z(v), p.memo.clone())
                .map_err(|e: BErr| format!("o out: {e:?}"))?;
        }
    }
    // ironwood
    let i_fvk = orchard::keys::FullViewingKey::from(&p.i_sk);
    for (n, mp) in &p.i_notes {
        b.add_ironwood_spend::<Infallible>(i_fvk.clone(), *n, mp.clone())
            .map_err(|e: BErr| format!("i spend: {e:?}"))?;
    }
    for (i, v) in p.i_outs.iter().enumerate() {
        let v = if last(i, p.i_outs.len(), Sink::I) { sink_value } else { *v };
        let ovk = (!p.shape.no_ovk).then(|| i_fvk.to_ovk(orchard::keys::Scope::External));
        let to = i_fvk.address_at(i as u32, orchard::keys::Scope::External);
        b.add_ironwood_output::<Infallible>(ovk, to, z(v), p.memo.clone())
            .map_err(|e: BErr| format!("i out: {e:?}"))?;
    }
    Ok(b)
}

fn populate_deferred(p: &Plan, sink_value: u64) -> Result<DeferredPcztBuilder<LocalNetwork>, String> {
    let sink = sink_of(p);
    let padding = if p.shape.unpadded { BundlePadding::UNPADDED } else { BundlePadding::DEFAULT };
    let mut b = DeferredPcztBuilder::new::<Infallible>(
        network(true),
        BlockHeight::from_u32(TARGET_HEIGHT),
        padding,
        padding,
    )
    .map_err(|e| format!("deferred new: {e:?}"))?;
    let last = |i: usize, n: usize, s: Sink| s == sink && i + 1 == n;
    let o_fvk = orchard::keys::FullViewingKey::from(&p.o_sk);
    for (n, _) in &p.o_notes {
        b.add_orchard_spend::<Infallible>(o_fvk.clone(), *n).map_err(|e| format!("o spend: {e:?}"))?;
    }
    for (i, v) in p.o_outs.iter().enumerate() {
        let v = if last(i, p.o_outs.len(), Sink::O) { sink_value } else { *v };
        let ovk = (!p.shape.no_ovk).then(|| o_fvk.to_ovk(orchard::keys::Scope::External));
        b.add_orchard_change_output::<Infallible>(
            o_fvk.clone(),
            ovk,
            o_fvk.address_at(0u32, orchard::keys::Scope::External),
            z(v),
            p.memo.clone(),
        )
        .map_err(|e| format!("o change: {e:?}"))?;
    }
    let i_fvk = orchard::keys::FullViewingKey::from(&p.i_sk);
    for (n, _) in &p.i_notes {
        b.add_ironwood_spend::<Infallible>(i_fvk.clone(), *n).map_err(|e| format!("i spend: {e:?}"))?;
    }
    for (i, v) in p.i_outs.iter().enumerate() {
        let v = if last(i, p.i_outs.len(), Sink::I) { sink_value } else { *v };
        let ovk = (!p.shape.no_ovk).then(|| i_fvk.to_ovk(orchard::keys::Scope::External));
        b.add_ironwood_output::<Infallible>(ovk, i_fvk.address_at(i as u32, orchard::keys::Scope::External), z(v), p.memo.clone())
            .map_err(|e| format!("i out: {e:?}"))?;
    }
    Ok(b)
}

/// Transaction id from the builder's parts only (transparent / sapling / orchard crates'
/// `extract_effects` + `TransactionData` digests); no `pczt` crate code.
pub fn txid_from_parts(parts: &PcztParts<LocalNetwork>) -> (TxId, [u8; 32], Vec<[u8; 32]>) {
    let t = parts.transparent.as_ref().and_then(|b| b.extract_effects().expect("effects"));
    let s = parts.sapling.as_ref().and_then(|b| b.extract_effects::<ZatBalance>().expect("effects"));
    let o = parts.orchard.as_ref().and_then(|b| b.extract_effects::<ZatBalance>().expect("effects"));
    let i = parts.ironwood.as_ref().and_then(|b| b.extract_effects::<ZatBalance>().expect("effects"));
    let txd: TransactionData<pczt::EffectsOnly> = match parts.version {
        TxVersion::V6 => TransactionData::from_parts_v6(parts.consensus_branch_id, parts.lock_time, parts.expiry_height, t, s, o, i),
        v => {
            assert!(i.is_none());
            TransactionData::from_parts(v, parts.consensus_branch_id, parts.lock_time, parts.expiry_height, t, None, s, o)
        }
    };
    let d = txd.digest(TxIdDigester);
    use zcash_primitives::transaction::sighash::SignableInput;
    use zcash_primitives::transaction::{sighash_v5::v5_signature_hash, sighash_v6::v6_signature_hash};
    let signature_hash = |txd: &TransactionData<pczt::EffectsOnly>, si: &SignableInput, d| -> [u8; 32] {
        match txd.version() {
            TxVersion::V6 => v6_signature_hash(txd, si, d).as_ref().try_into().unwrap(),
            _ => v5_signature_hash(txd, si, d).as_ref().try_into().unwrap(),
        }
    };
    let shielded: [u8; 32] = signature_hash(&txd, &SignableInput::Shielded, &d);
    let transparent = parts
        .transparent
        .as_ref()
        .map(|t| {
            t.inputs()
                .iter()
                .enumerate()
                .map(|(i, inp)| inp.with_signable_input(i, |si| signature_hash(&txd, &SignableInput::Transparent(si), &d)))
                .collect()
        })
        .unwrap_or_default();
    (to_txid(txd.version(), txd.consensus_branch_id(), &d), shielded, transparent)
}

pub fn build_base(seed: u64, idx: u32) -> Result<Base, String> {
    let mut st = blake2b_simd::Params::new().hash_length(32).to_state();
    st.update(b"C13-base");
    st.update(&seed.to_le_bytes());
    st.update(&idx.to_le_bytes());
    let mut s = [0u8; 32];
    s.copy_from_slice(st.finalize().as_bytes());
    let mut rng = ChaCha20Rng::from_seed(s);
    let shape = gen_shape(&mut rng, idx);
    let plan = make_plan(&mut rng, shape.clone());
    let fixed_out: u64 = {
        let sink = sink_of(&plan);
        let sum = |v: &Vec<u64>, s: Sink| -> u64 {
            let n = v.len();
            v.iter().enumerate().filter(|(i, _)| !(s == sink && i + 1 == n)).map(|(_, v)| *v).sum()
        };
        let t: u64 = plan
            .t_outs
            .iter()
            .enumerate()
            .filter(|(i, _)| !(sink == Sink::T && i + 1 == plan.t_outs.len()))
            .map(|(_, (_, v))| *v)
            .sum();
        t + sum(&plan.s_outs, Sink::S) + sum(&plan.o_outs, Sink::O) + sum(&plan.i_outs, Sink::I)
    };
    let fee_rule = zip317::FeeRule::standard();
    let build_rng = ChaCha20Rng::from_seed(bytes32(&mut rng));
    let sink_used;
    let result: PcztResult<LocalNetwork> = if plan.shape.fmt == Fmt::V6Deferred {
        let fee = populate_deferred(&plan, 1)?.get_fee(&fee_rule).map_err(|e| format!("fee: {e:?}"))?;
        let sink_value = plan
            .total_in
            .checked_sub(fixed_out + fee.into_u64())
            .ok_or_else(|| "inputs too small".to_string())?;
        sink_used = sink_value;
        populate_deferred(&plan, sink_value)?
            .build_for_pczt(build_rng, &fee_rule)
            .map_err(|e| format!("build_for_pczt(deferred): {e:?}"))?
    } else {
        let fee = populate_standard(&plan, 1)?.get_fee(&fee_rule).map_err(|e| format!("fee: {e:?}"))?;
        let sink_value = plan
            .total_in
            .checked_sub(fixed_out + fee.into_u64())
            .ok_or_else(|| "inputs too small".to_string())?;
        sink_used = sink_value;
        populate_standard(&plan, sink_value)?
            .build_for_pczt(build_rng, &fee_rule)
            .map_err(|e| format!("build_for_pczt: {e:?}"))?
    };
    // requested value balance of each pool (inputs - outputs): transparent, sapling, orchard, ironwood
    let vb: [i64; 4] = {
        let sink = sink_of(&plan);
        let outs = |v: &Vec<u64>, s: Sink| -> i64 {
            let n = v.len();
            v.iter().enumerate().map(|(i, x)| if s == sink && i + 1 == n { sink_used } else { *x }).sum::<u64>() as i64
        };
        let t_out: Vec<u64> = plan.t_outs.iter().map(|(_, v)| *v).collect();
        let t_in: i64 = plan.t_ins.iter().map(|t| t.coin.value().into_u64() as i64).sum();
        let s_in: i64 = plan.s_notes.iter().map(|(n, _)| n.value().inner() as i64).sum();
        let o_in: i64 = plan.o_notes.iter().map(|(n, _)| n.value().inner() as i64).sum();
        let i_in: i64 = plan.i_notes.iter().map(|(n, _)| n.value().inner() as i64).sum();
        [
            t_in - outs(&t_out, Sink::T),
            s_in - outs(&plan.s_outs, Sink::S),
            o_in - outs(&plan.o_outs, Sink::O),
            i_in - outs(&plan.i_outs, Sink::I),
        ]
    };
    let PcztResult { pczt_parts, sapling_meta, orchard_meta, ironwood_meta } = result;
    let (txid_parts, sighash_parts, t_sighash_parts) = txid_from_parts(&pczt_parts);
    let pre_io = Creator::build_from_parts(pczt_parts).ok_or_else(|| "build_from_parts returned None".to_string())?;
    let pczt = IoFinalizer::new(pre_io.clone()).finalize_io().map_err(|e| format!("finalize_io: {e:?}"))?;

    let s_spend_idx = (0..plan.s_notes.len()).map(|i| sapling_meta.spend_index(i).unwrap()).collect();
    let o_spend_idx: Vec<usize> = (0..plan.o_notes.len()).map(|i| orchard_meta.spend_action_index(i).unwrap()).collect();
    let i_spend_idx: Vec<usize> = (0..plan.i_notes.len()).map(|i| ironwood_meta.spend_action_index(i).unwrap()).collect();
    let deferred = plan.shape.fmt == Fmt::V6Deferred;
    let o_out_idx: Vec<usize> = (0..plan.o_outs.len()).map(|i| orchard_meta.output_action_index(i).unwrap()).collect();
    let i_out_idx: Vec<usize> = (0..plan.i_outs.len()).map(|i| ironwood_meta.output_action_index(i).unwrap()).collect();
    let memo_ok = |ironwood: bool| -> Vec<bool> {
        use pczt::roles::redactor::Redactor;
        let red = Redactor::new(pczt.clone());
        let f = |version| {
            move |mut o: pczt::roles::redactor::orchard::OrchardRedactor<'_>| {
                o.redact_actions(|mut a| a.replace_enc_ciphertext_with_decrypted_memo_plaintext(version));
            }
        };
        let p = if ironwood {
            red.redact_ironwood_with(f(orchard::note::NoteVersion::V3)).finish()
        } else {
            red.redact_orchard_with(f(orchard::note::NoteVersion::V2)).finish()
        };
        let bundle = if ironwood { p.ironwood() } else { p.orchard() };
        bundle
            .actions()
            .iter()
            .map(|a| matches!(a.output().enc_ciphertext(), pczt::orchard::EncCiphertext::MemoPlaintext(_)))
            .collect()
    };
    let (o_memo_ok, i_memo_ok) = (memo_ok(false), memo_ok(true));
    let unsigned = |bundle: &pczt::orchard::Bundle| -> Vec<usize> {
        bundle.actions().iter().enumerate().filter(|(_, a)| a.spend().spend_auth_sig().is_none()).map(|(i, _)| i).collect()
    };
    let (o_sign_idx, i_sign_idx) = (unsigned(pczt.orchard()), unsigned(pczt.ironwood()));
    for i in &o_spend_idx {
        assert!(o_sign_idx.contains(i), "requested Orchard spends are unsigned after IO finalization");
    }
    for i in &i_spend_idx {
        assert!(i_sign_idx.contains(i), "requested Ironwood spends are unsigned after IO finalization");
    }
    Ok(Base {
        idx,
        o_memo_ok,
        i_memo_ok,
        v6: plan.v6,
        t_sks: plan.t_ins.iter().map(|t| t.sks.clone()).collect(),
        s_extsk: (!plan.s_notes.is_empty()).then(|| plan.s_extsk.clone()),
        s_spend_idx,
        o_sk: (!o_sign_idx.is_empty()).then_some(plan.o_sk),
        o_spend_idx,
        i_sk: (!i_sign_idx.is_empty()).then_some(plan.i_sk),
        i_spend_idx,
        o_sign_idx,
        i_sign_idx,
        deferred,
        s_anchor: plan.s_anchor,
        s_paths: plan.s_notes.iter().map(|(_, p)| p.clone()).collect(),
        o_anchor: plan.o_anchor,
        o_paths: plan.o_notes.iter().map(|(_, p)| p.clone()).collect(),
        i_anchor: plan.i_anchor,
        i_paths: plan.i_notes.iter().map(|(_, p)| p.clone()).collect(),
        o_out_idx,
        i_out_idx,
        memo: plan.memo.clone().into_bytes(),
        p2sh: plan.t_ins.iter().map(|t| t.p2sh).collect(),
        vb,
        sig_cache: Mutex::new(BTreeMap::new()),
        has_cache: Mutex::new(BTreeMap::new()),
        n_tin: pczt.transparent().inputs().len(),
        n_tout: pczt.transparent().outputs().len(),
        n_sspend: pczt.sapling().spends().len(),
        n_sout: pczt.sapling().outputs().len(),
        n_oact: pczt.orchard().actions().len(),
        n_iact: pczt.ironwood().actions().len(),
        shape,
        pre_io,
        pczt,
        txid_parts,
        sighash_parts,
        t_sighash_parts,
    })
}

static CACHE: OnceLock<Mutex<BTreeMap<(u64, u32), Arc<Base>>>> = OnceLock::new();

/// Cached base lookup. A failure to build is a harness/generator defect and panics with the reason.
pub fn base(seed: u64, idx: u32) -> Arc<Base> {
    let cache = CACHE.get_or_init(|| Mutex::new(BTreeMap::new()));
    if let Some(b) = cache.lock().unwrap().get(&(seed, idx)) {
        return b.clone();
    }
    let b = Arc::new(build_base(seed, idx).unwrap_or_else(|e| panic!("base {idx} (seed {seed}) cannot be built: {e}")));
    cache.lock().unwrap().entry((seed, idx)).or_insert(b).clone()
}

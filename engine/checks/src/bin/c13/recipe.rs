//! Field-level model of what a party's copy of a base PCZT carries, and the code that turns such a
//! model into a real `Pczt` by running the public roles (Updater, Signer, low-level Signer,
//! Spend Finalizer, Redactor) on the base.
//!
//! The Combiner law is then `combine(materialise(m1), .., materialise(mn)) == materialise(m1 ∪ .. ∪ mn)`
//! where the union is computed HERE, on the recipes, never by looking at the Combiner.

use std::collections::{BTreeMap, BTreeSet};

use pczt::roles::{
    low_level_signer, redactor::Redactor, signer::Signer, spend_finalizer::SpendFinalizer, updater::Updater,
};
use pczt::Pczt;
use rand_chacha::ChaCha20Rng;
use rand_core::SeedableRng;
use vcore::Fail;

use super::base::Base;

#[derive(Clone, Copy, Debug, PartialEq, Eq, PartialOrd, Ord, Hash)]
pub enum Pool {
    Orchard,
    Ironwood,
}

#[derive(Clone, Copy, Debug, PartialEq, Eq, PartialOrd, Ord, Hash)]
pub enum SSp {
    Zkproof,
    Sig,
    Recipient,
    Value,
    Rcm,
    Rseed,
    Rcv,
    Pgk,
    Witness,
    Alpha,
    Zip32,
    DummyAsk,
}
pub const SSP_ALL: [SSp; 12] = [
    SSp::Zkproof,
    SSp::Sig,
    SSp::Recipient,
    SSp::Value,
    SSp::Rcm,
    SSp::Rseed,
    SSp::Rcv,
    SSp::Pgk,
    SSp::Witness,
    SSp::Alpha,
    SSp::Zip32,
    SSp::DummyAsk,
];

#[derive(Clone, Copy, Debug, PartialEq, Eq, PartialOrd, Ord, Hash)]
pub enum SOut {
    Zkproof,
    Recipient,
    Value,
    Rseed,
    Rcv,
    Ock,
    Zip32,
    UserAddr,
}
pub const SOUT_ALL: [SOut; 8] = [
    SOut::Zkproof,
    SOut::Recipient,
    SOut::Value,
    SOut::Rseed,
    SOut::Rcv,
    SOut::Ock,
    SOut::Zip32,
    SOut::UserAddr,
];

#[derive(Clone, Copy, Debug, PartialEq, Eq, PartialOrd, Ord, Hash)]
pub enum OA {
    CvNet,
    Cmx,
    Sig,
    SpRecipient,
    SpValue,
    SpRho,
    SpRseed,
    SpFvk,
    SpWitness,
    SpAlpha,
    SpZip32,
    SpDummySk,
    OutRecipient,
    OutValue,
    OutRseed,
    OutOck,
    OutZip32,
    OutUserAddr,
    Rcv,
    /// Representation of `enc_ciphertext`: 0 = encrypted, 1 = stripped memo plaintext.
    EncRepr,
}
pub const OA_ALL: [OA; 20] = [
    OA::CvNet,
    OA::Cmx,
    OA::Sig,
    OA::SpRecipient,
    OA::SpValue,
    OA::SpRho,
    OA::SpRseed,
    OA::SpFvk,
    OA::SpWitness,
    OA::SpAlpha,
    OA::SpZip32,
    OA::SpDummySk,
    OA::OutRecipient,
    OA::OutValue,
    OA::OutRseed,
    OA::OutOck,
    OA::OutZip32,
    OA::OutUserAddr,
    OA::Rcv,
    OA::EncRepr,
];

/// One optional field of a PCZT (or one key of one of its maps).
#[derive(Clone, Copy, Debug, PartialEq, Eq, PartialOrd, Ord, Hash)]
pub enum Key {
    GProp(u8),
    TInScriptSig(u8),
    TInRedeem(u8),
    TInSig(u8, u8),
    TInBip32(u8, u8),
    TInRipemd(u8, u8),
    TInSha256(u8, u8),
    TInHash160(u8, u8),
    TInHash256(u8, u8),
    TInProp(u8, u8),
    TOutRedeem(u8),
    TOutBip32(u8, u8),
    TOutUserAddr(u8),
    TOutProp(u8, u8),
    SBsk,
    SAnchor,
    SSp(u8, SSp),
    SSpProp(u8, u8),
    SOut(u8, SOut),
    SOutProp(u8, u8),
    OBsk(Pool),
    OAnchor(Pool),
    OZkproof(Pool),
    OAct(Pool, u8, OA),
    OSpProp(Pool, u8, u8),
    OOutProp(Pool, u8, u8),
}

pub const N_PROP: u8 = 3;
pub const N_SLOT: u8 = 2;
/// Slot of `hash160_preimages` that holds the input's own public key (needed by
/// `append_transparent_signature` on P2PKH inputs).
pub const OWN_PK_SLOT: u8 = 2;

impl Key {
    pub fn bundle(&self) -> u8 {
        match self {
            Key::GProp(_) => 0,
            Key::TInScriptSig(_)
            | Key::TInRedeem(_)
            | Key::TInSig(..)
            | Key::TInBip32(..)
            | Key::TInRipemd(..)
            | Key::TInSha256(..)
            | Key::TInHash160(..)
            | Key::TInHash256(..)
            | Key::TInProp(..)
            | Key::TOutRedeem(_)
            | Key::TOutBip32(..)
            | Key::TOutUserAddr(_)
            | Key::TOutProp(..) => 1,
            Key::SBsk | Key::SAnchor | Key::SSp(..) | Key::SSpProp(..) | Key::SOut(..) | Key::SOutProp(..) => 2,
            Key::OBsk(p) | Key::OAnchor(p) | Key::OZkproof(p) | Key::OAct(p, ..) | Key::OSpProp(p, ..) | Key::OOutProp(p, ..) => {
                if *p == Pool::Orchard {
                    3
                } else {
                    4
                }
            }
        }
    }

    /// Field kind without indices (for the non-triviality rule and the histogram).
    pub fn kind(&self) -> String {
        match self {
            Key::GProp(_) => "global.proprietary".into(),
            Key::TInScriptSig(_) => "t.in.script_sig".into(),
            Key::TInRedeem(_) => "t.in.redeem_script".into(),
            Key::TInSig(..) => "t.in.partial_signatures".into(),
            Key::TInBip32(..) => "t.in.bip32_derivation".into(),
            Key::TInRipemd(..) => "t.in.ripemd160_preimages".into(),
            Key::TInSha256(..) => "t.in.sha256_preimages".into(),
            Key::TInHash160(..) => "t.in.hash160_preimages".into(),
            Key::TInHash256(..) => "t.in.hash256_preimages".into(),
            Key::TInProp(..) => "t.in.proprietary".into(),
            Key::TOutRedeem(_) => "t.out.redeem_script".into(),
            Key::TOutBip32(..) => "t.out.bip32_derivation".into(),
            Key::TOutUserAddr(_) => "t.out.user_address".into(),
            Key::TOutProp(..) => "t.out.proprietary".into(),
            Key::SBsk => "s.bsk".into(),
            Key::SAnchor => "s.anchor".into(),
            Key::SSp(_, k) => format!("s.spend.{k:?}"),
            Key::SSpProp(..) => "s.spend.proprietary".into(),
            Key::SOut(_, k) => format!("s.out.{k:?}"),
            Key::SOutProp(..) => "s.out.proprietary".into(),
            Key::OBsk(_) => "o.bsk".into(),
            Key::OAnchor(_) => "o.anchor".into(),
            Key::OZkproof(_) => "o.zkproof".into(),
            Key::OAct(_, _, k) => format!("o.action.{k:?}"),
            Key::OSpProp(..) => "o.spend.proprietary".into(),
            Key::OOutProp(..) => "o.out.proprietary".into(),
        }
    }
}

/// Every key that exists for this base (all indices, all slots).
pub fn universe(b: &Base) -> Vec<Key> {
    let mut u = vec![];
    for k in 0..N_PROP {
        u.push(Key::GProp(k));
    }
    for i in 0..b.n_tin as u8 {
        u.push(Key::TInScriptSig(i));
        u.push(Key::TInRedeem(i));
        for s in 0..b.t_sks[i as usize].len() as u8 {
            u.push(Key::TInSig(i, s));
        }
        for s in 0..N_SLOT {
            u.push(Key::TInBip32(i, s));
            u.push(Key::TInRipemd(i, s));
            u.push(Key::TInSha256(i, s));
            u.push(Key::TInHash160(i, s));
            u.push(Key::TInHash256(i, s));
        }
        u.push(Key::TInHash160(i, OWN_PK_SLOT));
        for k in 0..N_PROP {
            u.push(Key::TInProp(i, k));
        }
    }
    for i in 0..b.n_tout as u8 {
        u.push(Key::TOutRedeem(i));
        u.push(Key::TOutUserAddr(i));
        for s in 0..N_SLOT {
            u.push(Key::TOutBip32(i, s));
        }
        for k in 0..N_PROP {
            u.push(Key::TOutProp(i, k));
        }
    }
    u.push(Key::SBsk);
    u.push(Key::SAnchor);
    for i in 0..b.n_sspend as u8 {
        for k in SSP_ALL {
            u.push(Key::SSp(i, k));
        }
        for k in 0..N_PROP {
            u.push(Key::SSpProp(i, k));
        }
    }
    for i in 0..b.n_sout as u8 {
        for k in SOUT_ALL {
            u.push(Key::SOut(i, k));
        }
        for k in 0..N_PROP {
            u.push(Key::SOutProp(i, k));
        }
    }
    for (pool, n) in [(Pool::Orchard, b.n_oact), (Pool::Ironwood, b.n_iact)] {
        u.push(Key::OBsk(pool));
        u.push(Key::OAnchor(pool));
        u.push(Key::OZkproof(pool));
        for i in 0..n as u8 {
            for k in OA_ALL {
                u.push(Key::OAct(pool, i, k));
            }
            for k in 0..N_PROP {
                u.push(Key::OSpProp(pool, i, k));
                u.push(Key::OOutProp(pool, i, k));
            }
        }
    }
    u
}

pub fn memo_ok(b: &Base, pool: Pool, i: u8) -> bool {
    match pool {
        Pool::Orchard => b.o_memo_ok[i as usize],
        Pool::Ironwood => b.i_memo_ok[i as usize],
    }
}

pub fn sign_idx(b: &Base, pool: Pool) -> &[usize] {
    match pool {
        Pool::Orchard => &b.o_sign_idx,
        Pool::Ironwood => &b.i_sign_idx,
    }
}

fn real_spends(b: &Base, pool: Pool) -> &[usize] {
    match pool {
        Pool::Orchard => &b.o_spend_idx,
        Pool::Ironwood => &b.i_spend_idx,
    }
}

/// Number of distinct values a role can SET this key to (0 = the key can only be kept or removed).
pub fn set_vals(b: &Base, k: &Key) -> u8 {
    match *k {
        Key::GProp(_) | Key::TInProp(..) | Key::TOutProp(..) | Key::SSpProp(..) | Key::SOutProp(..) | Key::OSpProp(..) | Key::OOutProp(..) => 3,
        Key::TInRedeem(i) => b.p2sh[i as usize] as u8,
        Key::TInSig(i, s) => {
            if (s as usize) < b.t_sks[i as usize].len() {
                2
            } else {
                0
            }
        }
        Key::TInBip32(..) | Key::TOutBip32(..) | Key::TOutUserAddr(_) => 2,
        Key::TInRipemd(..) | Key::TInSha256(..) | Key::TInHash256(..) => 1,
        Key::TInHash160(_, s) => (s != OWN_PK_SLOT) as u8,
        Key::TInScriptSig(_) | Key::TOutRedeem(_) | Key::SBsk | Key::OBsk(_) | Key::OZkproof(_) => 0,
        Key::SAnchor | Key::OAnchor(_) => {
            if b.v6 {
                2
            } else {
                0
            }
        }
        Key::SSp(i, kind) => match kind {
            SSp::Sig | SSp::Witness => {
                if b.s_spend_idx.contains(&(i as usize)) {
                    2
                } else {
                    0
                }
            }
            SSp::Pgk | SSp::Zip32 => 2,
            _ => 0,
        },
        Key::SOut(_, kind) => match kind {
            SOut::Zip32 | SOut::UserAddr => 2,
            _ => 0,
        },
        Key::OAct(pool, i, kind) => match kind {
            OA::Sig => {
                if sign_idx(b, pool).contains(&(i as usize)) {
                    2
                } else {
                    0
                }
            }
            OA::SpWitness => {
                if real_spends(b, pool).contains(&(i as usize)) {
                    2
                } else {
                    0
                }
            }
            OA::SpZip32 | OA::OutZip32 | OA::OutUserAddr => 2,
            OA::EncRepr => memo_ok(b, pool, i) as u8,
            _ => 0,
        },
    }
}

/// What a copy is asked to do with one key.
#[derive(Clone, Copy, Debug, PartialEq, Eq)]
pub enum St {
    Keep,
    Absent,
    Set(u8),
}

/// What a copy effectively carries for one key.
#[derive(Clone, Copy, Debug, PartialEq, Eq, PartialOrd, Ord)]
pub enum Eff {
    Absent,
    /// Whatever the base carries (possibly nothing); only for keys no role can set.
    Base,
    Val(u8),
}

/// State of `k` in the base, or in the base after the Spend Finalizer ran with designated-signature
/// variant `fin`.
pub fn base_eff(b: &Base, k: &Key, fin: Option<u8>) -> Eff {
    match *k {
        Key::TInRedeem(i) => {
            if b.p2sh[i as usize] && fin.is_none() {
                Eff::Val(0)
            } else {
                Eff::Absent
            }
        }
        Key::TInScriptSig(_) => match fin {
            Some(v) => Eff::Val(v),
            None => Eff::Absent,
        },
        Key::SAnchor => {
            if b.n_sspend + b.n_sout > 0 {
                Eff::Val(0)
            } else {
                Eff::Absent
            }
        }
        Key::OAnchor(pool) => {
            let n = if pool == Pool::Orchard { b.n_oact } else { b.n_iact };
            if n > 0 && !b.deferred {
                Eff::Val(0)
            } else {
                Eff::Absent
            }
        }
        Key::SSp(i, SSp::Witness) if b.s_spend_idx.contains(&(i as usize)) => Eff::Val(0),
        Key::OAct(pool, i, OA::SpWitness) if real_spends(b, pool).contains(&(i as usize)) => {
            if b.deferred {
                Eff::Absent
            } else {
                Eff::Val(0)
            }
        }
        Key::OAct(_, _, OA::EncRepr) => Eff::Val(0),
        _ => {
            if set_vals(b, k) > 0 {
                Eff::Absent
            } else {
                Eff::Base
            }
        }
    }
}

/// The recipe of one copy.
#[derive(Clone, Debug, Default)]
pub struct Recipe {
    /// Run the Spend Finalizer (after signing the designated inputs with variant `v`).
    pub fin: Option<u8>,
    pub st: BTreeMap<Key, St>,
}

impl Recipe {
    /// Normalises requests the roles cannot honour and adds implied keys.
    pub fn normalise(&mut self, b: &Base) {
        let keys: Vec<Key> = self.st.keys().copied().collect();
        for k in keys {
            let s = self.st[&k];
            let n = set_vals(b, &k);
            let s2 = match (k, s) {
                (Key::OAct(_, _, OA::EncRepr), St::Set(_)) if n > 0 => St::Set(1),
                (Key::OAct(_, _, OA::EncRepr), St::Set(_)) => St::Keep,
                (Key::OAct(_, _, OA::EncRepr), St::Absent) => St::Keep,
                (_, St::Set(_)) if n == 0 => St::Absent,
                (_, St::Set(v)) => St::Set(v % n),
                (_, s) => s,
            };
            self.st.insert(k, s2);
        }
        // An externally produced signature on a P2PKH input needs the public key as a HASH160 preimage.
        let implied: Vec<Key> = self
            .st
            .iter()
            .filter_map(|(k, s)| match (k, s) {
                (Key::TInSig(i, 0), St::Set(1)) if !b.p2sh[*i as usize] => Some(Key::TInHash160(*i, OWN_PK_SLOT)),
                _ => None,
            })
            .collect();
        // `Signer::{sign,apply}_sapling*` needs the spend's proof generation key (documented); the
        // party installs the real one first unless it carries a foreign one (then it signs through
        // the low-level Signer, which has no such requirement).
        let implied_pgk: Vec<Key> = self
            .st
            .iter()
            .filter_map(|(k, s)| match (k, s) {
                (Key::SSp(i, SSp::Sig), St::Set(0)) if !matches!(self.st.get(&Key::SSp(*i, SSp::Pgk)), Some(St::Set(1))) => {
                    Some(Key::SSp(*i, SSp::Pgk))
                }
                _ => None,
            })
            .collect();
        for k in implied.into_iter().chain(implied_pgk) {
            // added for signing in any case; it stays unless the copy redacts it afterwards
            let e = self.st.entry(k).or_insert(St::Set(0));
            if *e == St::Keep {
                *e = St::Set(0);
            }
        }
        if b.n_tin == 0 {
            self.fin = None;
        }
    }

    pub fn eff(&self, b: &Base, k: &Key) -> Eff {
        match self.st.get(k).copied().unwrap_or(St::Keep) {
            St::Keep => base_eff(b, k, self.fin),
            St::Absent => Eff::Absent,
            St::Set(v) => Eff::Val(v),
        }
    }
}

/// Keys on which the copies can differ: every touched key plus those the Spend Finalizer changes.
pub fn touched(b: &Base, recipes: &[Recipe]) -> BTreeSet<Key> {
    let mut k: BTreeSet<Key> = recipes.iter().flat_map(|r| r.st.keys().copied()).collect();
    if recipes.iter().any(|r| r.fin.is_some()) {
        for i in 0..b.n_tin as u8 {
            k.insert(Key::TInScriptSig(i));
            k.insert(Key::TInRedeem(i));
        }
    }
    k
}

pub enum Union {
    /// Two copies carry different values for this key.
    Conflict(Key, u8, u8),
    Ok(Recipe),
}

/// Field-wise union of the recipes (computed on the model only).
pub fn union(b: &Base, recipes: &[Recipe]) -> Union {
    let keys = touched(b, recipes);
    // The expected value is finalized iff some copy still carries a script_sig.
    let mut out = Recipe::default();
    let mut effs: BTreeMap<Key, Eff> = BTreeMap::new();
    for k in &keys {
        let mut vals = BTreeSet::new();
        let mut any_base = false;
        for r in recipes {
            match r.eff(b, k) {
                Eff::Val(v) => {
                    vals.insert(v);
                }
                Eff::Base => any_base = true,
                Eff::Absent => {}
            }
        }
        if vals.len() > 1 {
            let mut it = vals.iter();
            return Union::Conflict(*k, *it.next().unwrap(), *it.next().unwrap());
        }
        let e = match vals.iter().next() {
            Some(v) => Eff::Val(*v),
            None if any_base => Eff::Base,
            None => Eff::Absent,
        };
        effs.insert(*k, e);
    }
    let fin = (0..b.n_tin as u8).find_map(|i| match effs.get(&Key::TInScriptSig(i)) {
        Some(Eff::Val(v)) => Some(*v),
        _ => None,
    });
    out.fin = fin;
    for (k, e) in effs {
        let st = match e {
            Eff::Absent => St::Absent,
            Eff::Base => St::Keep,
            Eff::Val(v) => {
                if base_eff(b, &k, fin) == Eff::Val(v) {
                    St::Keep
                } else {
                    St::Set(v)
                }
            }
        };
        out.st.insert(k, st);
    }
    Union::Ok(out)
}

// ---------------------------------------------------------------------------------------------
// Values
// ---------------------------------------------------------------------------------------------

pub fn prop_key(k: u8) -> String {
    format!("c13.example/k{k}")
}
pub fn prop_val(k: u8, v: u8) -> Vec<u8> {
    let mut x = vec![k, v];
    x.extend(std::iter::repeat(0xA0 + v).take(v as usize * 3));
    x
}
fn seed_fp(v: u8) -> [u8; 32] {
    [0x40 + v; 32]
}
fn hardened_path(v: u8) -> Vec<u32> {
    vec![32 | 0x8000_0000, 133 | 0x8000_0000, (v as u32) | 0x8000_0000]
}
fn bip32_path(v: u8) -> Vec<u32> {
    vec![44 | 0x8000_0000, 133 | 0x8000_0000, 0x8000_0000, v as u32, 5]
}
fn user_addr(v: u8) -> String {
    format!("c13-user-address-{v}")
}
fn preimage(slot: u8) -> Vec<u8> {
    format!("c13-preimage-{slot}").into_bytes()
}
fn other_pubkey(slot: u8) -> [u8; 33] {
    let secp = secp256k1::Secp256k1::new();
    secp256k1::SecretKey::from_slice(&[slot + 1; 32]).unwrap().public_key(&secp).serialize()
}
fn own_pubkey(b: &Base, i: u8, slot: u8) -> [u8; 33] {
    let secp = secp256k1::Secp256k1::new();
    b.t_sks[i as usize][slot as usize].public_key(&secp).serialize()
}
fn in_bip32_pubkey(b: &Base, i: u8, slot: u8) -> [u8; 33] {
    if slot == 0 {
        own_pubkey(b, i, 0)
    } else {
        other_pubkey(slot)
    }
}

fn key_rng(b: &Base, tag: &str, v: u8) -> ChaCha20Rng {
    let mut st = blake2b_simd::Params::new().hash_length(32).to_state();
    st.update(b"C13-sig");
    st.update(&b.idx.to_le_bytes());
    st.update(tag.as_bytes());
    st.update(&[v]);
    let mut s = [0u8; 32];
    s.copy_from_slice(st.finalize().as_bytes());
    ChaCha20Rng::from_seed(s)
}

#[derive(Debug)]
#[allow(dead_code)]
pub enum LErr {
    SParse(pczt::sapling::ParseError),
    OParse(low_level_signer::OrchardParseError),
    TParse(zcash_transparent::pczt::ParseError),
    SSign(sapling::pczt::SignerError),
    OSign(orchard::pczt::SignerError),
    Missing,
}
impl From<pczt::sapling::ParseError> for LErr {
    fn from(e: pczt::sapling::ParseError) -> Self {
        LErr::SParse(e)
    }
}
impl From<low_level_signer::OrchardParseError> for LErr {
    fn from(e: low_level_signer::OrchardParseError) -> Self {
        LErr::OParse(e)
    }
}
impl From<zcash_transparent::pczt::ParseError> for LErr {
    fn from(e: zcash_transparent::pczt::ParseError) -> Self {
        LErr::TParse(e)
    }
}

fn role_err<E: std::fmt::Debug>(what: &str) -> impl Fn(E) -> Fail + '_ {
    move |e| Fail::new("role-rejected-valid-request", format!("{what} failed on a request built inside its documented domain: {e:?}"))
}

/// The shielded sighash of the base (what every shielded signature signs).
pub fn shielded_sighash(b: &Base) -> Result<[u8; 32], Fail> {
    Ok(Signer::new(b.pczt.clone()).map_err(role_err("Signer::new(base)"))?.shielded_sighash())
}

/// A spend authorization signature for a real Sapling spend, deterministic in (base, index, variant).
pub fn sapling_sig(b: &Base, i: u8, v: u8) -> Result<[u8; 64], Fail> {
    let tag = format!("s{i}");
    if let Some(s) = b.sig_cache.lock().unwrap().get(&(tag.clone(), v)) {
        return Ok(s.clone().try_into().unwrap());
    }
    let sighash = shielded_sighash(b)?;
    let ask = b.s_extsk.as_ref().expect("real spend").expsk.ask.clone();
    let mut out = None;
    let rng = key_rng(b, &tag, v);
    low_level_signer::Signer::new(b.pczt.clone())
        .sign_sapling_with::<LErr, _>(|_, bundle, _| {
            let sp = bundle.spends_mut().get_mut(i as usize).ok_or(LErr::Missing)?;
            sp.sign(sighash, &ask, rng).map_err(LErr::SSign)?;
            out = (*sp.spend_auth_sig()).map(<[u8; 64]>::from);
            Ok(())
        })
        .map_err(role_err("low_level_signer::sign_sapling_with"))?;
    let sig = out.ok_or_else(|| Fail::new("role-rejected-valid-request", "sapling sign left no signature"))?;
    b.sig_cache.lock().unwrap().insert((tag, v), sig.to_vec());
    Ok(sig)
}

pub fn orchard_sig(b: &Base, pool: Pool, i: u8, v: u8) -> Result<[u8; 64], Fail> {
    let tag = format!("{pool:?}{i}");
    if let Some(s) = b.sig_cache.lock().unwrap().get(&(tag.clone(), v)) {
        return Ok(s.clone().try_into().unwrap());
    }
    let sighash = shielded_sighash(b)?;
    let sk = match pool {
        Pool::Orchard => b.o_sk.as_ref(),
        Pool::Ironwood => b.i_sk.as_ref(),
    }
    .expect("real spend");
    let ask = orchard::keys::SpendAuthorizingKey::from(sk);
    let mut out = None;
    let rng = key_rng(b, &tag, v);
    let f = |_: &Pczt, bundle: &mut orchard::pczt::Bundle, _: &mut u8| -> Result<(), LErr> {
        let a = bundle.actions_mut().get_mut(i as usize).ok_or(LErr::Missing)?;
        a.sign(sighash, &ask, rng).map_err(LErr::OSign)?;
        out = a.spend().spend_auth_sig().as_ref().map(<[u8; 64]>::from);
        Ok(())
    };
    let s = low_level_signer::Signer::new(b.pczt.clone());
    match pool {
        Pool::Orchard => s.sign_orchard_with::<LErr, _>(f).map(|_| ()),
        Pool::Ironwood => s.sign_ironwood_with::<LErr, _>(f).map(|_| ()),
    }
    .map_err(role_err("low_level_signer::sign_{orchard,ironwood}_with"))?;
    let sig = out.ok_or_else(|| Fail::new("role-rejected-valid-request", "orchard sign left no signature"))?;
    b.sig_cache.lock().unwrap().insert((tag, v), sig.to_vec());
    Ok(sig)
}

fn alt_sapling_path(p: &sapling::MerklePath) -> sapling::MerklePath {
    let mut elems = p.path_elems().to_vec();
    elems.swap(0, 1);
    sapling::MerklePath::from_parts(elems, p.position()).expect("32 elements")
}
fn alt_orchard_path(p: &orchard::tree::MerklePath) -> orchard::tree::MerklePath {
    let mut a = p.auth_path();
    a.swap(0, 1);
    orchard::tree::MerklePath::from_parts(p.position(), a)
}
fn alt_anchor_bytes(v: u8) -> [u8; 32] {
    // a canonical field element for both curves, different from the real anchors
    let mut a = [0u8; 32];
    a[0] = 0x11 + v;
    a[1] = 0x22;
    a
}

/// Designated signer slots used before the Spend Finalizer: (slot, signature variant).
fn fin_slots(b: &Base, i: usize, v: u8) -> Vec<(u8, u8)> {
    if b.p2sh[i] {
        if v == 0 {
            vec![(0, 0), (1, 0)]
        } else {
            vec![(1, 0), (2, 0)]
        }
    } else {
        vec![(0, v)]
    }
}

fn add_own_pk_preimages(p: Pczt, b: &Base, inputs: &[u8]) -> Result<Pczt, Fail> {
    if inputs.is_empty() {
        return Ok(p);
    }
    Ok(Updater::new(p)
        .update_transparent_with(|mut u| {
            for i in inputs {
                u.update_input_with(*i as usize, |mut iu| {
                    iu.set_hash160_preimage(own_pubkey(b, *i, 0).to_vec());
                    Ok(())
                })?;
            }
            Ok(())
        })
        .map_err(role_err("Updater::update_transparent_with(hash160 preimage)"))?
        .finish())
}

/// Applies transparent signatures: variant 0 through `sign_transparent`, variant 1 as an externally
/// produced signature (other nonce) through `append_transparent_signature`.
fn sign_transparent(p: Pczt, b: &Base, sigs: &[(u8, u8, u8)]) -> Result<Pczt, Fail> {
    if sigs.is_empty() {
        return Ok(p);
    }
    let secp = secp256k1::Secp256k1::new();
    let mut signer = Signer::new(p).map_err(role_err("Signer::new"))?;
    for (i, slot, v) in sigs {
        let sk = &b.t_sks[*i as usize][*slot as usize];
        if *v == 0 {
            signer.sign_transparent(*i as usize, sk).map_err(role_err("Signer::sign_transparent"))?;
        } else {
            let h = signer.transparent_sighash(*i as usize).map_err(role_err("Signer::transparent_sighash"))?;
            let msg = secp256k1::Message::from_digest(h);
            let sig = secp.sign_ecdsa_with_noncedata(&msg, sk, &[0x5a; 32]);
            signer
                .append_transparent_signature(*i as usize, sig)
                .map_err(role_err("Signer::append_transparent_signature"))?;
        }
    }
    Ok(signer.finish())
}

/// Builds the PCZT a recipe describes by running roles on the base.
pub fn materialise(b: &Base, r: &Recipe) -> Result<Pczt, Fail> {
    apply_to(b, b.pczt.clone(), r)
}

/// Runs the roles a recipe asks for on `p` (a PCZT of base `b`'s lineage). A role returning `Err`
/// yields a `Fail` with signature `role-rejected-valid-request` (callers that apply recipes outside
/// the roles' documented domains treat that signature as "the role refused").
pub fn apply_to(b: &Base, p: Pczt, r: &Recipe) -> Result<Pczt, Fail> {
    let mut p = p;
    let want = |k: &Key| -> Option<u8> {
        match r.st.get(k) {
            Some(St::Set(v)) => Some(*v),
            _ => None,
        }
    };

    // 0. Spend Finalizer (with its designated signatures)
    if let Some(v) = r.fin {
        let mut sigs = vec![];
        let mut need_pre = vec![];
        for i in 0..b.n_tin {
            for (slot, sv) in fin_slots(b, i, v) {
                sigs.push((i as u8, slot, sv));
                if sv == 1 && !b.p2sh[i] {
                    need_pre.push(i as u8);
                }
            }
        }
        p = add_own_pk_preimages(p, b, &need_pre)?;
        p = sign_transparent(p, b, &sigs)?;
        p = SpendFinalizer::new(p).finalize_spends().map_err(role_err("SpendFinalizer::finalize_spends"))?;
    }

    // 1. anchors that are to be replaced: clear first (the Updater refuses to overwrite)
    {
        let s = matches!(want(&Key::SAnchor), Some(v) if base_eff(b, &Key::SAnchor, r.fin) != Eff::Val(v) && base_eff(b, &Key::SAnchor, r.fin) != Eff::Absent);
        let o = |pool| matches!(want(&Key::OAnchor(pool)), Some(v) if base_eff(b, &Key::OAnchor(pool), r.fin) != Eff::Val(v) && base_eff(b, &Key::OAnchor(pool), r.fin) != Eff::Absent);
        let (oo, oi) = (o(Pool::Orchard), o(Pool::Ironwood));
        if s || oo || oi {
            let mut red = Redactor::new(p);
            if s {
                red = red.redact_sapling_with(|mut x| x.clear_anchor());
            }
            if oo {
                red = red.redact_orchard_with(|mut x| x.clear_anchor());
            }
            if oi {
                red = red.redact_ironwood_with(|mut x| x.clear_anchor());
            }
            p = red.finish();
        }
    }

    // 2. Updater: global
    let gprops: Vec<(u8, u8)> = (0..N_PROP).filter_map(|k| want(&Key::GProp(k)).map(|v| (k, v))).collect();
    if !gprops.is_empty() {
        p = Updater::new(p)
            .update_global_with(|mut g| {
                for (k, v) in &gprops {
                    g.set_proprietary(prop_key(*k), prop_val(*k, *v));
                }
            })
            .finish();
    }

    // 3. Updater: transparent
    let t_touch = r.st.iter().any(|(k, s)| {
        matches!(s, St::Set(_))
            && matches!(
                k,
                Key::TInRedeem(_)
                    | Key::TInBip32(..)
                    | Key::TInRipemd(..)
                    | Key::TInSha256(..)
                    | Key::TInHash160(..)
                    | Key::TInHash256(..)
                    | Key::TInProp(..)
                    | Key::TOutBip32(..)
                    | Key::TOutUserAddr(_)
                    | Key::TOutProp(..)
            )
    });
    {
        let need_pre: Vec<u8> = (0..b.n_tin as u8).filter(|i| !b.p2sh[*i as usize] && want(&Key::TInSig(*i, 0)) == Some(1)).collect();
        p = add_own_pk_preimages(p, b, &need_pre)?;
    }
    // Signing a P2SH input needs its redeem script, which the Spend Finalizer removed: such a party
    // re-installs it for signing and removes it again afterwards (unless it is to stay).
    let temp_redeem: Vec<u8> = (0..b.n_tin as u8)
        .filter(|i| {
            b.p2sh[*i as usize]
                && r.fin.is_some()
                && want(&Key::TInRedeem(*i)).is_none()
                && (0..b.t_sks[*i as usize].len() as u8).any(|s| want(&Key::TInSig(*i, s)).is_some())
        })
        .collect();
    let t_touch = t_touch || !temp_redeem.is_empty();
    if t_touch {
        // the redeem script to re-install comes from the base itself (through the Verifier's parse)
        let mut redeems = BTreeMap::new();
        if (0..b.n_tin as u8).any(|i| want(&Key::TInRedeem(i)).is_some()) || !temp_redeem.is_empty() {
            pczt::roles::verifier::Verifier::new(b.pczt.clone())
                .with_transparent::<(), _>(|bundle| {
                    for (i, inp) in bundle.inputs().iter().enumerate() {
                        if let Some(rs) = inp.redeem_script() {
                            redeems.insert(i as u8, rs.clone());
                        }
                    }
                    Ok(())
                })
                .map_err(role_err("Verifier::with_transparent"))?;
        }
        p = Updater::new(p)
            .update_transparent_with(|mut u| {
                for i in 0..b.n_tin as u8 {
                    u.update_input_with(i as usize, |mut iu| {
                        if want(&Key::TInRedeem(i)).is_some() || temp_redeem.contains(&i) {
                            if let Some(rs) = redeems.get(&i) {
                                iu.set_redeem_script(rs.clone())?;
                            }
                        }
                        for s in 0..N_SLOT {
                            if let Some(v) = want(&Key::TInBip32(i, s)) {
                                iu.set_bip32_derivation(
                                    in_bip32_pubkey(b, i, s),
                                    zcash_transparent::pczt::Bip32Derivation::parse(seed_fp(v), bip32_path(v)).unwrap(),
                                );
                            }
                            if want(&Key::TInRipemd(i, s)).is_some() {
                                iu.set_ripemd160_preimage(preimage(s));
                            }
                            if want(&Key::TInSha256(i, s)).is_some() {
                                iu.set_sha256_preimage(preimage(s));
                            }
                            if want(&Key::TInHash160(i, s)).is_some() {
                                iu.set_hash160_preimage(preimage(s));
                            }
                            if want(&Key::TInHash256(i, s)).is_some() {
                                iu.set_hash256_preimage(preimage(s));
                            }
                        }
                        if want(&Key::TInHash160(i, OWN_PK_SLOT)).is_some() {
                            iu.set_hash160_preimage(own_pubkey(b, i, 0).to_vec());
                        }
                        for k in 0..N_PROP {
                            if let Some(v) = want(&Key::TInProp(i, k)) {
                                iu.set_proprietary(prop_key(k), prop_val(k, v));
                            }
                        }
                        Ok(())
                    })?;
                }
                for i in 0..b.n_tout as u8 {
                    u.update_output_with(i as usize, |mut ou| {
                        for s in 0..N_SLOT {
                            if let Some(v) = want(&Key::TOutBip32(i, s)) {
                                ou.set_bip32_derivation(
                                    other_pubkey(s + 4),
                                    zcash_transparent::pczt::Bip32Derivation::parse(seed_fp(v), bip32_path(v)).unwrap(),
                                );
                            }
                        }
                        if let Some(v) = want(&Key::TOutUserAddr(i)) {
                            ou.set_user_address(user_addr(v));
                        }
                        for k in 0..N_PROP {
                            if let Some(v) = want(&Key::TOutProp(i, k)) {
                                ou.set_proprietary(prop_key(k), prop_val(k, v));
                            }
                        }
                        Ok(())
                    })?;
                }
                Ok(())
            })
            .map_err(role_err("Updater::update_transparent_with"))?
            .finish();
    }

    // 4. Updater: sapling
    let hi_sapling = |i: u8| want(&Key::SSp(i, SSp::Sig)) == Some(0) && want(&Key::SSp(i, SSp::Pgk)) != Some(1);
    let pgk_for = |i: u8| want(&Key::SSp(i, SSp::Pgk)).or(hi_sapling(i).then_some(0));
    let s_touch = (0..b.n_sspend as u8).any(|i| pgk_for(i).is_some()) || r.st.iter().any(|(k, s)| {
        matches!(s, St::Set(_))
            && matches!(
                k,
                Key::SSp(_, SSp::Pgk) | Key::SSp(_, SSp::Zip32) | Key::SSpProp(..) | Key::SOut(_, SOut::Zip32) | Key::SOut(_, SOut::UserAddr) | Key::SOutProp(..)
            )
    });
    if s_touch {
        p = Updater::new(p)
            .update_sapling_with(|mut u| {
                for i in 0..b.n_sspend as u8 {
                    u.update_spend_with(i as usize, |mut su| {
                        if let Some(v) = pgk_for(i) {
                            let extsk = if v == 0 && b.s_extsk.is_some() {
                                b.s_extsk.clone().unwrap()
                            } else {
                                sapling::zip32::ExtendedSpendingKey::master(&[0x77 + v; 32])
                            };
                            su.set_proof_generation_key(extsk.expsk.proof_generation_key())?;
                        }
                        if let Some(v) = want(&Key::SSp(i, SSp::Zip32)) {
                            su.set_zip32_derivation(sapling::pczt::Zip32Derivation::parse(seed_fp(v), hardened_path(v)).unwrap());
                        }
                        for k in 0..N_PROP {
                            if let Some(v) = want(&Key::SSpProp(i, k)) {
                                su.set_proprietary(prop_key(k), prop_val(k, v));
                            }
                        }
                        Ok(())
                    })?;
                }
                for i in 0..b.n_sout as u8 {
                    u.update_output_with(i as usize, |mut ou| {
                        if let Some(v) = want(&Key::SOut(i, SOut::Zip32)) {
                            ou.set_zip32_derivation(sapling::pczt::Zip32Derivation::parse(seed_fp(v), hardened_path(v)).unwrap());
                        }
                        if let Some(v) = want(&Key::SOut(i, SOut::UserAddr)) {
                            ou.set_user_address(user_addr(v));
                        }
                        for k in 0..N_PROP {
                            if let Some(v) = want(&Key::SOutProp(i, k)) {
                                ou.set_proprietary(prop_key(k), prop_val(k, v));
                            }
                        }
                        Ok(())
                    })?;
                }
                Ok(())
            })
            .map_err(role_err("Updater::update_sapling_with"))?
            .finish();
    }
    if let Some(v) = want(&Key::SAnchor) {
        let bytes = if v == 0 { b.s_anchor.to_bytes() } else { alt_anchor_bytes(v) };
        let anchor: sapling::Anchor = Option::from(sapling::Anchor::from_bytes(bytes)).expect("canonical");
        p = Updater::new(p).set_sapling_anchor(anchor).map_err(role_err("Updater::set_sapling_anchor"))?.finish();
    }
    {
        let ws: Vec<(usize, sapling::MerklePath)> = b
            .s_spend_idx
            .iter()
            .enumerate()
            .filter_map(|(n, idx)| {
                want(&Key::SSp(*idx as u8, SSp::Witness)).map(|v| (*idx, if v == 0 { b.s_paths[n].clone() } else { alt_sapling_path(&b.s_paths[n]) }))
            })
            .collect();
        if !ws.is_empty() {
            p = Updater::new(p).set_sapling_spend_witnesses(ws).map_err(role_err("Updater::set_sapling_spend_witnesses"))?.finish();
        }
    }

    // 5. Updater: orchard / ironwood
    for pool in [Pool::Orchard, Pool::Ironwood] {
        let n = if pool == Pool::Orchard { b.n_oact } else { b.n_iact };
        let touch = r.st.iter().any(|(k, s)| {
            matches!(s, St::Set(_))
                && match k {
                    Key::OAct(pl, _, OA::SpZip32 | OA::OutZip32 | OA::OutUserAddr) | Key::OSpProp(pl, ..) | Key::OOutProp(pl, ..) => *pl == pool,
                    _ => false,
                }
        });
        if touch {
            let f = |mut u: orchard::pczt::Updater<'_>| -> Result<(), orchard::pczt::UpdaterError> {
                for i in 0..n as u8 {
                    u.update_action_with(i as usize, |mut au| {
                        if let Some(v) = want(&Key::OAct(pool, i, OA::SpZip32)) {
                            au.set_spend_zip32_derivation(orchard::pczt::Zip32Derivation::parse(seed_fp(v), hardened_path(v)).unwrap());
                        }
                        if let Some(v) = want(&Key::OAct(pool, i, OA::OutZip32)) {
                            au.set_output_zip32_derivation(orchard::pczt::Zip32Derivation::parse(seed_fp(v + 8), hardened_path(v)).unwrap());
                        }
                        if let Some(v) = want(&Key::OAct(pool, i, OA::OutUserAddr)) {
                            au.set_output_user_address(user_addr(v));
                        }
                        for k in 0..N_PROP {
                            if let Some(v) = want(&Key::OSpProp(pool, i, k)) {
                                au.set_spend_proprietary(prop_key(k), prop_val(k, v));
                            }
                            if let Some(v) = want(&Key::OOutProp(pool, i, k)) {
                                au.set_output_proprietary(prop_key(k), prop_val(k, v));
                            }
                        }
                        Ok(())
                    })?;
                }
                Ok(())
            };
            p = match pool {
                Pool::Orchard => Updater::new(p).update_orchard_with(f).map_err(role_err("Updater::update_orchard_with"))?.finish(),
                Pool::Ironwood => Updater::new(p).update_ironwood_with(f).map_err(role_err("Updater::update_ironwood_with"))?.finish(),
            };
        }
        if let Some(v) = want(&Key::OAnchor(pool)) {
            let real = if pool == Pool::Orchard { b.o_anchor } else { b.i_anchor };
            let bytes = if v == 0 { real.to_bytes() } else { alt_anchor_bytes(v) };
            let anchor: orchard::Anchor = Option::from(orchard::Anchor::from_bytes(bytes)).expect("canonical");
            p = match pool {
                Pool::Orchard => Updater::new(p).set_orchard_anchor(anchor).map_err(role_err("Updater::set_orchard_anchor"))?.finish(),
                Pool::Ironwood => Updater::new(p).set_ironwood_anchor(anchor).map_err(role_err("Updater::set_ironwood_anchor"))?.finish(),
            };
        }
        let (idxs, paths) = if pool == Pool::Orchard { (&b.o_spend_idx, &b.o_paths) } else { (&b.i_spend_idx, &b.i_paths) };
        let ws: Vec<(usize, orchard::tree::MerklePath)> = idxs
            .iter()
            .enumerate()
            .filter_map(|(n, idx)| {
                want(&Key::OAct(pool, *idx as u8, OA::SpWitness)).map(|v| (*idx, if v == 0 { paths[n].clone() } else { alt_orchard_path(&paths[n]) }))
            })
            .collect();
        if !ws.is_empty() {
            p = match pool {
                Pool::Orchard => Updater::new(p).set_orchard_spend_witnesses(ws).map_err(role_err("Updater::set_orchard_spend_witnesses"))?.finish(),
                Pool::Ironwood => Updater::new(p).set_ironwood_spend_witnesses(ws).map_err(role_err("Updater::set_ironwood_spend_witnesses"))?.finish(),
            };
        }
    }

    // 6. signatures
    {
        let mut tsigs = vec![];
        for i in 0..b.n_tin as u8 {
            for s in 0..b.t_sks[i as usize].len() as u8 {
                if let Some(v) = want(&Key::TInSig(i, s)) {
                    tsigs.push((i, s, v));
                }
            }
        }
        p = sign_transparent(p, b, &tsigs)?;
        // the own-key preimage installed only to let `append_transparent_signature` find the key
        let temp_pre: Vec<u8> = (0..b.n_tin as u8)
            .filter(|i| !b.p2sh[*i as usize] && want(&Key::TInSig(*i, 0)) == Some(1) && want(&Key::TInHash160(*i, OWN_PK_SLOT)).is_none())
            .collect();
        if !temp_redeem.is_empty() || !temp_pre.is_empty() {
            use ripemd::Ripemd160;
            use sha2::{Digest, Sha256};
            p = Redactor::new(p)
                .redact_transparent_with(|mut t| {
                    for i in &temp_redeem {
                        t.redact_input(*i as usize, |mut x| x.clear_redeem_script());
                    }
                    for i in &temp_pre {
                        t.redact_input(*i as usize, |mut x| {
                            x.redact_hash160_preimage(Ripemd160::digest(Sha256::digest(own_pubkey(b, *i, 0))).into())
                        });
                    }
                })
                .finish();
        }

        // shielded signatures: variant 0 is applied through the Signer role, variant 1 through the
        // low-level Signer; the signature bytes themselves are deterministic per (base, spend, variant).
        let mut hi_s = vec![];
        let mut lo_s = vec![];
        for idx in &b.s_spend_idx {
            if let Some(v) = want(&Key::SSp(*idx as u8, SSp::Sig)) {
                let sig = sapling_sig(b, *idx as u8, v)?;
                if hi_sapling(*idx as u8) {
                    hi_s.push((*idx, sig));
                } else {
                    lo_s.push((*idx, sig));
                }
            }
        }
        let mut hi_o = vec![];
        let mut lo_o = vec![];
        for pool in [Pool::Orchard, Pool::Ironwood] {
            for idx in sign_idx(b, pool) {
                if let Some(v) = want(&Key::OAct(pool, *idx as u8, OA::Sig)) {
                    let sig = orchard_sig(b, pool, *idx as u8, v)?;
                    if v == 0 {
                        hi_o.push((pool, *idx, sig));
                    } else {
                        lo_o.push((pool, *idx, sig));
                    }
                }
            }
        }
        if !hi_s.is_empty() || !hi_o.is_empty() {
            let mut signer = Signer::new(p).map_err(role_err("Signer::new"))?;
            for (i, sig) in hi_s {
                signer
                    .apply_sapling_signature(i, redjubjub::Signature::from(sig))
                    .map_err(role_err("Signer::apply_sapling_signature"))?;
            }
            for (pool, i, sig) in hi_o {
                let s = pczt::roles::signer::SpendAuthSignature::from_parts(
                    if pool == Pool::Orchard { orchard::ValuePool::Orchard } else { orchard::ValuePool::Ironwood },
                    i,
                    sig,
                );
                signer.apply_orchard_spend_auth_signature(&s).map_err(role_err("Signer::apply_orchard_spend_auth_signature"))?;
            }
            p = signer.finish();
        }
        if !lo_s.is_empty() || !lo_o.is_empty() {
            let sighash = shielded_sighash(b)?;
            if !lo_s.is_empty() {
                p = low_level_signer::Signer::new(p)
                    .sign_sapling_with::<LErr, _>(|_, bundle, _| {
                        for (i, sig) in &lo_s {
                            bundle.spends_mut()[*i]
                                .apply_signature(sighash, redjubjub::Signature::from(*sig))
                                .map_err(LErr::SSign)?;
                        }
                        Ok(())
                    })
                    .map_err(role_err("low_level_signer::sign_sapling_with(apply)"))?
                    .finish();
            }
            for pool in [Pool::Orchard, Pool::Ironwood] {
                let mine: Vec<(usize, [u8; 64])> = lo_o.iter().filter(|(pl, ..)| *pl == pool).map(|(_, i, s)| (*i, *s)).collect();
                if mine.is_empty() {
                    continue;
                }
                let f = |_: &Pczt, bundle: &mut orchard::pczt::Bundle, _: &mut u8| -> Result<(), LErr> {
                    for (i, sig) in &mine {
                        bundle.actions_mut()[*i]
                            .apply_signature(sighash, orchard::primitives::redpallas::Signature::from(*sig))
                            .map_err(LErr::OSign)?;
                    }
                    Ok(())
                };
                let s = low_level_signer::Signer::new(p);
                p = match pool {
                    Pool::Orchard => s.sign_orchard_with::<LErr, _>(f),
                    Pool::Ironwood => s.sign_ironwood_with::<LErr, _>(f),
                }
                .map_err(role_err("low_level_signer::sign_{orchard,ironwood}_with(apply)"))?
                .finish();
            }
        }
    }

    // 7. redactions
    Ok(redact(b, p, r))
}

/// Applies every `Absent` request (and the memo-plaintext representation) with the Redactor.
pub fn redact(b: &Base, p: Pczt, r: &Recipe) -> Pczt {
    let gone = |k: &Key| matches!(r.st.get(k), Some(St::Absent));
    let all_props_gone = |f: &dyn Fn(u8) -> Key| (0..N_PROP).all(|k| gone(&f(k)));
    if !r.st.values().any(|s| matches!(s, St::Absent)) && !r.st.iter().any(|(k, s)| matches!((k, s), (Key::OAct(_, _, OA::EncRepr), St::Set(_)))) {
        return p;
    }
    let mut red = Redactor::new(p);
    red = red.redact_global_with(|mut g| {
        if all_props_gone(&Key::GProp) {
            g.clear_proprietary();
        } else {
            for k in 0..N_PROP {
                if gone(&Key::GProp(k)) {
                    g.redact_proprietary(&prop_key(k));
                }
            }
        }
    });
    red = red.redact_transparent_with(|mut t| {
        for i in 0..b.n_tin as u8 {
            t.redact_input(i as usize, |mut x| {
                if gone(&Key::TInScriptSig(i)) {
                    x.clear_script_sig();
                }
                if gone(&Key::TInRedeem(i)) {
                    x.clear_redeem_script();
                }
                let nsk = b.t_sks[i as usize].len() as u8;
                if (0..nsk).all(|s| gone(&Key::TInSig(i, s))) {
                    x.clear_partial_signatures();
                } else {
                    for s in 0..nsk {
                        if gone(&Key::TInSig(i, s)) {
                            x.redact_partial_signature(own_pubkey(b, i, s));
                        }
                    }
                }
                if (0..N_SLOT).all(|s| gone(&Key::TInBip32(i, s))) {
                    x.clear_bip32_derivation();
                } else {
                    for s in 0..N_SLOT {
                        if gone(&Key::TInBip32(i, s)) {
                            x.redact_bip32_derivation(in_bip32_pubkey(b, i, s));
                        }
                    }
                }
                use ripemd::Ripemd160;
                use sha2::{Digest, Sha256};
                for s in 0..N_SLOT {
                    let v = preimage(s);
                    if gone(&Key::TInRipemd(i, s)) {
                        x.redact_ripemd160_preimage(Ripemd160::digest(&v).into());
                    }
                    if gone(&Key::TInSha256(i, s)) {
                        x.redact_sha256_preimage(Sha256::digest(&v).into());
                    }
                    if gone(&Key::TInHash160(i, s)) {
                        x.redact_hash160_preimage(Ripemd160::digest(Sha256::digest(&v)).into());
                    }
                    if gone(&Key::TInHash256(i, s)) {
                        x.redact_hash256_preimage(Sha256::digest(Sha256::digest(&v)).into());
                    }
                }
                if (0..N_SLOT).all(|s| gone(&Key::TInHash160(i, s))) && gone(&Key::TInHash160(i, OWN_PK_SLOT)) {
                    x.clear_hash160_preimages();
                } else if gone(&Key::TInHash160(i, OWN_PK_SLOT)) {
                    x.redact_hash160_preimage(Ripemd160::digest(Sha256::digest(own_pubkey(b, i, 0))).into());
                }
                if (0..N_SLOT).all(|s| gone(&Key::TInRipemd(i, s))) {
                    x.clear_ripemd160_preimages();
                }
                if (0..N_SLOT).all(|s| gone(&Key::TInSha256(i, s))) {
                    x.clear_sha256_preimages();
                }
                if (0..N_SLOT).all(|s| gone(&Key::TInHash256(i, s))) {
                    x.clear_hash256_preimages();
                }
                if all_props_gone(&|k| Key::TInProp(i, k)) {
                    x.clear_proprietary();
                } else {
                    for k in 0..N_PROP {
                        if gone(&Key::TInProp(i, k)) {
                            x.redact_proprietary(&prop_key(k));
                        }
                    }
                }
            });
        }
        for i in 0..b.n_tout as u8 {
            t.redact_output(i as usize, |mut x| {
                if gone(&Key::TOutRedeem(i)) {
                    x.clear_redeem_script();
                }
                if (0..N_SLOT).all(|s| gone(&Key::TOutBip32(i, s))) {
                    x.clear_bip32_derivation();
                } else {
                    for s in 0..N_SLOT {
                        if gone(&Key::TOutBip32(i, s)) {
                            x.redact_bip32_derivation(other_pubkey(s + 4));
                        }
                    }
                }
                if gone(&Key::TOutUserAddr(i)) {
                    x.clear_user_address();
                }
                if all_props_gone(&|k| Key::TOutProp(i, k)) {
                    x.clear_proprietary();
                } else {
                    for k in 0..N_PROP {
                        if gone(&Key::TOutProp(i, k)) {
                            x.redact_proprietary(&prop_key(k));
                        }
                    }
                }
            });
        }
    });
    red = red.redact_sapling_with(|mut s| {
        if gone(&Key::SBsk) {
            s.clear_bsk();
        }
        if gone(&Key::SAnchor) {
            s.clear_anchor();
        }
        for i in 0..b.n_sspend as u8 {
            s.redact_spend(i as usize, |mut x| {
                for k in SSP_ALL {
                    if gone(&Key::SSp(i, k)) {
                        match k {
                            SSp::Zkproof => x.clear_zkproof(),
                            SSp::Sig => x.clear_spend_auth_sig(),
                            SSp::Recipient => x.clear_recipient(),
                            SSp::Value => x.clear_value(),
                            SSp::Rcm => x.clear_rcm(),
                            SSp::Rseed => x.clear_rseed(),
                            SSp::Rcv => x.clear_rcv(),
                            SSp::Pgk => x.clear_proof_generation_key(),
                            SSp::Witness => x.clear_witness(),
                            SSp::Alpha => x.clear_alpha(),
                            SSp::Zip32 => x.clear_zip32_derivation(),
                            SSp::DummyAsk => x.clear_dummy_ask(),
                        }
                    }
                }
                if all_props_gone(&|k| Key::SSpProp(i, k)) {
                    x.clear_proprietary();
                } else {
                    for k in 0..N_PROP {
                        if gone(&Key::SSpProp(i, k)) {
                            x.redact_proprietary(&prop_key(k));
                        }
                    }
                }
            });
        }
        for i in 0..b.n_sout as u8 {
            s.redact_output(i as usize, |mut x| {
                for k in SOUT_ALL {
                    if gone(&Key::SOut(i, k)) {
                        match k {
                            SOut::Zkproof => x.clear_zkproof(),
                            SOut::Recipient => x.clear_recipient(),
                            SOut::Value => x.clear_value(),
                            SOut::Rseed => x.clear_rseed(),
                            SOut::Rcv => x.clear_rcv(),
                            SOut::Ock => x.clear_ock(),
                            SOut::Zip32 => x.clear_zip32_derivation(),
                            SOut::UserAddr => x.clear_user_address(),
                        }
                    }
                }
                if all_props_gone(&|k| Key::SOutProp(i, k)) {
                    x.clear_proprietary();
                } else {
                    for k in 0..N_PROP {
                        if gone(&Key::SOutProp(i, k)) {
                            x.redact_proprietary(&prop_key(k));
                        }
                    }
                }
            });
        }
    });
    for pool in [Pool::Orchard, Pool::Ironwood] {
        let n = if pool == Pool::Orchard { b.n_oact } else { b.n_iact };
        let out_idx = if pool == Pool::Orchard { &b.o_out_idx } else { &b.i_out_idx };
        let version = if pool == Pool::Orchard { orchard::note::NoteVersion::V2 } else { orchard::note::NoteVersion::V3 };
        let memo_repr = |i: u8| matches!(r.st.get(&Key::OAct(pool, i, OA::EncRepr)), Some(St::Set(_)));
        let f = |mut o: pczt::roles::redactor::orchard::OrchardRedactor<'_>| {
            // `compact_resolvable_fields` is, per its documentation, exactly "memo plaintext + no
            // cv_net + no cmx" on every action whose data is complete and consistent.
            let compact_all = n > 0
                && (0..n as u8).all(|i| (memo_repr(i) || !memo_ok(b, pool, i)) && gone(&Key::OAct(pool, i, OA::CvNet)) && gone(&Key::OAct(pool, i, OA::Cmx)));
            if compact_all {
                o.compact_resolvable_fields();
            }
            if gone(&Key::OZkproof(pool)) {
                o.clear_zkproof();
            }
            if gone(&Key::OBsk(pool)) {
                o.clear_bsk();
            }
            if gone(&Key::OAnchor(pool)) {
                o.clear_anchor();
            }
            for i in 0..n as u8 {
                o.redact_action(i as usize, |mut x| {
                    if memo_repr(i) && !compact_all {
                        // requested outputs: the known memo; padding: recover it by decryption
                        if out_idx.contains(&(i as usize)) && i % 2 == 0 {
                            x.replace_enc_ciphertext_with_memo_plaintext(b.memo);
                        } else {
                            x.replace_enc_ciphertext_with_decrypted_memo_plaintext(version);
                        }
                    }
                    for k in OA_ALL {
                        if gone(&Key::OAct(pool, i, k)) {
                            match k {
                                OA::CvNet => x.clear_cv_net(),
                                OA::Cmx => x.clear_cmx(),
                                OA::Sig => x.clear_spend_auth_sig(),
                                OA::SpRecipient => x.clear_spend_recipient(),
                                OA::SpValue => x.clear_spend_value(),
                                OA::SpRho => x.clear_spend_rho(),
                                OA::SpRseed => x.clear_spend_rseed(),
                                OA::SpFvk => x.clear_spend_fvk(),
                                OA::SpWitness => x.clear_spend_witness(),
                                OA::SpAlpha => x.clear_spend_alpha(),
                                OA::SpZip32 => x.clear_spend_zip32_derivation(),
                                OA::SpDummySk => x.clear_spend_dummy_sk(),
                                OA::OutRecipient => x.clear_output_recipient(),
                                OA::OutValue => x.clear_output_value(),
                                OA::OutRseed => x.clear_output_rseed(),
                                OA::OutOck => x.clear_output_ock(),
                                OA::OutZip32 => x.clear_output_zip32_derivation(),
                                OA::OutUserAddr => x.clear_output_user_address(),
                                OA::Rcv => x.clear_rcv(),
                                OA::EncRepr => {}
                            }
                        }
                    }
                    if all_props_gone(&|k| Key::OSpProp(pool, i, k)) {
                        x.clear_spend_proprietary();
                    } else {
                        for k in 0..N_PROP {
                            if gone(&Key::OSpProp(pool, i, k)) {
                                x.redact_spend_proprietary(&prop_key(k));
                            }
                        }
                    }
                    if all_props_gone(&|k| Key::OOutProp(pool, i, k)) {
                        x.clear_output_proprietary();
                    } else {
                        for k in 0..N_PROP {
                            if gone(&Key::OOutProp(pool, i, k)) {
                                x.redact_output_proprietary(&prop_key(k));
                            }
                        }
                    }
                });
            }
        };
        red = match pool {
            Pool::Orchard => red.redact_orchard_with(f),
            Pool::Ironwood => red.redact_ironwood_with(f),
        };
    }
    red.finish()
}

/// Observed inventory of the base: removing `k` with the Redactor changes the PCZT.
pub fn base_has(b: &Base, k: &Key) -> bool {
    let name = format!("{k:?}");
    if let Some(v) = b.has_cache.lock().unwrap().get(&name) {
        return *v;
    }
    let mut r = Recipe::default();
    r.st.insert(*k, St::Absent);
    let v = super::bytes::ser2(&redact(b, b.pczt.clone(), &r)) != super::bytes::ser2(&b.pczt);
    b.has_cache.lock().unwrap().insert(name, v);
    v
}

//! C13 — PCZT encoding, combination and roles preserve the transaction. (scaffold)
mod base;

fn main() {
    let t0 = std::time::Instant::now();
    for i in 0..40u32 {
        match base::build_base(1, i) {
            Ok(b) => println!(
                "base {i}: {:?} ms={} tin={} tout={} ss={} so={} oa={} ia={} txid_parts={}",
                b.shape.fmt, b.build_ms, b.n_tin, b.n_tout, b.n_sspend, b.n_sout, b.n_oact, b.n_iact, b.txid_parts
            ),
            Err(e) => println!("base {i}: FAILED {e}"),
        }
    }
    println!("total {:?}", t0.elapsed());
}

//! C13 — PCZT encoding, combination and roles preserve the transaction.
//!
//! Base PCZTs are built for real (`Builder::build_for_pczt` / `DeferredPcztBuilder` ->
//! `Creator::build_from_parts` -> `IoFinalizer`), in both transaction formats, without proving.
//! Party copies are derived from a base by *recipes* (which optional fields a party removed with the
//! Redactor, which it added with the Updater / Signer / low-level Signer / Spend Finalizer). Oracles:
//!
//! * encoding: serialize -> parse -> serialize fixed point, parsed == original (forced-v2 bytes),
//!   header version 1 iff the v1 conversion succeeds; mutated / arbitrary bytes never panic and
//!   accepted bytes re-serialise to a fixed point (`check_pczt_bytes`, reusable by a fuzz target);
//! * combination: every permutation and random bracketing of `Combiner::combine` yields the value the
//!   harness materialises from the field-wise UNION OF THE RECIPES; idempotence; absorption;
//!   a conflicting value on any field kind, or a copy of another transaction => Err in every order;
//! * roles: the txid implied by the PCZT (`pczt_txid`, `into_effects`) equals the id computed from the
//!   builder's parts, before and after every role in random order; thorough tier: prove + extract.

mod base;
mod recipe;

use std::collections::{BTreeMap, BTreeSet};
use std::sync::Arc;

use pczt::roles::combiner::{Combiner, Error as CombineError};
use pczt::Pczt;
use proptest::prelude::*;
use rand_chacha::ChaCha20Rng;
use rand_core::{RngCore, SeedableRng};
use vcore::{catch, hash64, pick_index, vensure, vensure_eq, vfail, CaseResult, Ctx, Fail, Obs};
use zcash_pool_migration::pczt_txid::pczt_txid;

use base::Base;
use recipe::{materialise, ser2, set_vals, union, universe, Eff, Key, Recipe, St, Union, OA};

const MAX_COPIES: usize = 5;

// ---------------------------------------------------------------------------------------------
// Combination
// ---------------------------------------------------------------------------------------------

#[derive(Clone, Debug)]
struct Touch {
    key_sel: u32,
    /// prefer a key some role can set
    settable: bool,
    /// per copy: 0 keep, 1 remove, 2 set
    st: [u8; MAX_COPIES],
    val: u8,
}

#[derive(Clone, Debug)]
struct CombineCase {
    base_sel: u32,
    n: usize,
    touches: Vec<Touch>,
    /// per copy: run the Spend Finalizer
    fin: [bool; MAX_COPIES],
    /// per copy: bit 0 compact the Orchard bundle, bit 1 the Ironwood bundle
    compact: [u8; MAX_COPIES],
    /// per copy: pass through `serialize` -> `parse` before combining
    roundtrip: [bool; MAX_COPIES],
    /// inject two different values for one key into two copies
    conflict: Option<(u32, u8, u8, bool)>,
    /// add a copy of a different transaction
    foreign: Option<u32>,
    order_seed: u64,
}

fn arb_touch() -> impl Strategy<Value = Touch> {
    (
        any::<u32>(),
        prop::bool::weighted(0.6),
        prop::array::uniform5(prop_oneof![4 => Just(0u8), 3 => Just(1u8), 3 => Just(2u8)]),
        prop_oneof![12 => Just(0u8), 4 => Just(1u8), 2 => Just(2u8), 1 => Just(4u8), 1 => Just(5u8)],
    )
        .prop_map(|(key_sel, settable, st, val)| Touch { key_sel, settable, st, val })
}

fn arb_combine_case() -> impl Strategy<Value = CombineCase> {
    (
        any::<u32>(),
        2usize..=MAX_COPIES,
        prop::collection::vec(arb_touch(), 2..14),
        prop::array::uniform5(prop::bool::weighted(0.12)),
        prop::array::uniform5(prop_oneof![20 => Just(0u8), 2 => Just(1u8), 2 => Just(2u8), 2 => Just(3u8), 1 => Just(4u8), 1 => Just(5u8), 1 => Just(6u8)]),
        prop::array::uniform5(prop::bool::weighted(0.3)),
        prop::option::weighted(0.2, (any::<u32>(), 0u8..MAX_COPIES as u8, 1u8..MAX_COPIES as u8, any::<bool>())),
        prop::option::weighted(0.06, any::<u32>()),
        any::<u64>(),
    )
        .prop_map(|(base_sel, n, touches, fin, compact, roundtrip, conflict, foreign, order_seed)| CombineCase {
            base_sel,
            n,
            touches,
            fin,
            compact,
            roundtrip,
            conflict,
            foreign,
            order_seed,
        })
}

fn n_bases(ctx: &Ctx) -> usize {
    ctx.tier.pick(192, 4096)
}

fn pick_key(b: &Base, uni: &[Key], settable: &[Key], t: &Touch) -> Key {
    let _ = b;
    if t.settable && !settable.is_empty() {
        settable[pick_index(t.key_sel, settable.len())]
    } else {
        uni[pick_index(t.key_sel, uni.len())]
    }
}

fn build_recipes(b: &Base, c: &CombineCase) -> Vec<Recipe> {
    let uni = universe(b);
    let settable: Vec<Key> = uni.iter().copied().filter(|k| set_vals(b, k) > 0).collect();
    let mut recipes: Vec<Recipe> = (0..c.n).map(|_| Recipe::default()).collect();
    let mut seen = BTreeSet::new();
    for t in &c.touches {
        let k = pick_key(b, &uni, &settable, t);
        if !seen.insert(k) {
            continue;
        }
        // the ciphertext representation is a required field: parties that disagree on it cannot be
        // combined, so mostly all of them agree (val >= 4: let them differ)
        let uniform = matches!(k, Key::OAct(_, _, OA::EncRepr)) && t.val < 4;
        for (ci, r) in recipes.iter_mut().enumerate() {
            let st = match t.st[if uniform { 0 } else { ci }] {
                0 => St::Keep,
                1 => St::Absent,
                _ => St::Set(t.val),
            };
            r.st.insert(k, st);
        }
    }
    for (ci, r) in recipes.iter_mut().enumerate() {
        if c.fin[ci] && b.n_tin > 0 {
            r.fin = Some(0);
        }
        for (bit, pool, n) in [(1u8, recipe::Pool::Orchard, b.n_oact), (2u8, recipe::Pool::Ironwood, b.n_iact)] {
            // compact[0] decides for everybody unless bit 2 of the copy's own entry says otherwise
            let mine = if c.compact[ci] & 4 != 0 { c.compact[ci] } else { c.compact[0] };
            if mine & bit != 0 {
                for i in 0..n as u8 {
                    r.st.insert(Key::OAct(pool, i, OA::EncRepr), St::Set(1));
                    r.st.insert(Key::OAct(pool, i, OA::CvNet), St::Absent);
                    r.st.insert(Key::OAct(pool, i, OA::Cmx), St::Absent);
                }
            }
        }
    }
    // conflict injection: two copies set different values on one settable key
    if let Some((ksel, a, d, fin_conflict)) = c.conflict {
        let a = a as usize % c.n;
        let bb = (a + 1 + (d as usize - 1) % (c.n - 1)) % c.n;
        if fin_conflict && b.n_tin > 0 {
            // two parties finalize the same inputs from different signatures
            recipes[a].fin = Some(0);
            recipes[bb].fin = Some(1);
            for r in recipes.iter_mut() {
                let ks: Vec<Key> = r.st.keys().copied().filter(|k| matches!(k, Key::TInScriptSig(_))).collect();
                for k in ks {
                    r.st.remove(&k);
                }
            }
        } else {
            let multi: Vec<Key> = settable.iter().copied().filter(|k| set_vals(b, k) >= 2).collect();
            if !multi.is_empty() {
                let k = multi[pick_index(ksel, multi.len())];
                recipes[a].st.insert(k, St::Set(0));
                recipes[bb].st.insert(k, St::Set(1));
            }
        }
    }
    for r in recipes.iter_mut() {
        r.normalise(b);
    }
    recipes
}

fn combine(list: Vec<Pczt>) -> Result<Result<Pczt, CombineError>, Fail> {
    catch(|| Combiner::new(list).combine()).map_err(|p| Fail::new("combiner-panic", format!("Combiner::combine panicked: {p}")))
}

/// Random bracketing: split into contiguous groups, combine each group recursively, then the results.
fn combine_tree(items: Vec<Pczt>, rng: &mut ChaCha20Rng) -> Result<Result<Pczt, CombineError>, Fail> {
    if items.len() <= 2 {
        return combine(items);
    }
    let groups = 2 + (rng.next_u32() as usize) % (items.len() - 1);
    // choose `groups - 1` cut points
    let mut cuts: BTreeSet<usize> = BTreeSet::new();
    while cuts.len() < groups - 1 {
        cuts.insert(1 + (rng.next_u32() as usize) % (items.len() - 1));
    }
    let mut parts = vec![];
    let mut cur = vec![];
    for (i, it) in items.into_iter().enumerate() {
        if cuts.contains(&i) {
            parts.push(std::mem::take(&mut cur));
        }
        cur.push(it);
    }
    parts.push(cur);
    let mut combined = vec![];
    for part in parts {
        match combine_tree(part, rng)? {
            Ok(p) => combined.push(p),
            Err(e) => return Ok(Err(e)),
        }
    }
    combine(combined)
}

fn permutations(n: usize) -> Vec<Vec<usize>> {
    fn rec(cur: &mut Vec<usize>, used: &mut Vec<bool>, n: usize, out: &mut Vec<Vec<usize>>) {
        if cur.len() == n {
            out.push(cur.clone());
            return;
        }
        for i in 0..n {
            if !used[i] {
                used[i] = true;
                cur.push(i);
                rec(cur, used, n, out);
                cur.pop();
                used[i] = false;
            }
        }
    }
    let mut out = vec![];
    rec(&mut vec![], &mut vec![false; n], n, &mut out);
    out
}

fn describe_recipes(rs: &[Recipe]) -> String {
    let mut s = String::new();
    for (i, r) in rs.iter().enumerate() {
        s.push_str(&format!("copy{i}: fin={:?} {:?}; ", r.fin, r.st));
    }
    s
}

fn txid_of(p: &Pczt) -> Option<zcash_protocol::TxId> {
    pczt_txid(p).ok()
}

fn check_combine(ctx: &Ctx, c: &CombineCase) -> CaseResult {
    let nb = n_bases(ctx);
    let bidx = pick_index(c.base_sel, nb) as u32;
    let b: Arc<Base> = base::base(ctx.seed, bidx);
    let recipes = build_recipes(&b, c);
    let desc = || format!("base {bidx} {:?}; {}", b.shape, describe_recipes(&recipes));

    let mut copies = vec![];
    for r in &recipes {
        copies.push(materialise(&b, r).map_err(|f| Fail::new(f.signature, format!("{} [{}]", f.msg, desc())))?);
    }
    // every copy still describes the base transaction
    for (i, cp) in copies.iter().enumerate() {
        if let Some(t) = txid_of(cp) {
            vensure_eq!(t, b.txid_parts, "copy-txid-changed", "copy {i} implies another transaction id [{}]", desc());
        }
    }
    let mut rt = 0u64;
    let mut rt_skipped = 0u64;
    for (i, cp) in copies.iter_mut().enumerate() {
        if c.roundtrip[i] {
            // Known finding `v1-sapling-absent-anchor-placeholder` (checked in the encoding sub-check and
            // the regression list): the v1 encoding turns an ABSENT Sapling anchor of a spend-less bundle
            // into Some([0; 32]). Such copies are combined without the byte round trip here.
            if b.shape.fmt == base::Fmt::V5 && b.n_sspend == 0 && recipes[i].eff(&b, &Key::SAnchor) == Eff::Absent {
                rt_skipped += 1;
                continue;
            }
            let bytes = cp.clone().serialize().map_err(|e| Fail::new("serialize-failed", format!("{e:?} [{}]", desc())))?;
            *cp = Pczt::parse(&bytes).map_err(|e| Fail::new("own-encoding-rejected", format!("{e:?} [{}]", desc())))?;
            rt += 1;
        }
    }

    let mut rng = ChaCha20Rng::seed_from_u64(c.order_seed);
    let mut all = copies.clone();
    let mut expect_conflict = None;
    if let Some(fsel) = c.foreign {
        // a copy of ANOTHER transaction (same generator, different index)
        let other = (bidx as usize + 1 + pick_index(fsel, nb - 1)) % nb;
        let ob = base::base(ctx.seed, other as u32);
        all.push(ob.pczt.clone());
        expect_conflict = Some(format!("copy of another transaction (base {other})"));
    }
    let u = union(&b, &recipes);
    if let Union::Conflict(k, v1, v2) = &u {
        expect_conflict.get_or_insert(format!("{k:?} carries values {v1} and {v2}"));
    }
    let n = all.len();
    let mut orders = if n <= 4 {
        permutations(n)
    } else {
        let mut v = vec![(0..n).collect::<Vec<_>>(), (0..n).rev().collect()];
        while v.len() < 24 {
            let mut p: Vec<usize> = (0..n).collect();
            for i in (1..n).rev() {
                p.swap(i, (rng.next_u32() as usize) % (i + 1));
            }
            v.push(p);
        }
        v
    };
    // a few of them are evaluated with random bracketings as well
    let n_tree = orders.len().min(6);
    let tree_orders: Vec<Vec<usize>> = (0..n_tree).map(|i| orders[(i * 7 + 3) % orders.len()].clone()).collect();
    let flat = orders.len();
    orders.extend(tree_orders);

    let mut results: Vec<Vec<u8>> = vec![];
    let mut first: Option<Pczt> = None;
    for (oi, ord) in orders.iter().enumerate() {
        let list: Vec<Pczt> = ord.iter().map(|i| all[*i].clone()).collect();
        let r = if oi < flat { combine(list)? } else { combine_tree(list, &mut rng)? };
        match (&expect_conflict, r) {
            (Some(why), Ok(_)) => {
                vfail!("conflict-accepted", "order {ord:?}{} combined although {why} [{}]", if oi < flat { "" } else { " (bracketed)" }, desc())
            }
            (Some(_), Err(CombineError::DataMismatch)) => {}
            (Some(_), Err(e)) => vfail!("conflict-wrong-error", "order {ord:?}: {e:?} [{}]", desc()),
            (None, Err(e)) => {
                vfail!("combine-rejected-compatible", "order {ord:?}{} failed with {e:?} on copies of one transaction without conflicting fields [{}]", if oi < flat { "" } else { " (bracketed)" }, desc())
            }
            (None, Ok(p)) => {
                results.push(ser2(&p));
                if first.is_none() {
                    first = Some(p);
                }
            }
        }
    }

    let mut diff_kinds = BTreeSet::new();
    let mut diff_bundles = BTreeSet::new();
    for k in recipe::touched(&b, &recipes) {
        let effs: BTreeSet<Eff> = recipes.iter().map(|r| r.eff(&b, &k)).collect();
        if effs.len() > 1 {
            diff_kinds.insert(k.kind());
            diff_bundles.insert(k.bundle());
        }
    }
    let nontrivial = c.n >= 2 && diff_kinds.len() >= 2 && diff_bundles.len() >= 2;
    let mut obs = Obs::new(nontrivial)
        .key(hash64(format!("{bidx}|{}", describe_recipes(&recipes)).as_bytes()))
        .count("orders", orders.len() as u64)
        .count("roundtripped-copies", rt)
        .count("roundtrip-skipped-known-placeholder", rt_skipped)
        .count("differing-field-kinds", diff_kinds.len() as u64)
        .label(match b.shape.fmt {
            base::Fmt::V5 => "base-v5",
            base::Fmt::V6 => "base-v6",
            base::Fmt::V6Deferred => "base-v6-deferred",
        })
        .label_if(recipes.iter().any(|r| r.fin.is_some()), "has-spend-finalizer-copy")
        .label_if(c.n >= 4, "copies>=4");

    if let Some(_why) = expect_conflict {
        return Ok(obs.label("conflict").label_if(c.foreign.is_some(), "conflict-foreign-tx").label_if(matches!(u, Union::Conflict(..)), "conflict-field"));
    }
    let Union::Ok(urecipe) = u else { unreachable!() };
    let expected = materialise(&b, &urecipe).map_err(|f| Fail::new(f.signature, format!("expected union: {} [{}] union={urecipe:?}", f.msg, desc())))?;
    let exp_bytes = ser2(&expected);
    // Known finding `combine-drops-bsk`: a bundle's `bsk` carried only by a later input is dropped.
    // Classified precisely: every order yields either the union or the union without exactly the bsk
    // values on which the copies differ.
    let bsk_split: Vec<Key> = [Key::SBsk, Key::OBsk(recipe::Pool::Orchard), Key::OBsk(recipe::Pool::Ironwood)]
        .into_iter()
        .filter(|k| {
            let e: BTreeSet<Eff> = recipes.iter().map(|r| r.eff(&b, k)).collect();
            e.len() > 1
        })
        .collect();
    if !bsk_split.is_empty() && results.iter().any(|r| *r != exp_bytes) {
        let mut variants = vec![exp_bytes.clone()];
        for mask in 1u32..(1 << bsk_split.len()) {
            let mut r2 = urecipe.clone();
            for (i, k) in bsk_split.iter().enumerate() {
                if mask & (1 << i) != 0 {
                    r2.st.insert(*k, St::Absent);
                }
            }
            variants.push(ser2(&materialise(&b, &r2)?));
        }
        if results.iter().all(|r| variants.contains(r)) {
            let bad = results.iter().position(|r| *r != exp_bytes).unwrap();
            vfail!(
                "combine-drops-bsk",
                "order {:?} loses {:?} although an input carries it (result is otherwise the union of the inputs) [{}]",
                orders[bad],
                bsk_split,
                desc()
            );
        }
    }
    // one result for every order and bracketing
    for (i, r) in results.iter().enumerate() {
        vensure!(
            *r == results[0],
            "combine-order-dependent",
            "order {:?} gives a different PCZT than order {:?} (lengths {} / {}) [{}]",
            orders[i],
            orders[0],
            r.len(),
            results[0].len(),
            desc()
        );
    }
    // ... and it is the union of the recipes
    if exp_bytes != results[0] {
        let got = first.as_ref().unwrap();
        vfail!(
            "combine-not-union",
            "combined PCZT differs from the union of the inputs' fields ({} vs {} bytes); union recipe {urecipe:?}; first differing debug line: {} [{}]",
            results[0].len(),
            exp_bytes.len(),
            first_diff(&format!("{got:#?}"), &format!("{expected:#?}")),
            desc()
        );
    }
    let result = first.unwrap();
    if let Some(t) = txid_of(&result) {
        vensure_eq!(t, b.txid_parts, "combine-txid-changed", "combined PCZT implies another transaction id [{}]", desc());
        obs = obs.label("result-txid-checked");
    }
    // idempotence and absorption
    for (i, cp) in copies.iter().enumerate() {
        let cc = combine(vec![cp.clone(), cp.clone()])?.map_err(|e| Fail::new("combine-not-idempotent", format!("combine(c,c) failed: {e:?} (copy {i}) [{}]", desc())))?;
        vensure!(ser2(&cc) == ser2(cp), "combine-not-idempotent", "combine(c,c) != c for copy {i} [{}]", desc());
        let single = combine(vec![cp.clone()])?.map_err(|e| Fail::new("combine-not-idempotent", format!("combine([c]) failed: {e:?} [{}]", desc())))?;
        vensure!(ser2(&single) == ser2(cp), "combine-not-idempotent", "combine([c]) != c for copy {i} [{}]", desc());
        for (a, bb) in [(result.clone(), cp.clone()), (cp.clone(), result.clone())] {
            let ab = combine(vec![a, bb])?.map_err(|e| Fail::new("combine-not-absorbing", format!("combine(result, copy {i}) failed: {e:?} [{}]", desc())))?;
            vensure!(ser2(&ab) == results[0], "combine-not-absorbing", "combining the result with its own input {i} changes it [{}]", desc());
        }
    }
    Ok(obs.label("combined").label_if(rt > 0, "with-roundtripped-copy"))
}

// ---------------------------------------------------------------------------------------------
// Encoding
// ---------------------------------------------------------------------------------------------

#[derive(Clone, Debug, Default)]
pub struct BytesObs {
    pub accepted: bool,
    pub header_version: u32,
    /// The only difference between the parsed value and its own round trip is the Sapling anchor of a
    /// spend-less bundle turning from absent into `Some([0; 32])` (known finding).
    pub sapling_anchor_placeholder: bool,
    pub effects_ok: bool,
}

fn header_version(bytes: &[u8]) -> u32 {
    u32::from_le_bytes(bytes[4..8].try_into().unwrap())
}

fn without_sapling_anchor(p: &Pczt) -> Pczt {
    pczt::roles::redactor::Redactor::new(p.clone()).redact_sapling_with(|mut s| s.clear_anchor()).finish()
}

/// Byte-level oracle (no harness context, reusable by a fuzz target): `Pczt::parse` never panics; if
/// it accepts, the value serialises, its serialisation is accepted again and is a fixed point, the
/// minimal-version rule holds, the re-parsed value equals the parsed one, and computing the effects
/// does not panic.
pub fn check_pczt_bytes(bytes: &[u8]) -> Result<BytesObs, Fail> {
    let mut obs = BytesObs::default();
    let parsed = catch(|| Pczt::parse(bytes)).map_err(|p| Fail::new("parse-panic", format!("Pczt::parse panicked on {} bytes: {p}", bytes.len())))?;
    let p = match parsed {
        Err(_) => return Ok(obs),
        Ok(p) => p,
    };
    obs.accepted = true;
    let s1 = catch(|| p.clone().serialize())
        .map_err(|e| Fail::new("serialize-panic", format!("serialize panicked on an accepted PCZT: {e}")))?
        .map_err(|e| Fail::new("accepted-not-serializable", format!("serialize failed on an accepted PCZT: {e:?}")))?;
    vensure!(s1.len() >= 8 && &s1[..4] == b"PCZT", "bad-header", "serialisation does not start with the magic");
    obs.header_version = header_version(&s1);
    let v1 = catch(|| pczt::v1::Pczt::try_from(p.clone())).map_err(|e| Fail::new("serialize-panic", format!("v1 conversion panicked: {e}")))?;
    match (&v1, obs.header_version) {
        (Ok(v1), 1) => vensure!(v1.serialize() == s1, "version-not-minimal", "header says v1 but the bytes are not the v1 encoding"),
        (Err(_), 2) => {}
        (Ok(_), v) => vfail!("version-not-minimal", "the v1 encoding can represent this PCZT but serialize() chose version {v}"),
        (Err(e), v) => vfail!("version-not-minimal", "serialize() chose version {v} although the v1 conversion fails with {e:?}"),
    }
    let p2 = catch(|| Pczt::parse(&s1))
        .map_err(|e| Fail::new("parse-panic", format!("Pczt::parse panicked on a serialisation: {e}")))?
        .map_err(|e| Fail::new("own-encoding-rejected", format!("serialize() output is rejected by parse: {e:?}")))?;
    let s2 = p2.clone().serialize().map_err(|e| Fail::new("accepted-not-serializable", format!("{e:?}")))?;
    vensure!(s1 == s2, "reserialize-not-fixed-point", "serialize(parse(serialize(p))) != serialize(p) ({} vs {} bytes)", s2.len(), s1.len());
    // value equality through the forced-v2 bytes
    let (a, b) = (ser2(&p), ser2(&p2));
    if a != b {
        let placeholder = obs.header_version == 1
            && p.sapling().spends().is_empty()
            && p.sapling().anchor().is_none()
            && *p2.sapling().anchor() == Some([0u8; 32])
            && ser2(&without_sapling_anchor(&p)) == ser2(&without_sapling_anchor(&p2));
        if placeholder {
            obs.sapling_anchor_placeholder = true;
        } else {
            vfail!(
                "roundtrip-value-changed",
                "parse(serialize(p)) is not p (forced-v2 bytes {} vs {}): {}",
                b.len(),
                a.len(),
                first_diff(&format!("{p2:#?}"), &format!("{p:#?}"))
            );
        }
    }
    // the forced-v2 encoding is accepted and is a fixed point too
    let p3 = Pczt::parse(&a).map_err(|e| Fail::new("own-encoding-rejected", format!("forced v2 bytes are rejected by parse: {e:?}")))?;
    vensure!(ser2(&p3) == a, "reserialize-not-fixed-point", "forced-v2 bytes are not a fixed point");
    // `pczt_txid` documents `Err(TxIdError::Effects)` for a PCZT that parses but whose bundles are
    // malformed: it must not panic, and the answer survives the round trip
    let txid_panic = |e: String| Fail::new(format!("txid-panic-on-malformed-bundle:{}", dep_site(&e)), format!("pczt_txid / into_effects panicked on a PCZT accepted by parse: {e}"));
    let e1 = catch(|| pczt_txid(&p)).map_err(txid_panic)?;
    let e2 = catch(|| pczt_txid(&p2)).map_err(txid_panic)?;
    if !obs.sapling_anchor_placeholder {
        vensure_eq!(e1, e2, "roundtrip-txid-changed", "txid before/after a serialisation round trip");
    } else if let (Ok(a), Ok(b)) = (&e1, &e2) {
        vensure_eq!(a, b, "roundtrip-txid-changed", "txid before/after a serialisation round trip");
    }
    obs.effects_ok = e1.is_ok();
    Ok(obs)
}

#[derive(Clone, Debug)]
struct Mutation {
    kind: u8,
    pos: u32,
    val: u8,
    len: u8,
}

#[derive(Clone, Debug)]
struct EncodingCase {
    copy: CombineCase,
    muts: Vec<Vec<Mutation>>,
    junk: Vec<u8>,
    junk_version: u8,
}

fn arb_encoding_case() -> impl Strategy<Value = EncodingCase> {
    let m = (0u8..8, any::<u32>(), any::<u8>(), 1u8..12).prop_map(|(kind, pos, val, len)| Mutation { kind, pos, val, len });
    (
        arb_combine_case(),
        prop::collection::vec(prop::collection::vec(m, 1..4), 6..14),
        prop::collection::vec(any::<u8>(), 0..200),
        0u8..4,
    )
        .prop_map(|(copy, muts, junk, junk_version)| EncodingCase { copy, muts, junk, junk_version })
}

fn mutate(orig: &[u8], ms: &[Mutation]) -> Vec<u8> {
    let mut b = orig.to_vec();
    for m in ms {
        if b.is_empty() {
            break;
        }
        // positions: half of the time inside the first 600 bytes (global + transparent + headers)
        let span = if m.val & 1 == 0 { b.len().min(600) } else { b.len() };
        let pos = pick_index(m.pos, span);
        match m.kind {
            0 => b[pos] ^= 1 << (m.val % 8),
            1 => b[pos] = m.val,
            2 => b[pos] = b[pos].wrapping_add(1),
            3 => b[pos] = b[pos].wrapping_sub(1),
            4 => b.truncate(pos),
            5 => {
                let ins: Vec<u8> = (0..m.len).map(|i| m.val.wrapping_mul(i + 1)).collect();
                b.splice(pos..pos, ins);
            }
            6 => {
                let end = (pos + m.len as usize).min(b.len());
                b.drain(pos..end);
            }
            _ => {
                // flip the encoding version in the header
                if b.len() >= 8 {
                    b[4] = if b[4] == 1 { 2 } else { 1 };
                }
            }
        }
    }
    b
}

fn check_encoding(ctx: &Ctx, c: &EncodingCase) -> CaseResult {
    let nb = n_bases(ctx);
    let bidx = pick_index(c.copy.base_sel, nb) as u32;
    let b: Arc<Base> = base::base(ctx.seed, bidx);
    let mut one = c.copy.clone();
    one.conflict = None;
    let recipes = build_recipes(&b, &one);
    let r = &recipes[0];
    let desc = || format!("base {bidx} {:?}; fin={:?} {:?}", b.shape, r.fin, r.st);
    let p = materialise(&b, r).map_err(|f| Fail::new(f.signature, format!("{} [{}]", f.msg, desc())))?;
    let bytes = p.clone().serialize().map_err(|e| Fail::new("accepted-not-serializable", format!("{e:?} [{}]", desc())))?;
    let obs = check_pczt_bytes(&bytes).map_err(|f| Fail::new(f.signature, format!("{} [{}]", f.msg, desc())))?;
    vensure!(obs.accepted, "own-encoding-rejected", "parse rejects serialize() output [{}]", desc());
    let parsed = Pczt::parse(&bytes).unwrap();
    let mut known_placeholder = false;
    if ser2(&parsed) != ser2(&p) {
        // the only tolerated difference is the known placeholder finding, classified exactly
        let explained = obs.header_version == 1
            && p.sapling().spends().is_empty()
            && p.sapling().anchor().is_none()
            && *parsed.sapling().anchor() == Some([0u8; 32])
            && ser2(&without_sapling_anchor(&parsed)) == ser2(&without_sapling_anchor(&p));
        if explained {
            if !ctx.known_hit("v1-sapling-absent-anchor-placeholder") {
                vfail!(
                    "v1-sapling-absent-anchor-placeholder",
                    "a v5 PCZT whose spend-less Sapling bundle has no anchor is serialised as v1 and parses back with sapling.anchor = Some([0; 32]) [{}]",
                    desc()
                );
            }
            known_placeholder = true;
        } else {
            vfail!(
                "roundtrip-value-changed",
                "parse(serialize(p)) is not p: {} [{}]",
                first_diff(&format!("{parsed:#?}"), &format!("{p:#?}")),
                desc()
            );
        }
    }
    // the minimal-version rule, predicted from the recipe: v1 iff v5 transaction, every Orchard action
    // carries cv_net, cmx and an encrypted note plaintext, and no non-empty bundle lacks its anchor
    let o_compacted = (0..b.n_oact as u8).any(|i| {
        r.eff(&b, &Key::OAct(recipe::Pool::Orchard, i, OA::CvNet)) == Eff::Absent
            || r.eff(&b, &Key::OAct(recipe::Pool::Orchard, i, OA::Cmx)) == Eff::Absent
            || r.eff(&b, &Key::OAct(recipe::Pool::Orchard, i, OA::EncRepr)) == Eff::Val(1)
    });
    let o_anchor_missing = b.n_oact > 0 && r.eff(&b, &Key::OAnchor(recipe::Pool::Orchard)) == Eff::Absent;
    let s_anchor_missing = b.n_sspend > 0 && r.eff(&b, &Key::SAnchor) == Eff::Absent;
    let predict_v1 = b.shape.fmt == base::Fmt::V5 && !o_compacted && !o_anchor_missing && !s_anchor_missing;
    vensure_eq!(
        obs.header_version,
        if predict_v1 { 1 } else { 2 },
        "version-not-minimal",
        "encoding version chosen by serialize() vs the version the content needs [{}]",
        desc()
    );
    if let Some(t) = txid_of(&p) {
        vensure_eq!(t, b.txid_parts, "copy-txid-changed", "copy implies another transaction id [{}]", desc());
        vensure_eq!(
            zcash_pool_migration::pczt_txid::stored_pczt_txid(&bytes).ok(),
            Some(t),
            "roundtrip-txid-changed",
            "stored_pczt_txid(bytes) vs pczt_txid(value) [{}]",
            desc()
        );
    }
    // mutated encodings (of the native and of the forced-v2 bytes) and junk behind a valid header
    let forced2 = ser2(&p);
    let mut accepted = 0u64;
    let mut rejected = 0u64;
    let mut effects = 0u64;
    let mut placeholder = 0u64;
    let mut known_panics = 0u64;
    for (i, ms) in c.muts.iter().enumerate() {
        let src = if i % 2 == 0 { &bytes } else { &forced2 };
        let m = mutate(src, ms);
        let o = match check_pczt_bytes(&m) {
            Ok(o) => o,
            // a listed panic site: reported as KNOWN-FINDING, the search continues behind it
            Err(f) if f.signature.starts_with("txid-panic-on-malformed-bundle:") && ctx.known_hit(&f.signature) => {
                known_panics += 1;
                continue;
            }
            Err(f) => {
                return Err(Fail::new(
                    f.signature,
                    format!("{} (mutation {ms:?} of the {} bytes; mutant {}) [{}]", f.msg, if i % 2 == 0 { "native" } else { "forced-v2" }, hex::encode(&m), desc()),
                ))
            }
        };
        if o.accepted {
            accepted += 1;
            effects += o.effects_ok as u64;
            placeholder += o.sapling_anchor_placeholder as u64;
            // combining the original with an accepted mutant never panics
            let mp = Pczt::parse(&m).unwrap();
            let _ = combine(vec![p.clone(), mp.clone()])?;
            let _ = combine(vec![mp, p.clone()])?;
        } else {
            rejected += 1;
        }
    }
    let mut junk = b"PCZT".to_vec();
    junk.extend_from_slice(&(c.junk_version as u32).to_le_bytes());
    junk.extend_from_slice(&c.junk);
    let o = check_pczt_bytes(&junk).map_err(|f| Fail::new(f.signature, format!("{} (junk {})", f.msg, hex::encode(&junk))))?;
    accepted += o.accepted as u64;
    for cut in [0usize, 3, 4, 7, 8, 9] {
        let o = check_pczt_bytes(&bytes[..cut.min(bytes.len())])?;
        vensure!(!o.accepted, "truncated-accepted", "a {cut}-byte prefix is accepted as a PCZT");
    }
    if placeholder > 0 && !ctx.known_hit("v1-sapling-absent-anchor-placeholder") {
        vfail!("v1-sapling-absent-anchor-placeholder", "an accepted mutant shows the v1 Sapling anchor placeholder [{}]", desc());
    }
    Ok(Obs::new(r.st.values().any(|s| *s != St::Keep) || r.fin.is_some())
        .key(hash64(format!("{bidx}|{:?}|{:?}|{:?}", r.fin, r.st, c.muts).as_bytes()))
        .count("mutants-accepted", accepted)
        .count("mutants-rejected", rejected)
        .count("mutants-accepted-with-effects", effects)
        .count("mutants-hitting-known-panic", known_panics)
        .label(if obs.header_version == 1 { "encoded-v1" } else { "encoded-v2" })
        .label_if(b.shape.fmt == base::Fmt::V5 && obs.header_version == 2, "v5-forced-to-v2")
        .label_if(known_placeholder, "known-placeholder"))
}

/// "payload @ /root/.cargo/registry/src/<index>/crate-1.2.3/src/x.rs:207" -> "crate-1.2.3/src/x.rs"
fn dep_site(p: &str) -> String {
    let loc = p.rsplit_once(" @ ").map(|(_, l)| l).unwrap_or(p);
    let file = loc.rsplit_once(':').map(|(f, _)| f).unwrap_or(loc);
    match file.split_once(".cargo/registry/src/") {
        Some((_, rest)) => rest.split_once('/').map(|(_, r)| r.to_string()).unwrap_or_else(|| rest.to_string()),
        None => file.trim_start_matches("/repo/").to_string(),
    }
}

fn first_diff(a: &str, b: &str) -> String {
    for (la, lb) in a.lines().zip(b.lines()) {
        if la != lb {
            return format!("got `{}` expected `{}`", la.trim(), lb.trim());
        }
    }
    format!("line counts {} / {}", a.lines().count(), b.lines().count())
}

fn main() {
    if let Ok(d) = std::env::var("C13_DUMP") {
        // developer aid: print one base PCZT
        let seed: u64 = std::env::var("VERIF_SEED").ok().and_then(|s| s.parse().ok()).unwrap_or(1);
        let b = base::base(seed, d.parse().unwrap());
        println!("{:?}\n{:#?}", b.shape, b.pczt);
        return;
    }
    let ctx = Ctx::from_args("C13", "exploration");
    ctx.set_rule("scaffold");
    {
        let c2 = ctx.clone();
        ctx.run_prop("combine", arb_combine_case, ctx.tier.pick(2_600, 150_000), move |c| check_combine(&c2, c));
    }
    {
        let c2 = ctx.clone();
        ctx.run_prop("encoding", arb_encoding_case, ctx.tier.pick(2_400, 120_000), move |c| check_encoding(&c2, c));
    }
    let _ = BTreeMap::<u8, u8>::new();
    ctx.finish();
}

//! C13 — PCZT encoding, combination and roles preserve the transaction.
//!
//! Base PCZTs are built for real (`Builder::build_for_pczt` / `DeferredPcztBuilder` ->
//! `Creator::build_from_parts` -> `IoFinalizer`), in both transaction formats, without proving.
//! Party copies are derived from a base by *recipes* (which optional fields a party removed with the
//! Redactor, which it added with the Updater / Signer / low-level Signer / Spend Finalizer). Oracles:
//!
//! * encoding: serialize -> parse -> serialize fixed point, parsed == original (forced-v2 bytes),
//!   header version 1 iff the v1 conversion succeeds; mutated / arbitrary bytes never panic and
//!   accepted bytes re-serialise to a fixed point (`check_pczt_bytes`, reusable by a fuzz target);
//! * combination: every permutation and random bracketing of `Combiner::combine` yields the value the
//!   harness materialises from the field-wise UNION OF THE RECIPES; idempotence; absorption;
//!   a conflicting value on any field kind, or a copy of another transaction => Err in every order;
//! * roles: the txid implied by the PCZT (`pczt_txid`, `into_effects`) equals the id computed from the
//!   builder's parts, before and after every role in random order; thorough tier: prove + extract.
//! * combine-structure (structure.rs): copies that differ in STRUCTURE (a harness-side Constructor adds
//!   transparent inputs / outputs and shielded items at the wire level, obeying the modifiable flags) and
//!   in the tx_modifiable flags (transparent signatures with all six sighash types, shielded signatures,
//!   IO Finalizer); reference for the flags after every role, for the Combiner's verdict in every order
//!   and bracketing, for the merged flags, the field-wise union, the id and the signatures of the result.

mod base;
mod bytes;
mod recipe;
mod structure;

use std::collections::BTreeSet;
use std::sync::Arc;

use pczt::roles::combiner::{Combiner, Error as CombineError};
use pczt::Pczt;
use proptest::prelude::*;
use rand_chacha::ChaCha20Rng;
use rand_core::{RngCore, SeedableRng};
use vcore::{catch, hash64, pick_index, vensure, vensure_eq, vfail, CaseResult, Ctx, Fail, Obs};
use zcash_pool_migration::pczt_txid::pczt_txid;

use base::Base;
use bytes::{check_pczt_bytes, dep_site, first_diff, ser2, without_sapling_anchor};
use recipe::{materialise, set_vals, union, universe, Eff, Key, Recipe, St, Union, OA};

const MAX_COPIES: usize = 5;

// ---------------------------------------------------------------------------------------------
// Combination
// ---------------------------------------------------------------------------------------------

#[derive(Clone, Debug)]
struct Touch {
    key_sel: u32,
    /// prefer a key some role can set
    settable: bool,
    /// per copy: 0 keep, 1 remove, 2 set
    st: [u8; MAX_COPIES],
    val: u8,
}

#[derive(Clone, Debug)]
struct CombineCase {
    base_sel: u32,
    n: usize,
    touches: Vec<Touch>,
    /// per copy: run the Spend Finalizer
    fin: [bool; MAX_COPIES],
    /// per copy: bit 0 compact the Orchard bundle, bit 1 the Ironwood bundle
    compact: [u8; MAX_COPIES],
    /// per copy: pass through `serialize` -> `parse` before combining
    roundtrip: [bool; MAX_COPIES],
    /// inject two different values for one key into two copies
    conflict: Option<(u32, u8, u8, bool)>,
    /// add a copy of a different transaction
    foreign: Option<u32>,
    order_seed: u64,
}

fn arb_touch() -> impl Strategy<Value = Touch> {
    (
        any::<u32>(),
        prop::bool::weighted(0.6),
        prop::array::uniform5(prop_oneof![4 => Just(0u8), 3 => Just(1u8), 3 => Just(2u8)]),
        prop_oneof![12 => Just(0u8), 4 => Just(1u8), 2 => Just(2u8), 1 => Just(4u8), 1 => Just(5u8)],
    )
        .prop_map(|(key_sel, settable, st, val)| Touch { key_sel, settable, st, val })
}

fn arb_combine_case() -> impl Strategy<Value = CombineCase> {
    (
        any::<u32>(),
        2usize..=MAX_COPIES,
        prop::collection::vec(arb_touch(), 2..14),
        prop::array::uniform5(prop::bool::weighted(0.12)),
        prop::array::uniform5(prop_oneof![20 => Just(0u8), 2 => Just(1u8), 2 => Just(2u8), 2 => Just(3u8), 1 => Just(4u8), 1 => Just(5u8), 1 => Just(6u8)]),
        prop::array::uniform5(prop::bool::weighted(0.3)),
        prop::option::weighted(0.2, (any::<u32>(), 0u8..MAX_COPIES as u8, 1u8..MAX_COPIES as u8, any::<bool>())),
        prop::option::weighted(0.06, any::<u32>()),
        any::<u64>(),
    )
        .prop_map(|(base_sel, n, touches, fin, compact, roundtrip, conflict, foreign, order_seed)| CombineCase {
            base_sel,
            n,
            touches,
            fin,
            compact,
            roundtrip,
            conflict,
            foreign,
            order_seed,
        })
}

/// Interns a (bounded) set of dynamic counter names.
fn static_name(s: &str) -> &'static str {
    static NAMES: std::sync::OnceLock<std::sync::Mutex<std::collections::BTreeMap<String, &'static str>>> = std::sync::OnceLock::new();
    let mut m = NAMES.get_or_init(Default::default).lock().unwrap();
    if let Some(n) = m.get(s) {
        return n;
    }
    let leaked: &'static str = Box::leak(s.to_string().into_boxed_str());
    m.insert(s.to_string(), leaked);
    leaked
}

fn n_bases(ctx: &Ctx) -> usize {
    ctx.tier.pick(192, 4096)
}

fn pick_key(b: &Base, uni: &[Key], settable: &[Key], t: &Touch) -> Key {
    let _ = b;
    if t.settable && !settable.is_empty() {
        settable[pick_index(t.key_sel, settable.len())]
    } else {
        uni[pick_index(t.key_sel, uni.len())]
    }
}

fn build_recipes(b: &Base, c: &CombineCase) -> Vec<Recipe> {
    let uni = universe(b);
    let settable: Vec<Key> = uni.iter().copied().filter(|k| set_vals(b, k) > 0).collect();
    let mut recipes: Vec<Recipe> = (0..c.n).map(|_| Recipe::default()).collect();
    let mut seen = BTreeSet::new();
    for t in &c.touches {
        let k = pick_key(b, &uni, &settable, t);
        if !seen.insert(k) {
            continue;
        }
        // the ciphertext representation is a required field: parties that disagree on it cannot be
        // combined, so mostly all of them agree (val >= 4: let them differ)
        let uniform = matches!(k, Key::OAct(_, _, OA::EncRepr)) && t.val < 4;
        for (ci, r) in recipes.iter_mut().enumerate() {
            let st = match t.st[if uniform { 0 } else { ci }] {
                0 => St::Keep,
                1 => St::Absent,
                _ => St::Set(t.val),
            };
            r.st.insert(k, st);
        }
    }
    for (ci, r) in recipes.iter_mut().enumerate() {
        if c.fin[ci] && b.n_tin > 0 {
            r.fin = Some(0);
        }
        for (bit, pool, n) in [(1u8, recipe::Pool::Orchard, b.n_oact), (2u8, recipe::Pool::Ironwood, b.n_iact)] {
            // compact[0] decides for everybody unless bit 2 of the copy's own entry says otherwise
            let mine = if c.compact[ci] & 4 != 0 { c.compact[ci] } else { c.compact[0] };
            if mine & bit != 0 {
                for i in 0..n as u8 {
                    r.st.insert(Key::OAct(pool, i, OA::EncRepr), St::Set(1));
                    r.st.insert(Key::OAct(pool, i, OA::CvNet), St::Absent);
                    r.st.insert(Key::OAct(pool, i, OA::Cmx), St::Absent);
                }
            }
        }
    }
    // conflict injection: two copies set different values on one settable key
    if let Some((ksel, a, d, fin_conflict)) = c.conflict {
        let a = a as usize % c.n;
        let bb = (a + 1 + (d as usize - 1) % (c.n - 1)) % c.n;
        if fin_conflict && b.n_tin > 0 {
            // two parties finalize the same inputs from different signatures
            recipes[a].fin = Some(0);
            recipes[bb].fin = Some(1);
            for r in recipes.iter_mut() {
                let ks: Vec<Key> = r.st.keys().copied().filter(|k| matches!(k, Key::TInScriptSig(_))).collect();
                for k in ks {
                    r.st.remove(&k);
                }
            }
        } else {
            let multi: Vec<Key> = settable.iter().copied().filter(|k| set_vals(b, k) >= 2).collect();
            if !multi.is_empty() {
                let k = multi[pick_index(ksel, multi.len())];
                recipes[a].st.insert(k, St::Set(0));
                recipes[bb].st.insert(k, St::Set(1));
            }
        }
    }
    for r in recipes.iter_mut() {
        r.normalise(b);
    }
    recipes
}

fn combine(list: Vec<Pczt>) -> Result<Result<Pczt, CombineError>, Fail> {
    catch(|| Combiner::new(list).combine()).map_err(|p| Fail::new("combiner-panic", format!("Combiner::combine panicked: {p}")))
}

/// Random bracketing: split into contiguous groups, combine each group recursively, then the results.
fn combine_tree(items: Vec<Pczt>, rng: &mut ChaCha20Rng) -> Result<Result<Pczt, CombineError>, Fail> {
    if items.len() <= 2 {
        return combine(items);
    }
    let groups = 2 + (rng.next_u32() as usize) % (items.len() - 1);
    // choose `groups - 1` cut points
    let mut cuts: BTreeSet<usize> = BTreeSet::new();
    while cuts.len() < groups - 1 {
        cuts.insert(1 + (rng.next_u32() as usize) % (items.len() - 1));
    }
    let mut parts = vec![];
    let mut cur = vec![];
    for (i, it) in items.into_iter().enumerate() {
        if cuts.contains(&i) {
            parts.push(std::mem::take(&mut cur));
        }
        cur.push(it);
    }
    parts.push(cur);
    let mut combined = vec![];
    for part in parts {
        match combine_tree(part, rng)? {
            Ok(p) => combined.push(p),
            Err(e) => return Ok(Err(e)),
        }
    }
    combine(combined)
}

fn permutations(n: usize) -> Vec<Vec<usize>> {
    fn rec(cur: &mut Vec<usize>, used: &mut Vec<bool>, n: usize, out: &mut Vec<Vec<usize>>) {
        if cur.len() == n {
            out.push(cur.clone());
            return;
        }
        for i in 0..n {
            if !used[i] {
                used[i] = true;
                cur.push(i);
                rec(cur, used, n, out);
                cur.pop();
                used[i] = false;
            }
        }
    }
    let mut out = vec![];
    rec(&mut vec![], &mut vec![false; n], n, &mut out);
    out
}

fn describe_recipes(rs: &[Recipe]) -> String {
    let mut s = String::new();
    for (i, r) in rs.iter().enumerate() {
        s.push_str(&format!("copy{i}: fin={:?} {:?}; ", r.fin, r.st));
    }
    s
}

fn txid_of(p: &Pczt) -> Option<zcash_protocol::TxId> {
    pczt_txid(p).ok()
}

fn check_combine(ctx: &Ctx, c: &CombineCase) -> CaseResult {
    let nb = n_bases(ctx);
    let bidx = pick_index(c.base_sel, nb) as u32;
    let b: Arc<Base> = base::base(ctx.seed, bidx);
    let recipes = build_recipes(&b, c);
    let desc = || format!("base {bidx} {:?}; {}", b.shape, describe_recipes(&recipes));

    let mut copies = vec![];
    for r in &recipes {
        copies.push(materialise(&b, r).map_err(|f| Fail::new(f.signature, format!("{} [{}]", f.msg, desc())))?);
    }
    // every copy still describes the base transaction
    for (i, cp) in copies.iter().enumerate() {
        if let Some(t) = txid_of(cp) {
            vensure_eq!(t, b.txid_parts, "copy-txid-changed", "copy {i} implies another transaction id [{}]", desc());
        }
    }
    let mut rt = 0u64;
    let mut rt_skipped = 0u64;
    for (i, cp) in copies.iter_mut().enumerate() {
        if c.roundtrip[i] {
            // Known finding `v1-sapling-absent-anchor-placeholder` (checked in the encoding sub-check and
            // the regression list): the v1 encoding turns an ABSENT Sapling anchor of a spend-less bundle
            // into Some([0; 32]). Such copies are combined without the byte round trip here.
            if b.shape.fmt == base::Fmt::V5 && b.n_sspend == 0 && recipes[i].eff(&b, &Key::SAnchor) == Eff::Absent {
                rt_skipped += 1;
                continue;
            }
            let bytes = cp.clone().serialize().map_err(|e| Fail::new("serialize-failed", format!("{e:?} [{}]", desc())))?;
            *cp = Pczt::parse(&bytes).map_err(|e| Fail::new("own-encoding-rejected", format!("{e:?} [{}]", desc())))?;
            rt += 1;
        }
    }

    let mut rng = ChaCha20Rng::seed_from_u64(c.order_seed);
    let mut all = copies.clone();
    let mut expect_conflict = None;
    if let Some(fsel) = c.foreign {
        // a copy of ANOTHER transaction (same generator, different index)
        let other = (bidx as usize + 1 + pick_index(fsel, nb - 1)) % nb;
        let ob = base::base(ctx.seed, other as u32);
        all.push(ob.pczt.clone());
        expect_conflict = Some(format!("copy of another transaction (base {other})"));
    }
    let u = union(&b, &recipes);
    if let Union::Conflict(k, v1, v2) = &u {
        expect_conflict.get_or_insert(format!("{k:?} carries values {v1} and {v2}"));
    }
    let n = all.len();
    let mut orders = if n <= 4 {
        permutations(n)
    } else {
        let mut v = vec![(0..n).collect::<Vec<_>>(), (0..n).rev().collect()];
        while v.len() < 24 {
            let mut p: Vec<usize> = (0..n).collect();
            for i in (1..n).rev() {
                p.swap(i, (rng.next_u32() as usize) % (i + 1));
            }
            v.push(p);
        }
        v
    };
    // a few of them are evaluated with random bracketings as well
    let n_tree = orders.len().min(6);
    let tree_orders: Vec<Vec<usize>> = (0..n_tree).map(|i| orders[(i * 7 + 3) % orders.len()].clone()).collect();
    let flat = orders.len();
    orders.extend(tree_orders);

    let mut results: Vec<Vec<u8>> = vec![];
    let mut first: Option<Pczt> = None;
    for (oi, ord) in orders.iter().enumerate() {
        let list: Vec<Pczt> = ord.iter().map(|i| all[*i].clone()).collect();
        let r = if oi < flat { combine(list)? } else { combine_tree(list, &mut rng)? };
        match (&expect_conflict, r) {
            (Some(why), Ok(_)) => {
                vfail!("conflict-accepted", "order {ord:?}{} combined although {why} [{}]", if oi < flat { "" } else { " (bracketed)" }, desc())
            }
            (Some(_), Err(CombineError::DataMismatch)) => {}
            (Some(_), Err(e)) => vfail!("conflict-wrong-error", "order {ord:?}: {e:?} [{}]", desc()),
            (None, Err(e)) => {
                vfail!("combine-rejected-compatible", "order {ord:?}{} failed with {e:?} on copies of one transaction without conflicting fields [{}]", if oi < flat { "" } else { " (bracketed)" }, desc())
            }
            (None, Ok(p)) => {
                results.push(ser2(&p));
                if first.is_none() {
                    first = Some(p);
                }
            }
        }
    }

    let mut diff_kinds = BTreeSet::new();
    let mut diff_bundles = BTreeSet::new();
    for k in recipe::touched(&b, &recipes) {
        let effs: BTreeSet<Eff> = recipes.iter().map(|r| r.eff(&b, &k)).collect();
        // "kept" vs "removed" is a difference only if the base carries the field at all
        let only_base_vs_absent = effs.iter().all(|e| matches!(e, Eff::Base | Eff::Absent));
        if effs.len() > 1 && (!only_base_vs_absent || recipe::base_has(&b, &k)) {
            diff_kinds.insert(k.kind());
            diff_bundles.insert(k.bundle());
        }
    }
    let nontrivial = c.n >= 2 && diff_kinds.len() >= 2 && diff_bundles.len() >= 2;
    let kind_counters: Vec<&'static str> = diff_kinds.iter().map(|k| static_name(&format!("differs:{k}"))).collect();
    let mut obs = Obs::new(nontrivial)
        .key(hash64(format!("{bidx}|{}", describe_recipes(&recipes)).as_bytes()))
        .count("orders", orders.len() as u64)
        .count("roundtripped-copies", rt)
        .count("roundtrip-skipped-known-placeholder", rt_skipped)
        .count("differing-field-kinds", diff_kinds.len() as u64)
        .label(match b.shape.fmt {
            base::Fmt::V5 => "base-v5",
            base::Fmt::V6 => "base-v6",
            base::Fmt::V6Deferred => "base-v6-deferred",
        })
        .label_if(recipes.iter().any(|r| r.fin.is_some()), "has-spend-finalizer-copy")
        .label_if(c.n >= 4, "copies>=4");
    for k in kind_counters {
        obs = obs.count(k, 1);
    }

    if let Some(_why) = expect_conflict {
        return Ok(obs.label("conflict").label_if(c.foreign.is_some(), "conflict-foreign-tx").label_if(matches!(u, Union::Conflict(..)), "conflict-field"));
    }
    let Union::Ok(urecipe) = u else { unreachable!() };
    let expected = materialise(&b, &urecipe).map_err(|f| Fail::new(f.signature, format!("expected union: {} [{}] union={urecipe:?}", f.msg, desc())))?;
    let exp_bytes = ser2(&expected);
    // Known finding `combine-drops-bsk`: a bundle's `bsk` carried only by a later input is dropped.
    // Classified precisely: every order yields either the union or the union without exactly the bsk
    // values on which the copies differ.
    let bsk_split: Vec<Key> = [Key::SBsk, Key::OBsk(recipe::Pool::Orchard), Key::OBsk(recipe::Pool::Ironwood)]
        .into_iter()
        .filter(|k| {
            let e: BTreeSet<Eff> = recipes.iter().map(|r| r.eff(&b, k)).collect();
            e.len() > 1
        })
        .collect();
    if !bsk_split.is_empty() && results.iter().any(|r| *r != exp_bytes) {
        let mut variants = vec![exp_bytes.clone()];
        for mask in 1u32..(1 << bsk_split.len()) {
            let mut r2 = urecipe.clone();
            for (i, k) in bsk_split.iter().enumerate() {
                if mask & (1 << i) != 0 {
                    r2.st.insert(*k, St::Absent);
                }
            }
            variants.push(ser2(&materialise(&b, &r2)?));
        }
        if results.iter().all(|r| variants.contains(r)) {
            let bad = results.iter().position(|r| *r != exp_bytes).unwrap();
            vfail!(
                "combine-drops-bsk",
                "order {:?} loses {:?} although an input carries it (result is otherwise the union of the inputs) [{}]",
                orders[bad],
                bsk_split,
                desc()
            );
        }
    }
    // one result for every order and bracketing
    for (i, r) in results.iter().enumerate() {
        vensure!(
            *r == results[0],
            "combine-order-dependent",
            "order {:?} gives a different PCZT than order {:?} (lengths {} / {}) [{}]",
            orders[i],
            orders[0],
            r.len(),
            results[0].len(),
            desc()
        );
    }
    // ... and it is the union of the recipes
    if exp_bytes != results[0] {
        let got = first.as_ref().unwrap();
        vfail!(
            "combine-not-union",
            "combined PCZT differs from the union of the inputs' fields ({} vs {} bytes); union recipe {urecipe:?}; first differing debug line: {} [{}]",
            results[0].len(),
            exp_bytes.len(),
            first_diff(&format!("{got:#?}"), &format!("{expected:#?}")),
            desc()
        );
    }
    let result = first.unwrap();
    if let Some(t) = txid_of(&result) {
        vensure_eq!(t, b.txid_parts, "combine-txid-changed", "combined PCZT implies another transaction id [{}]", desc());
        obs = obs.label("result-txid-checked");
    }
    // idempotence and absorption
    for (i, cp) in copies.iter().enumerate() {
        let cc = combine(vec![cp.clone(), cp.clone()])?.map_err(|e| Fail::new("combine-not-idempotent", format!("combine(c,c) failed: {e:?} (copy {i}) [{}]", desc())))?;
        vensure!(ser2(&cc) == ser2(cp), "combine-not-idempotent", "combine(c,c) != c for copy {i} [{}]", desc());
        let single = combine(vec![cp.clone()])?.map_err(|e| Fail::new("combine-not-idempotent", format!("combine([c]) failed: {e:?} [{}]", desc())))?;
        vensure!(ser2(&single) == ser2(cp), "combine-not-idempotent", "combine([c]) != c for copy {i} [{}]", desc());
        for (a, bb) in [(result.clone(), cp.clone()), (cp.clone(), result.clone())] {
            let ab = combine(vec![a, bb])?.map_err(|e| Fail::new("combine-not-absorbing", format!("combine(result, copy {i}) failed: {e:?} [{}]", desc())))?;
            vensure!(ser2(&ab) == results[0], "combine-not-absorbing", "combining the result with its own input {i} changes it [{}]", desc());
        }
    }
    Ok(obs.label("combined").label_if(rt > 0, "with-roundtripped-copy"))
}

// ---------------------------------------------------------------------------------------------
// Encoding
// ---------------------------------------------------------------------------------------------

#[derive(Clone, Debug)]
struct Mutation {
    kind: u8,
    pos: u32,
    val: u8,
    len: u8,
}

#[derive(Clone, Debug)]
struct EncodingCase {
    copy: CombineCase,
    muts: Vec<Vec<Mutation>>,
    junk: Vec<u8>,
    junk_version: u8,
}

fn arb_encoding_case() -> impl Strategy<Value = EncodingCase> {
    let m = (0u8..8, any::<u32>(), any::<u8>(), 1u8..12).prop_map(|(kind, pos, val, len)| Mutation { kind, pos, val, len });
    (
        arb_combine_case(),
        prop::collection::vec(prop::collection::vec(m, 1..4), 6..14),
        prop::collection::vec(any::<u8>(), 0..200),
        0u8..4,
    )
        .prop_map(|(copy, muts, junk, junk_version)| EncodingCase { copy, muts, junk, junk_version })
}

fn mutate(orig: &[u8], ms: &[Mutation]) -> Vec<u8> {
    let mut b = orig.to_vec();
    for m in ms {
        if b.is_empty() {
            break;
        }
        // positions: half of the time inside the first 600 bytes (global + transparent + headers)
        let span = if m.val & 1 == 0 { b.len().min(600) } else { b.len() };
        let pos = pick_index(m.pos, span);
        match m.kind {
            0 => b[pos] ^= 1 << (m.val % 8),
            1 => b[pos] = m.val,
            2 => b[pos] = b[pos].wrapping_add(1),
            3 => b[pos] = b[pos].wrapping_sub(1),
            4 => b.truncate(pos),
            5 => {
                let ins: Vec<u8> = (0..m.len).map(|i| m.val.wrapping_mul(i + 1)).collect();
                b.splice(pos..pos, ins);
            }
            6 => {
                let end = (pos + m.len as usize).min(b.len());
                b.drain(pos..end);
            }
            _ => {
                // flip the encoding version in the header
                if b.len() >= 8 {
                    b[4] = if b[4] == 1 { 2 } else { 1 };
                }
            }
        }
    }
    b
}

fn check_encoding(ctx: &Ctx, c: &EncodingCase) -> CaseResult {
    let nb = n_bases(ctx);
    let bidx = pick_index(c.copy.base_sel, nb) as u32;
    let b: Arc<Base> = base::base(ctx.seed, bidx);
    let mut one = c.copy.clone();
    one.conflict = None;
    let recipes = build_recipes(&b, &one);
    let r = &recipes[0];
    let desc = || format!("base {bidx} {:?}; fin={:?} {:?}", b.shape, r.fin, r.st);
    let p = materialise(&b, r).map_err(|f| Fail::new(f.signature, format!("{} [{}]", f.msg, desc())))?;
    let bytes = p.clone().serialize().map_err(|e| Fail::new("accepted-not-serializable", format!("{e:?} [{}]", desc())))?;
    let obs = check_pczt_bytes(&bytes).map_err(|f| Fail::new(f.signature, format!("{} [{}]", f.msg, desc())))?;
    vensure!(obs.accepted, "own-encoding-rejected", "parse rejects serialize() output [{}]", desc());
    let parsed = Pczt::parse(&bytes).unwrap();
    let mut known_placeholder = false;
    if ser2(&parsed) != ser2(&p) {
        // the only tolerated difference is the known placeholder finding, classified exactly
        let explained = obs.header_version == 1
            && p.sapling().spends().is_empty()
            && p.sapling().anchor().is_none()
            && *parsed.sapling().anchor() == Some([0u8; 32])
            && ser2(&without_sapling_anchor(&parsed)) == ser2(&without_sapling_anchor(&p));
        if explained {
            if !ctx.known_hit("v1-sapling-absent-anchor-placeholder") {
                vfail!(
                    "v1-sapling-absent-anchor-placeholder",
                    "a v5 PCZT whose spend-less Sapling bundle has no anchor is serialised as v1 and parses back with sapling.anchor = Some([0; 32]) [{}]",
                    desc()
                );
            }
            known_placeholder = true;
        } else {
            vfail!(
                "roundtrip-value-changed",
                "parse(serialize(p)) is not p: {} [{}]",
                first_diff(&format!("{parsed:#?}"), &format!("{p:#?}")),
                desc()
            );
        }
    }
    // the minimal-version rule, predicted from the recipe: v1 iff v5 transaction, every Orchard action
    // carries cv_net, cmx and an encrypted note plaintext, and no non-empty bundle lacks its anchor
    let o_compacted = (0..b.n_oact as u8).any(|i| {
        r.eff(&b, &Key::OAct(recipe::Pool::Orchard, i, OA::CvNet)) == Eff::Absent
            || r.eff(&b, &Key::OAct(recipe::Pool::Orchard, i, OA::Cmx)) == Eff::Absent
            || r.eff(&b, &Key::OAct(recipe::Pool::Orchard, i, OA::EncRepr)) == Eff::Val(1)
    });
    let o_anchor_missing = b.n_oact > 0 && r.eff(&b, &Key::OAnchor(recipe::Pool::Orchard)) == Eff::Absent;
    let s_anchor_missing = b.n_sspend > 0 && r.eff(&b, &Key::SAnchor) == Eff::Absent;
    let predict_v1 = b.shape.fmt == base::Fmt::V5 && !o_compacted && !o_anchor_missing && !s_anchor_missing;
    vensure_eq!(
        obs.header_version,
        if predict_v1 { 1 } else { 2 },
        "version-not-minimal",
        "encoding version chosen by serialize() vs the version the content needs [{}]",
        desc()
    );
    if let Some(t) = txid_of(&p) {
        vensure_eq!(t, b.txid_parts, "copy-txid-changed", "copy implies another transaction id [{}]", desc());
        vensure_eq!(
            zcash_pool_migration::pczt_txid::stored_pczt_txid(&bytes).ok(),
            Some(t),
            "roundtrip-txid-changed",
            "stored_pczt_txid(bytes) vs pczt_txid(value) [{}]",
            desc()
        );
    }
    // mutated encodings (of the native and of the forced-v2 bytes) and junk behind a valid header
    let forced2 = ser2(&p);
    let mut accepted = 0u64;
    let mut rejected = 0u64;
    let mut effects = 0u64;
    let mut placeholder = 0u64;
    let mut known_panics = 0u64;
    for (i, ms) in c.muts.iter().enumerate() {
        let src = if i % 2 == 0 { &bytes } else { &forced2 };
        let m = mutate(src, ms);
        let o = match check_pczt_bytes(&m) {
            Ok(o) => o,
            // a listed panic site: reported as KNOWN-FINDING, the search continues behind it
            // OBSERVATION outside property C13's statement (which has no never-panics clause): bytes that
            // Pczt::parse accepts but whose Sapling proof_generation_key ak is not a point make pczt_txid /
            // into_effects / Signer::new panic inside sapling-crypto (expect() in CtOption::and_then).
            // Stepped over silently (DESIGN.md section 9.4).
            Err(f) if f.signature.starts_with("txid-panic-on-malformed-bundle:") => {
                known_panics += 1;
                continue;
            }
            Err(f) => {
                return Err(Fail::new(
                    f.signature,
                    format!("{} (mutation {ms:?} of the {} bytes; mutant {}) [{}]", f.msg, if i % 2 == 0 { "native" } else { "forced-v2" }, hex::encode(&m), desc()),
                ))
            }
        };
        if o.accepted {
            accepted += 1;
            effects += o.effects_ok as u64;
            placeholder += o.sapling_anchor_placeholder as u64;
            // combining the original with an accepted mutant never panics
            let mp = Pczt::parse(&m).unwrap();
            let _ = combine(vec![p.clone(), mp.clone()])?;
            let _ = combine(vec![mp, p.clone()])?;
        } else {
            rejected += 1;
        }
    }
    let mut junk = b"PCZT".to_vec();
    junk.extend_from_slice(&(c.junk_version as u32).to_le_bytes());
    junk.extend_from_slice(&c.junk);
    let o = check_pczt_bytes(&junk).map_err(|f| Fail::new(f.signature, format!("{} (junk {})", f.msg, hex::encode(&junk))))?;
    accepted += o.accepted as u64;
    for cut in [0usize, 3, 4, 7, 8, 9] {
        let o = check_pczt_bytes(&bytes[..cut.min(bytes.len())])?;
        vensure!(!o.accepted, "truncated-accepted", "a {cut}-byte prefix is accepted as a PCZT");
    }
    if placeholder > 0 && !ctx.known_hit("v1-sapling-absent-anchor-placeholder") {
        vfail!("v1-sapling-absent-anchor-placeholder", "an accepted mutant shows the v1 Sapling anchor placeholder [{}]", desc());
    }
    Ok(Obs::new(r.st.values().any(|s| *s != St::Keep) || r.fin.is_some())
        .key(hash64(format!("{bidx}|{:?}|{:?}|{:?}", r.fin, r.st, c.muts).as_bytes()))
        .count("mutants-accepted", accepted)
        .count("mutants-rejected", rejected)
        .count("mutants-accepted-with-effects", effects)
        .count("mutants-hitting-known-panic", known_panics)
        .label(if obs.header_version == 1 { "encoded-v1" } else { "encoded-v2" })
        .label_if(b.shape.fmt == base::Fmt::V5 && obs.header_version == 2, "v5-forced-to-v2")
        .label_if(known_placeholder, "known-placeholder"))
}

// ---------------------------------------------------------------------------------------------
// Roles
// ---------------------------------------------------------------------------------------------

#[derive(Clone, Debug)]
enum Step {
    /// Updater / Signer(apply) / low-level Signer additions: (key selector, value variant)
    Add(Vec<(u32, u8)>),
    /// `Signer::sign_*` with the real keys; bit i of the mask selects the i-th signable item
    SignHigh(u16),
    /// Redactor: (key selector, any key / settable key)
    Redact(Vec<(u32, bool)>),
    CombineSelf,
    CombineSnapshot(u8, bool),
    FinalizeSpends,
    Verify(u8),
    Roundtrip(bool),
    IoFinalizeAgain,
    LowLevelNoop(u8),
}

#[derive(Clone, Debug)]
struct RolesCase {
    base_sel: u32,
    refinalize: bool,
    /// start from a PCZT as a foreign Constructor could emit it: one transparent input with a
    /// sequence number / required lock time / other sighash type (kind, input selector, value)
    wire: Option<(u8, u32, u32)>,
    steps: Vec<Step>,
}

fn arb_step() -> impl Strategy<Value = Step> {
    prop_oneof![
        5 => prop::collection::vec((any::<u32>(), prop_oneof![9 => Just(0u8), 1 => Just(1u8)]), 1..6).prop_map(Step::Add),
        3 => any::<u16>().prop_map(Step::SignHigh),
        5 => prop::collection::vec((any::<u32>(), any::<bool>()), 1..8).prop_map(Step::Redact),
        1 => Just(Step::CombineSelf),
        2 => (any::<u8>(), any::<bool>()).prop_map(|(i, o)| Step::CombineSnapshot(i, o)),
        2 => Just(Step::FinalizeSpends),
        3 => (0u8..4).prop_map(Step::Verify),
        2 => any::<bool>().prop_map(Step::Roundtrip),
        1 => Just(Step::IoFinalizeAgain),
        2 => (0u8..4).prop_map(Step::LowLevelNoop),
    ]
}

fn arb_roles_case() -> impl Strategy<Value = RolesCase> {
    (
        any::<u32>(),
        prop::bool::weighted(0.15),
        prop::option::weighted(0.3, (0u8..4, any::<u32>(), any::<u32>())),
        prop::collection::vec(arb_step(), 3..12),
    )
        .prop_map(|(base_sel, refinalize, wire, steps)| RolesCase { base_sel, refinalize, wire, steps })
}

const SOFT: &str = "role-rejected-valid-request";

fn soft<E: std::fmt::Debug>(what: &'static str) -> impl Fn(E) -> Fail {
    move |e| Fail::new(SOFT, format!("{what}: {e:?}"))
}

fn pool_bundle(p: &Pczt, pool: recipe::Pool) -> &pczt::orchard::Bundle {
    match pool {
        recipe::Pool::Orchard => p.orchard(),
        recipe::Pool::Ironwood => p.ironwood(),
    }
}

/// Does the documentation promise that the effects (hence the txid) of `p` can be computed?
/// v5 needs the anchors of non-empty bundles; a missing `cv_net` needs both values and `rcv`; a
/// missing `cmx` or a memo-plaintext `enc_ciphertext` needs the output's recipient, value and rseed.
fn effects_promised(b: &Base, p: &Pczt, gone: &BTreeSet<Key>) -> bool {
    if !b.v6 {
        if (!p.sapling().spends().is_empty() || !p.sapling().outputs().is_empty()) && p.sapling().anchor().is_none() {
            return false;
        }
        if !p.orchard().actions().is_empty() && p.orchard().anchor().is_none() {
            return false;
        }
    }
    for pool in [recipe::Pool::Orchard, recipe::Pool::Ironwood] {
        for (i, a) in pool_bundle(p, pool).actions().iter().enumerate() {
            let i = i as u8;
            let out_known = a.output().recipient().is_some() && a.output().value().is_some() && a.output().rseed().is_some();
            if a.cv_net().is_none()
                && (gone.contains(&Key::OAct(pool, i, OA::SpValue)) || gone.contains(&Key::OAct(pool, i, OA::Rcv)) || a.output().value().is_none())
            {
                return false;
            }
            // the orchard crate parses a spend's rseed relative to its rho (ParseError::MissingRho)
            if gone.contains(&Key::OAct(pool, i, OA::SpRho)) && !gone.contains(&Key::OAct(pool, i, OA::SpRseed)) {
                return false;
            }
            if a.output().cmx().is_none() && !out_known {
                return false;
            }
            if matches!(a.output().enc_ciphertext(), pczt::orchard::EncCiphertext::MemoPlaintext(_)) && !out_known {
                return false;
            }
        }
    }
    true
}

fn compacted(p: &Pczt, pool: recipe::Pool) -> bool {
    pool_bundle(p, pool).actions().iter().any(|a| {
        a.cv_net().is_none() || a.output().cmx().is_none() || matches!(a.output().enc_ciphertext(), pczt::orchard::EncCiphertext::MemoPlaintext(_))
    })
}

/// Every signature carried by `p` verifies against the signature hashes computed from the builder's
/// parts. Returns the number of signatures checked.
fn verify_signatures(b: &Base, p: &Pczt) -> Result<u64, Fail> {
    use pczt::roles::verifier::Verifier;
    let mut n = 0u64;
    let mut bad: Option<String> = None;
    let secp = secp256k1::Secp256k1::verification_only();
    let _ = Verifier::new(p.clone()).with_transparent::<(), _>(|t| {
        for (i, inp) in t.inputs().iter().enumerate() {
            for (pk, sig) in inp.partial_signatures() {
                n += 1;
                let ok = (|| {
                    let (der, ty) = sig.split_at(sig.len().checked_sub(1)?);
                    if ty != [1u8] {
                        return None;
                    }
                    let s = secp256k1::ecdsa::Signature::from_der(der).ok()?;
                    let pk = secp256k1::PublicKey::from_slice(pk).ok()?;
                    secp.verify_ecdsa(&secp256k1::Message::from_digest(b.t_sighash_parts[i]), &s, &pk).ok()
                })();
                if ok.is_none() {
                    bad = Some(format!("transparent input {i}: partial signature of {} does not verify", hex::encode(pk)));
                }
            }
        }
        Ok(())
    });
    let _ = Verifier::new(p.clone()).with_sapling::<(), _>(|sb| {
        for (i, sp) in sb.spends().iter().enumerate() {
            if let Some(sig) = sp.spend_auth_sig() {
                n += 1;
                if sp.rk().verify(&b.sighash_parts, sig).is_err() {
                    bad = Some(format!("sapling spend {i}: spend_auth_sig does not verify under rk"));
                }
            }
        }
        Ok(())
    });
    for ironwood in [false, true] {
        let f = |ob: &orchard::pczt::Bundle| {
            for (i, a) in ob.actions().iter().enumerate() {
                if let Some(sig) = a.spend().spend_auth_sig() {
                    n += 1;
                    if a.spend().rk().verify(&b.sighash_parts, sig).is_err() {
                        bad = Some(format!("{} action {i}: spend_auth_sig does not verify under rk", if ironwood { "ironwood" } else { "orchard" }));
                    }
                }
            }
            Ok(())
        };
        let _ = if ironwood { Verifier::new(p.clone()).with_ironwood::<(), _>(f).map(|_| ()) } else { Verifier::new(p.clone()).with_orchard::<(), _>(f).map(|_| ()) };
    }
    match bad {
        Some(m) => Err(Fail::new("signature-invalid", m)),
        None => Ok(n),
    }
}

#[allow(clippy::too_many_arguments)]
fn apply_step(
    b: &Base,
    p: &Pczt,
    step: &Step,
    snapshots: &[Pczt],
    snap_gone: &[BTreeSet<Key>],
    gone: &mut BTreeSet<Key>,
    uni: &[Key],
    settable: &[Key],
    foreign: bool,
) -> Result<Pczt, Fail> {
    use pczt::roles::{io_finalizer::IoFinalizer, low_level_signer, signer::Signer, spend_finalizer::SpendFinalizer, updater::Updater, verifier::Verifier};
    match step {
        Step::Add(list) => {
            let mut r = Recipe::default();
            for (sel, v) in list {
                if settable.is_empty() {
                    break;
                }
                let k = settable[pick_index(*sel, settable.len())];
                // anchors and witnesses: only the real values here (replacing them is the combination check's business)
                let v = match k {
                    Key::SAnchor | Key::OAnchor(_) | Key::SSp(_, recipe::SSp::Witness) | Key::OAct(_, _, OA::SpWitness) | Key::OAct(_, _, OA::EncRepr) => 0,
                    _ => *v,
                };
                if matches!(k, Key::OAct(_, _, OA::EncRepr)) {
                    continue;
                }
                r.st.insert(k, St::Set(v));
            }
            r.normalise(b);
            recipe::apply_to(b, p.clone(), &r)
        }
        Step::SignHigh(mask) => {
            let mut bit = 0;
            let mut take = || {
                bit += 1;
                mask & (1 << ((bit - 1) % 16)) != 0
            };
            let mut q = p.clone();
            // the Signer's Sapling API needs the proof generation key
            let s_sel: Vec<usize> = b.s_spend_idx.iter().copied().filter(|_| take()).collect();
            if !s_sel.is_empty() {
                let pgk = b.s_extsk.as_ref().unwrap().expsk.proof_generation_key();
                q = Updater::new(q)
                    .update_sapling_with(|mut u| {
                        for i in &s_sel {
                            u.update_spend_with(*i, |mut su| su.set_proof_generation_key(pgk.clone()))?;
                        }
                        Ok(())
                    })
                    .map_err(soft("Updater::update_sapling_with"))?
                    .finish();
            }
            let mut signer = Signer::new(q).map_err(soft("Signer::new"))?;
            if !foreign {
                vensure_eq!(signer.shielded_sighash(), b.sighash_parts, "sighash-wrong", "Signer::shielded_sighash vs the hash computed from the builder's parts");
            }
            for i in 0..b.n_tin {
                if take() {
                    // finalized P2SH inputs have lost their redeem script; the Signer then refuses
                    let h = signer.transparent_sighash(i).map_err(soft("Signer::transparent_sighash"))?;
                    if !foreign {
                        vensure_eq!(h, b.t_sighash_parts[i], "sighash-wrong", "Signer::transparent_sighash({i}) vs the hash computed from the builder's parts");
                    }
                    signer.sign_transparent(i, &b.t_sks[i][0]).map_err(soft("Signer::sign_transparent"))?;
                }
            }
            for i in &s_sel {
                signer.sign_sapling(*i, &b.s_extsk.as_ref().unwrap().expsk.ask).map_err(soft("Signer::sign_sapling"))?;
            }
            for i in &b.o_sign_idx {
                if take() {
                    signer
                        .sign_orchard(*i, &orchard::keys::SpendAuthorizingKey::from(b.o_sk.as_ref().unwrap()))
                        .map_err(soft("Signer::sign_orchard"))?;
                }
            }
            for i in &b.i_sign_idx {
                if take() {
                    signer
                        .sign_ironwood(*i, &orchard::keys::SpendAuthorizingKey::from(b.i_sk.as_ref().unwrap()))
                        .map_err(soft("Signer::sign_ironwood"))?;
                }
            }
            Ok(signer.finish())
        }
        Step::Redact(list) => {
            let mut r = Recipe::default();
            for (sel, any) in list {
                let k = if *any || settable.is_empty() { uni[pick_index(*sel, uni.len())] } else { settable[pick_index(*sel, settable.len())] };
                if let Key::OAct(pool, i, OA::EncRepr) = k {
                    if recipe::memo_ok(b, pool, i) {
                        r.st.insert(k, St::Set(1));
                    }
                } else {
                    r.st.insert(k, St::Absent);
                    gone.insert(k);
                }
            }
            Ok(recipe::redact(b, p.clone(), &r))
        }
        Step::CombineSelf => {
            let q = combine(vec![p.clone(), p.clone()])?.map_err(|e| Fail::new("combine-not-idempotent", format!("combine(p,p) failed: {e:?}")))?;
            vensure!(ser2(&q) == ser2(p), "combine-not-idempotent", "combine(p,p) != p");
            Ok(q)
        }
        Step::CombineSnapshot(i, order) => {
            let si = *i as usize % snapshots.len();
            let other = snapshots[si].clone();
            let list = if *order { vec![p.clone(), other] } else { vec![other, p.clone()] };
            match combine(list)? {
                Ok(q) => {
                    // the snapshot brings back what was removed since (and only that)
                    *gone = gone.intersection(&snap_gone[si]).copied().collect();
                    Ok(q)
                }
                Err(CombineError::DataMismatch) => Err(Fail::new(SOFT, "Combiner: DataMismatch with an earlier snapshot")),
                Err(e) => Err(Fail::new("conflict-wrong-error", format!("{e:?}"))),
            }
        }
        Step::FinalizeSpends => SpendFinalizer::new(p.clone()).finalize_spends().map_err(soft("SpendFinalizer::finalize_spends")),
        Step::Verify(w) => {
            let v = Verifier::new(p.clone());
            let (q, pool) = match w {
                0 => (v.with_transparent::<(), _>(|_| Ok(())).map_err(soft("Verifier::with_transparent"))?.finish(), None),
                1 => (v.with_sapling::<(), _>(|_| Ok(())).map_err(soft("Verifier::with_sapling"))?.finish(), None),
                2 => (v.with_orchard::<(), _>(|_| Ok(())).map_err(soft("Verifier::with_orchard"))?.finish(), Some(recipe::Pool::Orchard)),
                _ => (v.with_ironwood::<(), _>(|_| Ok(())).map_err(soft("Verifier::with_ironwood"))?.finish(), Some(recipe::Pool::Ironwood)),
            };
            // the Verifier only looks: unless it had to resolve compacted fields, nothing changes
            if pool.map_or(true, |pl| !compacted(p, pl)) {
                vensure!(ser2(&q) == ser2(p), "verifier-changed-pczt", "Verifier (bundle {w}) returned a different PCZT: {}", first_diff(&format!("{q:#?}"), &format!("{p:#?}")));
            }
            Ok(q)
        }
        Step::Roundtrip(forced_v2) => {
            // known finding v1-sapling-absent-anchor-placeholder: not re-reported from here
            if !b.v6 && p.sapling().spends().is_empty() && p.sapling().anchor().is_none() && !*forced_v2 {
                return Err(Fail::new(SOFT, "skipped (known placeholder finding)"));
            }
            let bytes = if *forced_v2 { ser2(p) } else { p.clone().serialize().map_err(|e| Fail::new("accepted-not-serializable", format!("{e:?}")))? };
            let q = Pczt::parse(&bytes).map_err(|e| Fail::new("own-encoding-rejected", format!("{e:?}")))?;
            vensure!(ser2(&q) == ser2(p), "roundtrip-value-changed", "parse(serialize(p)) is not p: {}", first_diff(&format!("{q:#?}"), &format!("{p:#?}")));
            Ok(q)
        }
        Step::IoFinalizeAgain => IoFinalizer::new(p.clone()).finalize_io().map_err(soft("IoFinalizer::finalize_io")),
        Step::LowLevelNoop(w) => {
            let s = low_level_signer::Signer::new(p.clone());
            let (q, pool) = match w {
                0 => (s.sign_transparent_with::<recipe::LErr, _>(|_, _, _| Ok(())).map_err(soft("low_level_signer::sign_transparent_with"))?.finish(), None),
                1 => (s.sign_sapling_with::<recipe::LErr, _>(|_, _, _| Ok(())).map_err(soft("low_level_signer::sign_sapling_with"))?.finish(), None),
                2 => (s.sign_orchard_with::<recipe::LErr, _>(|_, _, _| Ok(())).map_err(soft("low_level_signer::sign_orchard_with"))?.finish(), Some(recipe::Pool::Orchard)),
                _ => (s.sign_ironwood_with::<recipe::LErr, _>(|_, _, _| Ok(())).map_err(soft("low_level_signer::sign_ironwood_with"))?.finish(), Some(recipe::Pool::Ironwood)),
            };
            if pool.map_or(true, |pl| !compacted(p, pl)) {
                vensure!(ser2(&q) == ser2(p), "low-level-signer-changed-pczt", "a signing closure that does nothing changed the PCZT (bundle {w}): {}", first_diff(&format!("{q:#?}"), &format!("{p:#?}")));
            }
            Ok(q)
        }
    }
}

fn leb128(mut v: u32) -> Vec<u8> {
    let mut out = vec![];
    loop {
        let b = (v & 0x7f) as u8;
        v >>= 7;
        if v == 0 {
            out.push(b);
            return out;
        }
        out.push(b | 0x80);
    }
}

fn find(hay: &[u8], needle: &[u8], from: usize) -> Option<usize> {
    if needle.is_empty() || hay.len() < needle.len() {
        return None;
    }
    (from..=hay.len() - needle.len()).find(|i| &hay[*i..*i + needle.len()] == needle)
}

/// The creator's PCZT with one transparent input changed the way a foreign Constructor may set it
/// (the in-repo builder always emits sequence: None, no required lock times, SIGHASH_ALL). The change
/// is patched into the serialisation and parsed back. Returns the description and the PCZT.
fn wire_variant(b: &Base, kind: u8, input_sel: u32, val: u32) -> Option<(String, Pczt)> {
    if b.n_tin == 0 {
        return None;
    }
    let i = pick_index(input_sel, b.n_tin);
    let mut bytes = b.pre_io.clone().serialize().ok()?;
    let inp = &b.pre_io.transparent().inputs()[i];
    let at = find(&bytes, inp.prevout_txid(), 8)?;
    let t = at + 32 + 1; // prevout index < 4: one byte
    if bytes.get(t..t + 4)? != [0, 0, 0, 0] {
        return None;
    }
    let (what, pos, payload): (String, usize, Vec<u8>) = match kind {
        0 => {
            let v = [0u32, 1, 0xffff_fffe, 0xffff_ffff, val][(val % 5) as usize];
            (format!("input {i}: sequence = {v}"), t, leb128(v))
        }
        1 => {
            let v = 500_000_000 + val % 1_000_000_000;
            (format!("input {i}: required_time_lock_time = {v}"), t + 1, leb128(v))
        }
        2 => {
            let v = 1 + val % 499_999_999;
            (format!("input {i}: required_height_lock_time = {v}"), t + 2, leb128(v))
        }
        _ => {
            if b.p2sh[i] {
                return None;
            }
            let spk = inp.script_pubkey();
            let s_at = find(&bytes, spk, t + 4)?;
            let h = s_at + spk.len();
            if bytes.get(h..h + 3)? != [0, 0, 1] {
                return None;
            }
            let mut types = vec![0x02u8, 0x81, 0x82];
            if i < b.n_tout {
                types.extend([0x03, 0x83]);
            }
            let ty = types[(val as usize) % types.len()];
            bytes[h + 2] = ty;
            let p = Pczt::parse(&bytes).ok()?;
            return Some((format!("input {i}: sighash_type = {ty:#x}"), p));
        }
    };
    let mut patch = vec![1u8];
    patch.extend(payload);
    bytes.splice(pos..pos + 1, patch);
    let p = Pczt::parse(&bytes).ok()?;
    Some((what, p))
}

fn describe_step(step: &Step, uni: &[Key], settable: &[Key]) -> String {
    match step {
        Step::Add(l) if !settable.is_empty() => format!("Add{:?}", l.iter().map(|(s, v)| (settable[pick_index(*s, settable.len())], *v)).collect::<Vec<_>>()),
        Step::Redact(l) => format!(
            "Redact{:?}",
            l.iter()
                .map(|(s, any)| if *any || settable.is_empty() { uni[pick_index(*s, uni.len())] } else { settable[pick_index(*s, settable.len())] })
                .collect::<Vec<_>>()
        ),
        s => format!("{s:?}"),
    }
}

fn check_roles(ctx: &Ctx, c: &RolesCase) -> CaseResult {
    use zcash_primitives::transaction::txid::{to_txid, TxIdDigester};
    let nb = n_bases(ctx);
    let bidx = pick_index(c.base_sel, nb) as u32;
    let b: Arc<Base> = base::base(ctx.seed, bidx);
    let txid0 = b.txid_parts;
    let head = format!("base {bidx} {:?}", b.shape);
    // the id implied before any role ran: three routes, one answer
    vensure_eq!(pczt_txid(&b.pre_io).ok(), Some(txid0), "creator-txid-wrong", "pczt_txid(Creator::build_from_parts(parts)) vs the id of the parts [{head}]");
    vensure_eq!(pczt_txid(&b.pczt).ok(), Some(txid0), "io-finalizer-changed-txid", "pczt_txid after the IO Finalizer [{head}]");
    let eff = b.pczt.clone().into_effects().map_err(|e| Fail::new("effects-unavailable", format!("into_effects(base) failed: {e:?} [{head}]")))?;
    let d = eff.digest(TxIdDigester);
    vensure_eq!(to_txid(eff.version(), eff.consensus_branch_id(), &d), txid0, "effects-txid-wrong", "txid of into_effects() [{head}]");

    let uni = universe(&b);
    let settable: Vec<Key> = uni.iter().copied().filter(|k| set_vals(&b, k) > 0).collect();
    let variant = c.wire.and_then(|(k, i, v)| wire_variant(&b, k, i, v));
    let mut txid0 = txid0;
    let mut head = head;
    let mut p = if let Some((what, pre)) = &variant {
        // another transaction (or the same one, for a sighash type): its own id is the reference
        head = format!("{head}; foreign-constructor variant: {what}");
        let Ok(t) = pczt_txid(pre) else {
            // e.g. incompatible lock time requirements: nothing to preserve
            return Ok(Obs::trivial().label("variant-without-txid"));
        };
        // (an explicit final sequence number is the default one)
        if what.contains("sighash_type") || what.ends_with("sequence = 4294967295") {
            vensure_eq!(t, b.txid_parts, "creator-txid-wrong", "a sighash type is not transaction-effecting data [{head}]");
        } else {
            vensure!(t != b.txid_parts, "creator-txid-wrong", "sequence / lock time are effecting data, yet the id did not change [{head}]");
        }
        txid0 = t;
        let q = pczt::roles::io_finalizer::IoFinalizer::new(pre.clone())
            .finalize_io()
            .map_err(|e| Fail::new("role-rejected-valid-request", format!("IoFinalizer: {e:?} [{head}]")))?;
        vensure_eq!(pczt_txid(&q).ok(), Some(txid0), "io-finalizer-changed-txid", "IO Finalizer [{head}]");
        q
    } else if c.refinalize {
        pczt::roles::io_finalizer::IoFinalizer::new(b.pre_io.clone())
            .finalize_io()
            .map_err(|e| Fail::new("role-rejected-valid-request", format!("IoFinalizer on the creator's PCZT: {e:?} [{head}]")))?
    } else {
        b.pczt.clone()
    };
    let mut snapshots = vec![p.clone()];
    let mut snap_gone: Vec<BTreeSet<Key>> = vec![BTreeSet::new()];
    let mut gone: BTreeSet<Key> = BTreeSet::new();
    let (mut ok_steps, mut refused, mut sigs, mut unpromised) = (0u64, 0u64, 0u64, 0u64);
    let mut kinds: BTreeSet<&'static str> = BTreeSet::new();
    let mut trace = vec![];
    for (si, step) in c.steps.iter().enumerate() {
        let name: &'static str = match step {
            Step::Add(_) => "updater/apply-signature",
            Step::SignHigh(_) => "signer",
            Step::Redact(_) => "redactor",
            Step::CombineSelf | Step::CombineSnapshot(..) => "combiner",
            Step::FinalizeSpends => "spend-finalizer",
            Step::Verify(_) => "verifier",
            Step::Roundtrip(_) => "bytes",
            Step::IoFinalizeAgain => "io-finalizer",
            Step::LowLevelNoop(_) => "low-level-signer",
        };
        let mut gone2 = gone.clone();
        let r = catch(|| apply_step(&b, &p, step, &snapshots, &snap_gone, &mut gone2, &uni, &settable, variant.is_some()))
            .map_err(|e| Fail::new(format!("role-panic:{}", dep_site(&e)), format!("step {si} ({name}) panicked: {e} [{head}; steps so far {trace:?}]")))?;
        match r {
            Err(f) if f.signature == SOFT => {
                refused += 1;
                trace.push(format!("{name}:refused({})", f.msg.chars().take(60).collect::<String>()));
                continue;
            }
            Err(f) => return Err(Fail::new(f.signature, format!("step {si} ({name}): {} [{head}; steps so far {trace:?}; step {}]", f.msg, describe_step(step, &uni, &settable)))),
            Ok(q) => {
                gone = gone2;
                let promised = effects_promised(&b, &q, &gone);
                if let (Ok(t), Step::FinalizeSpends, Some((what, _))) = (pczt_txid(&q), step, &variant) {
                    // Known finding `spend-finalizer-erases-required-lock-time`, classified exactly: the
                    // Spend Finalizer ran on an input with a required lock time and the id moved.
                    if t != txid0 && what.contains("_lock_time") {
                        let sig = "spend-finalizer-erases-required-lock-time";
                        if ctx.known_hit(sig) {
                            return Ok(Obs::new(kinds.len() >= 2).label("foreign-constructor-variant").label("known-lock-time-erased").count("role-steps-applied", ok_steps));
                        }
                        vfail!(
                            sig,
                            "SpendFinalizer::finalize_spends changed the transaction id from {txid0} to {t}: it clears the inputs' required lock times, which determine nLockTime [{head}; steps so far {trace:?}]"
                        );
                    }
                }
                match pczt_txid(&q) {
                    Ok(t) => vensure_eq!(t, txid0, "role-changed-txid", "after step {si} ({name}) the PCZT implies another transaction id [{head}; steps so far {trace:?}; step {}]", describe_step(step, &uni, &settable)),
                    Err(e) => {
                        vensure!(!promised, "effects-unavailable", "after step {si} ({name}) pczt_txid fails with {e:?} although every field the effects need is present or derivable [{head}; steps so far {trace:?}; step {}]", describe_step(step, &uni, &settable));
                        unpromised += 1;
                    }
                }
                if variant.is_none() && (matches!(step, Step::Add(_) | Step::SignHigh(_)) || si + 1 == c.steps.len()) {
                    sigs += verify_signatures(&b, &q).map_err(|f| Fail::new(f.signature, format!("after step {si} ({name}): {} [{head}; steps so far {trace:?}; step {}]", f.msg, describe_step(step, &uni, &settable))))?;
                }
                ok_steps += 1;
                kinds.insert(name);
                trace.push(describe_step(step, &uni, &settable));
                p = q;
                snapshots.push(p.clone());
                snap_gone.push(gone.clone());
            }
        }
    }
    let mut obs = Obs::new(kinds.len() >= 3)
        .key(hash64(format!("{bidx}|{:?}", c.steps).as_bytes()))
        .count("role-steps-applied", ok_steps)
        .count("role-steps-refused", refused)
        .count("signatures-verified", sigs)
        .count("states-without-computable-effects", unpromised)
        .label_if(c.refinalize, "io-finalizer-rerun")
        .label_if(variant.is_some(), "foreign-constructor-variant")
        .label(if b.v6 { "base-v6" } else { "base-v5" });
    for k in kinds {
        obs = obs.label(k);
    }
    Ok(obs)
}

// ---------------------------------------------------------------------------------------------
// Prove + extract (thorough tier only)
// ---------------------------------------------------------------------------------------------

struct Proving {
    sapling: zcash_proofs::prover::LocalTxProver,
    spend_vk: sapling::circuit::SpendVerifyingKey,
    output_vk: sapling::circuit::OutputVerifyingKey,
}

fn proving() -> &'static Proving {
    static P: std::sync::OnceLock<Proving> = std::sync::OnceLock::new();
    P.get_or_init(|| {
        let (spend, output) = wagyu_zcash_parameters::load_sapling_parameters();
        let sapling = zcash_proofs::prover::LocalTxProver::from_bytes(&spend, &output);
        let (spend_vk, output_vk) = sapling.verifying_keys();
        Proving { sapling, spend_vk, output_vk }
    })
}

fn orchard_keys(v6: bool) -> &'static (orchard::circuit::ProvingKey, orchard::circuit::VerifyingKey) {
    use orchard::circuit::{OrchardCircuitVersion as V, ProvingKey, VerifyingKey};
    static K5: std::sync::OnceLock<(ProvingKey, VerifyingKey)> = std::sync::OnceLock::new();
    static K6: std::sync::OnceLock<(ProvingKey, VerifyingKey)> = std::sync::OnceLock::new();
    if v6 {
        K6.get_or_init(|| (ProvingKey::build(V::PostNu6_3), VerifyingKey::build(V::PostNu6_3)))
    } else {
        K5.get_or_init(|| (ProvingKey::build(V::FixedPostNu6_2), VerifyingKey::build(V::FixedPostNu6_2)))
    }
}

#[derive(Clone, Debug)]
struct ExtractCase {
    base_sel: u32,
    /// order in which the parties' copies reach the Combiner
    order: [u8; 5],
    redact: Vec<(u32, bool)>,
    /// the signing party works on the PCZT that has no anchors / witnesses / proof keys yet
    sign_early: bool,
    finalize_in_signer_copy: bool,
    roundtrip: bool,
}

fn arb_extract_case() -> impl Strategy<Value = ExtractCase> {
    (
        any::<u32>(),
        prop::array::uniform5(any::<u8>()),
        prop::collection::vec((any::<u32>(), any::<bool>()), 0..10),
        any::<bool>(),
        any::<bool>(),
        any::<bool>(),
    )
        .prop_map(|(base_sel, order, redact, sign_early, finalize_in_signer_copy, roundtrip)| ExtractCase {
            base_sel,
            order,
            redact,
            sign_early,
            finalize_in_signer_copy,
            roundtrip,
        })
}

fn check_extract(ctx: &Ctx, c: &ExtractCase) -> CaseResult {
    use pczt::roles::{prover::Prover, spend_finalizer::SpendFinalizer, tx_extractor::TransactionExtractor};
    use recipe::{Pool, SSp};
    let nb = n_bases(ctx).min(512);
    let bidx = pick_index(c.base_sel, nb) as u32;
    let b: Arc<Base> = base::base(ctx.seed, bidx);
    let head = format!("base {bidx} {:?}", b.shape);
    let head2 = head.clone();
    let hard = |what: &'static str| {
        let head = head.clone();
        move |f: Fail| Fail::new(if f.signature == SOFT { "extract-path-rejected".to_string() } else { f.signature }, format!("{what}: {} [{head}]", f.msg))
    };

    // what the provers need: anchors + witnesses (deferred builder) and Sapling proof generation keys
    let mut prep = Recipe::default();
    if b.deferred {
        for (pool, n, idx) in [(Pool::Orchard, b.n_oact, &b.o_spend_idx), (Pool::Ironwood, b.n_iact, &b.i_spend_idx)] {
            if n > 0 {
                prep.st.insert(Key::OAnchor(pool), St::Set(0));
            }
            for i in idx {
                prep.st.insert(Key::OAct(pool, *i as u8, OA::SpWitness), St::Set(0));
            }
        }
    }
    for i in &b.s_spend_idx {
        prep.st.insert(Key::SSp(*i as u8, SSp::Pgk), St::Set(0));
    }
    let prepared = recipe::apply_to(&b, b.pczt.clone(), &prep).map_err(hard("installing anchors, witnesses and proof generation keys"))?;

    // the signing party
    let mut sign = Recipe::default();
    for i in 0..b.n_tin {
        sign.st.insert(Key::TInSig(i as u8, 0), St::Set(0));
        if b.p2sh[i] {
            sign.st.insert(Key::TInSig(i as u8, 1), St::Set(0));
        }
    }
    for i in &b.s_spend_idx {
        sign.st.insert(Key::SSp(*i as u8, SSp::Sig), St::Set(if c.sign_early { 1 } else { 0 }));
    }
    for (pool, idx) in [(Pool::Orchard, &b.o_sign_idx), (Pool::Ironwood, &b.i_sign_idx)] {
        for i in idx {
            sign.st.insert(Key::OAct(pool, *i as u8, OA::Sig), St::Set((*i % 2) as u8));
        }
    }
    let sign_from = if c.sign_early { b.pczt.clone() } else { prepared.clone() };
    let mut signed = recipe::apply_to(&b, sign_from, &sign).map_err(hard("signing"))?;
    let mut finalized = false;
    if c.finalize_in_signer_copy {
        signed = SpendFinalizer::new(signed).finalize_spends().map_err(|e| Fail::new("extract-path-rejected", format!("SpendFinalizer on the fully signed copy: {e:?} [{head2}]")))?;
        finalized = true;
    }

    // the proving parties, each on its own copy
    let mut copies = vec![signed];
    let pr = proving();
    if b.n_sspend + b.n_sout > 0 {
        let q = catch(|| Prover::new(prepared.clone()).create_sapling_proofs(&pr.sapling, &pr.sapling))
            .map_err(|e| Fail::new(format!("role-panic:{}", dep_site(&e)), format!("Prover::create_sapling_proofs panicked: {e} [{head2}]")))?
            .map_err(|e| Fail::new("extract-path-rejected", format!("Prover::create_sapling_proofs: {e:?} [{head2}]")))?
            .finish();
        copies.push(q);
    }
    let (pk, vk) = orchard_keys(b.v6);
    if b.n_oact > 0 {
        let q = catch(|| Prover::new(prepared.clone()).create_orchard_proof(pk))
            .map_err(|e| Fail::new(format!("role-panic:{}", dep_site(&e)), format!("Prover::create_orchard_proof panicked: {e} [{head2}]")))?
            .map_err(|e| Fail::new("extract-path-rejected", format!("Prover::create_orchard_proof: {e:?} [{head2}]")))?
            .finish();
        copies.push(q);
    }
    if b.n_iact > 0 {
        let q = catch(|| Prover::new(prepared.clone()).create_ironwood_proof(pk))
            .map_err(|e| Fail::new(format!("role-panic:{}", dep_site(&e)), format!("Prover::create_ironwood_proof panicked: {e} [{head2}]")))?
            .map_err(|e| Fail::new("extract-path-rejected", format!("Prover::create_ironwood_proof: {e:?} [{head2}]")))?
            .finish();
        copies.push(q);
    }
    // parties that hold a proven copy but passed it on without (some of) the proofs
    {
        let proven: Vec<Pczt> = copies[1..].to_vec();
        for (n, q) in proven.into_iter().enumerate() {
            let mut r = Recipe::default();
            if n == 0 && b.n_sspend + b.n_sout > 0 {
                if b.n_sspend > 0 {
                    r.st.insert(Key::SSp((c.order[0] as usize % b.n_sspend) as u8, SSp::Zkproof), St::Absent);
                }
                if b.n_sout > 0 {
                    r.st.insert(Key::SOut((c.order[1] as usize % b.n_sout) as u8, recipe::SOut::Zkproof), St::Absent);
                }
            } else if c.order[2] % 2 == 0 {
                r.st.insert(Key::OZkproof(Pool::Orchard), St::Absent);
                r.st.insert(Key::OZkproof(Pool::Ironwood), St::Absent);
            }
            if !r.st.is_empty() {
                let red = recipe::redact(&b, q.clone(), &r);
                if bytes::ser2(&red) != bytes::ser2(&q) {
                    copies.push(red);
                }
            }
        }
    }
    // a party that only redacted (never bsk: known finding combine-drops-bsk)
    {
        let uni = universe(&b);
        let mut r = Recipe::default();
        for (sel, _) in &c.redact {
            let k = uni[pick_index(*sel, uni.len())];
            if matches!(k, Key::SBsk | Key::OBsk(_) | Key::OAct(_, _, OA::EncRepr)) {
                continue;
            }
            r.st.insert(k, St::Absent);
        }
        copies.push(recipe::redact(&b, prepared.clone(), &r));
    }
    for cp in &copies {
        if let Some(t) = txid_of(cp) {
            vensure_eq!(t, b.txid_parts, "role-changed-txid", "a proving / signing / redacting copy implies another transaction id [{head2}]");
        }
    }
    // combine in the generated order
    let mut order: Vec<usize> = (0..copies.len()).collect();
    for i in (1..order.len()).rev() {
        order.swap(i, c.order[i % 5] as usize % (i + 1));
    }
    let list: Vec<Pczt> = order.iter().map(|i| copies[*i].clone()).collect();
    let mut p = combine(list)?.map_err(|e| Fail::new("combine-rejected-compatible", format!("combining the provers', signer's and redactor's copies (order {order:?}) failed: {e:?} [{head2}]")))?;
    if !finalized {
        p = SpendFinalizer::new(p).finalize_spends().map_err(|e| Fail::new("extract-path-rejected", format!("SpendFinalizer on the combined PCZT: {e:?} [{head2}]")))?;
    }
    if c.roundtrip {
        let bytes = p.clone().serialize().map_err(|e| Fail::new("accepted-not-serializable", format!("{e:?}")))?;
        p = Pczt::parse(&bytes).map_err(|e| Fail::new("own-encoding-rejected", format!("{e:?} [{head2}]")))?;
    }
    vensure_eq!(pczt_txid(&p).ok(), Some(b.txid_parts), "role-changed-txid", "fully proven and signed PCZT implies another transaction id [{head2}]");
    let tx = catch(|| TransactionExtractor::new(p.clone()).with_sapling(&pr.spend_vk, &pr.output_vk).with_orchard(vk).extract())
        .map_err(|e| Fail::new(format!("role-panic:{}", dep_site(&e)), format!("TransactionExtractor::extract panicked: {e} [{head2}]")))?
        .map_err(|e| Fail::new("extract-failed", format!("TransactionExtractor::extract on a fully proven and signed PCZT (combine order {order:?}): {e:?} [{head2}]")))?;
    vensure_eq!(tx.txid(), b.txid_parts, "extracted-txid-differs", "tx.txid() vs the id computed before any role ran [{head2}]");
    // exactly the requested effects
    let (tin, tout) = tx.transparent_bundle().map(|t| (t.vin.len(), t.vout.len())).unwrap_or((0, 0));
    vensure_eq!((tin, tout), (b.n_tin, b.n_tout), "extracted-effects-differ", "transparent inputs/outputs [{head2}]");
    let (ss, so, svb) = tx.sapling_bundle().map(|s| (s.shielded_spends().len(), s.shielded_outputs().len(), i64::from(*s.value_balance()))).unwrap_or((0, 0, 0));
    vensure_eq!((ss, so, svb), (b.n_sspend, b.n_sout, b.vb[1]), "extracted-effects-differ", "sapling spends/outputs/value balance [{head2}]");
    let (oa, ovb) = tx.orchard_bundle().map(|o| (o.actions().len(), i64::from(*o.value_balance()))).unwrap_or((0, 0));
    vensure_eq!((oa, ovb), (b.n_oact, b.vb[2]), "extracted-effects-differ", "orchard actions/value balance [{head2}]");
    let (ia, ivb) = tx.ironwood_bundle().map(|o| (o.actions().len(), i64::from(*o.value_balance()))).unwrap_or((0, 0));
    vensure_eq!((ia, ivb), (b.n_iact, b.vb[3]), "extracted-effects-differ", "ironwood actions/value balance [{head2}]");
    vensure_eq!(u32::from(tx.expiry_height()), base::TARGET_HEIGHT + 40, "extracted-effects-differ", "expiry height [{head2}]");
    vensure_eq!(tx.lock_time(), 0, "extracted-effects-differ", "lock time [{head2}]");
    let tout_sum: i64 = tx.transparent_bundle().map(|t| t.vout.iter().map(|o| o.value().into_u64() as i64).sum()).unwrap_or(0);
    let fee = b.vb.iter().sum::<i64>();
    vensure!(fee > 0 && tout_sum >= 0, "extracted-effects-differ", "fee {fee}");
    Ok(Obs::new(copies.len() >= 3)
        .key(hash64(format!("{bidx}|{c:?}").as_bytes()))
        .label(match b.shape.fmt {
            base::Fmt::V5 => "base-v5",
            base::Fmt::V6 => "base-v6",
            base::Fmt::V6Deferred => "base-v6-deferred",
        })
        .label_if(b.n_sspend + b.n_sout > 0, "sapling-proofs")
        .label_if(b.n_oact > 0, "orchard-proof")
        .label_if(b.n_iact > 0, "ironwood-proof")
        .label_if(c.sign_early, "signed-before-anchors")
        .count("copies-combined", copies.len() as u64))
}

// ---------------------------------------------------------------------------------------------
// Regression list (fixed cases worth re-running forever)
// ---------------------------------------------------------------------------------------------

const N_REGRESSION: u64 = 14 + 14 + 3 + 1 + 6 + 2 + structure::N_FIXED;

fn check_regression(ctx: &Ctx, i: u64) -> CaseResult {
    use pczt::roles::redactor::Redactor;
    match i {
        // every template: own encoding accepted, fixed point, minimal version, ids agree
        0..=13 => {
            let b = base::base(ctx.seed, i as u32);
            for (name, p) in [("creator", &b.pre_io), ("io-finalized", &b.pczt)] {
                let bytes = p.clone().serialize().map_err(|e| Fail::new("accepted-not-serializable", format!("{e:?}")))?;
                let o = check_pczt_bytes(&bytes).map_err(|f| Fail::new(f.signature, format!("{} [template {i} {name}]", f.msg)))?;
                vensure!(o.accepted, "own-encoding-rejected", "template {i} {name}");
                vensure_eq!(o.header_version, if b.v6 { 2 } else { 1 }, "version-not-minimal", "template {i} {name}: v5 PCZTs from the builder use v1, v6 PCZTs need v2");
                vensure_eq!(pczt_txid(p).ok(), Some(b.txid_parts), "creator-txid-wrong", "template {i} {name}");
            }
            Ok(Obs::nontrivial().key(1000 + i).label("template-encoding"))
        }
        // every template: combine(base, base) = base; combine with the creator's (not yet IO-finalized)
        // PCZT keeps the transaction
        14..=27 => {
            let b = base::base(ctx.seed, (i - 14) as u32);
            let cc = combine(vec![b.pczt.clone(), b.pczt.clone()])?.map_err(|e| Fail::new("combine-not-idempotent", format!("{e:?}")))?;
            vensure!(ser2(&cc) == ser2(&b.pczt), "combine-not-idempotent", "template {}", i - 14);
            for list in [vec![b.pczt.clone(), b.pre_io.clone()], vec![b.pre_io.clone(), b.pczt.clone()]] {
                if let Ok(q) = combine(list)? {
                    if let Some(t) = txid_of(&q) {
                        vensure_eq!(t, b.txid_parts, "combine-txid-changed", "creator + io-finalized copies, template {}", i - 14);
                    }
                }
            }
            Ok(Obs::nontrivial().key(2000 + i).label("template-idempotent"))
        }
        // known finding combine-drops-bsk, one bundle each (templates 3: Sapling, 1: Orchard, 7: Ironwood)
        28..=30 => {
            let (tpl, key) = [(3u32, Key::SBsk), (1, Key::OBsk(recipe::Pool::Orchard)), (7, Key::OBsk(recipe::Pool::Ironwood))][(i - 28) as usize];
            let b = base::base(ctx.seed, tpl);
            let mut r = Recipe::default();
            r.st.insert(key, St::Absent);
            let c0 = materialise(&b, &r)?;
            vensure!(ser2(&c0) != ser2(&b.pczt), "harness-redaction-noop", "clearing {key:?} changes nothing");
            let ab = combine(vec![b.pczt.clone(), c0.clone()])?.map_err(|e| Fail::new("combine-rejected-compatible", format!("{e:?}")))?;
            let ba = combine(vec![c0, b.pczt.clone()])?.map_err(|e| Fail::new("combine-rejected-compatible", format!("{e:?}")))?;
            vensure!(ser2(&ab) == ser2(&b.pczt), "combine-not-union", "combine([base, base-without-{key:?}]) is not base");
            vensure!(ser2(&ba) == ser2(&b.pczt), "combine-drops-bsk", "combine([base-without-{key:?}, base]) loses the bsk that the second input carries (template {tpl})");
            Ok(Obs::nontrivial().key(3000 + i).label("bsk"))
        }
        // known finding v1-sapling-absent-anchor-placeholder, the harmful form (template 2: v5, Sapling outputs only)
        31 => {
            let b = base::base(ctx.seed, 2);
            let c0 = Redactor::new(b.pczt.clone()).redact_sapling_with(|mut s| s.clear_anchor()).finish();
            let direct = combine(vec![c0.clone(), b.pczt.clone()])?.map_err(|e| Fail::new("combine-rejected-compatible", format!("{e:?}")))?;
            vensure!(ser2(&direct) == ser2(&b.pczt), "combine-not-union", "anchor-less copy + full copy");
            let via_bytes = Pczt::parse(&c0.serialize().map_err(|e| Fail::new("accepted-not-serializable", format!("{e:?}")))?)
                .map_err(|e| Fail::new("own-encoding-rejected", format!("{e:?}")))?;
            match combine(vec![via_bytes, b.pczt.clone()])? {
                Ok(q) => vensure!(ser2(&q) == ser2(&b.pczt), "combine-not-union", "anchor-less copy (through bytes) + full copy"),
                Err(e) => vfail!(
                    "v1-sapling-absent-anchor-placeholder",
                    "a copy whose Sapling anchor was redacted no longer combines with the full copy once it went through serialize/parse: {e:?}"
                ),
            }
            Ok(Obs::nontrivial().key(3100).label("placeholder"))
        }
        // known finding spend-finalizer-erases-required-lock-time (template 0: transparent only, v5)
        38 => {
            use pczt::roles::{io_finalizer::IoFinalizer, signer::Signer, spend_finalizer::SpendFinalizer};
            let b = base::base(ctx.seed, 0);
            let (what, pre) = wire_variant(&b, 2, 0, 41).ok_or_else(|| Fail::new("harness-variant-unavailable", "cannot patch required_height_lock_time into template 0"))?;
            let before = pczt_txid(&pre).map_err(|e| Fail::new("effects-unavailable", format!("{e:?} [{what}]")))?;
            vensure!(before != b.txid_parts, "creator-txid-wrong", "a required lock time changes nLockTime, hence the id [{what}]");
            let p = IoFinalizer::new(pre).finalize_io().map_err(|e| Fail::new("role-rejected-valid-request", format!("{e:?}")))?;
            let mut signer = Signer::new(p).map_err(|e| Fail::new("role-rejected-valid-request", format!("{e:?}")))?;
            for i in 0..b.n_tin {
                signer.sign_transparent(i, &b.t_sks[i][0]).map_err(|e| Fail::new("role-rejected-valid-request", format!("{e:?}")))?;
            }
            let signed = signer.finish();
            vensure_eq!(pczt_txid(&signed).ok(), Some(before), "role-changed-txid", "Signer [{what}]");
            let fin = SpendFinalizer::new(signed).finalize_spends().map_err(|e| Fail::new("role-rejected-valid-request", format!("{e:?}")))?;
            let after = pczt_txid(&fin).map_err(|e| Fail::new("effects-unavailable", format!("{e:?}")))?;
            vensure!(
                after == before,
                "spend-finalizer-erases-required-lock-time",
                "SpendFinalizer::finalize_spends changed the transaction id from {before} to {after} [{what}]"
            );
            Ok(Obs::nontrivial().key(3200).label("lock-time"))
        }
        // known finding txid-panic-on-malformed-bundle (template 3: Sapling spend with a proof generation key)
        39 => {
            let b = base::base(ctx.seed, 3);
            let mut r = Recipe::default();
            let idx = b.s_spend_idx[0] as u8;
            r.st.insert(Key::SSp(idx, recipe::SSp::Pgk), St::Set(0));
            let p = materialise(&b, &r)?;
            let mut bytes = p.serialize().map_err(|e| Fail::new("accepted-not-serializable", format!("{e:?}")))?;
            let ak = b.s_extsk.as_ref().unwrap().expsk.proof_generation_key().ak.to_bytes();
            let at = find(&bytes, &ak, 8).ok_or_else(|| Fail::new("harness-variant-unavailable", "ak not found in the serialisation"))?;
            for x in &mut bytes[at..at + 32] {
                *x = 0xff; // not a point encoding
            }
            vensure!(Pczt::parse(&bytes).is_ok(), "harness-variant-unavailable", "patched bytes no longer parse");
            match catch(|| zcash_pool_migration::pczt_txid::stored_pczt_txid(&bytes)) {
                Ok(r) => vensure!(r.is_err(), "malformed-bundle-accepted", "a proof generation key that is not a curve point yields a txid"),
                // observation outside the property's statement (see the encoding sub-check): counted, not reported
                Err(e) => {
                    let _ = dep_site(&e);
                    return Ok(Obs::nontrivial().key(3300).label("observation:txid-panics-on-malformed-pgk"));
                }
            }
            Ok(Obs::nontrivial().key(3300).label("malformed-pgk"))
        }
        // header handling
        32..=37 => {
            let j = i - 32;
            let bytes: Vec<u8> = match j {
                0 => vec![],
                1 => b"PCZT".to_vec(),
                2 => b"PCZT\x01\0\0\0".to_vec(),
                3 => b"PCZT\x02\0\0\0".to_vec(),
                4 => b"PCZT\x03\0\0\0\0\0\0\0".to_vec(),
                _ => {
                    let mut v = base::base(ctx.seed, 0).pczt.clone().serialize().unwrap();
                    v[0] = b'X';
                    v
                }
            };
            let o = check_pczt_bytes(&bytes)?;
            vensure!(!o.accepted, "truncated-accepted", "header case {j} is accepted");
            if i == 32 {
                let e = combine(vec![])?;
                vensure!(matches!(e, Err(CombineError::NoPczts)), "conflict-wrong-error", "Combiner of nothing: {:?}", e.map(|_| ()));
            }
            Ok(Obs::nontrivial().key(4000 + j).label("header"))
        }
        // copies that differ in structure / modifiable flags (hand-written instances of `combine-structure`)
        40..=47 => structure::check_fixed(ctx, i - 40),
        _ => Ok(Obs::trivial()),
    }
}

fn main() {
    if let Ok(d) = std::env::var("C13_DUMP") {
        // developer aid: print one base PCZT
        let seed: u64 = std::env::var("VERIF_SEED").ok().and_then(|s| s.parse().ok()).unwrap_or(1);
        let b = base::base(seed, d.parse().unwrap());
        println!("{:?}\n{:#?}", b.shape, b.pczt);
        return;
    }
    let ctx = Ctx::from_args("C13", "exploration");
    ctx.set_rule(
        "Bases: real PCZTs (Builder::build_for_pczt / DeferredPcztBuilder -> Creator::build_from_parts -> IoFinalizer) over 14 request \
         templates (v5: t->t, t->o, t->s, s->s+o, o->o+t, mixed, P2SH 2-of-3; v6: t->i, i->i, o->i, s->i, t->t, deferred anchors), \
         a function of (run seed, generated index); 192 bases quick / 4096 thorough. combine: 2..5 party copies, each the base with a \
         generated per-field state (keep / remove with the Redactor / set with Updater, Signer, low-level Signer, Spend Finalizer) over \
         every optional field kind; all permutations (n<=4, 24 sampled for n=5) plus random bracketings; expected value = the harness's \
         field-wise union of the recipes, materialised through the roles; injected conflicting values / copies of another transaction must \
         fail in every order. Non-trivial = >=2 copies whose carried fields differ in >=2 field kinds across >=2 bundles; distinct = hash \
         of (base, recipes). encoding: one generated copy, its native / forced-v1 / forced-v2 bytes and 6..14 byte-level mutants + junk \
         behind a valid header through check_pczt_bytes; non-trivial = copy differs from the base. roles: 3..12 role applications in \
         generated order (Updater, Signer, apply-signature, low-level Signer, Redactor, Combiner, Spend Finalizer, Verifier, byte round \
         trip, IO Finalizer again); non-trivial = >=3 different roles applied. prove-extract (thorough only): provers, signer and a \
         redactor work on separate copies, combined in generated order, then extracted. combine-structure: one full transaction F per \
         case = a builder base (its PCZT before IO finalization) or an empty Creator PCZT (25%), all modifiable flags set, plus 0..3 \
         fabricated P2PKH inputs (generated keys) and 0..3 P2PKH/P2SH outputs, one generated sighash type per input (6 types; 40% of \
         the cases one type for all inputs); 2..4 copies, each a position-wise prefix of F (own or common numbers of inputs, outputs and \
         shielded items along one generated interleaving of Sapling spends/outputs and Orchard/Ironwood actions) followed by 0..5 steps \
         of: harness Constructor add (input / output / shielded item; refused when the flag is cleared or a bsk exists), Signer on one \
         or all transparent inputs with the input's sighash type, Signer on Sapling/Orchard/Ironwood spends, Updater, Redactor, IO \
         Finalizer (one copy per case), byte round trip; 15%: one copy gets a different element (sighash type, prevout index, output \
         value) at one position. All permutations plus 6 bracketings. Non-trivial = the copies differ in structure or flags and carry a \
         signature; distinct = hash of the case.",
    );
    ctx.assume("the transaction id computed from the builder's PcztParts with the transparent / sapling / orchard crates' extract_effects and zcash_primitives' txid digests is the reference id (no pczt-crate code involved)");
    ctx.assume("roles may refuse (Err) when a field their documentation requires was redacted; a refusal is not a violation, a changed txid, a panic or a changed PCZT (Verifier, no-op signer) is");
    ctx.assume("effects are promised computable iff v5 bundles with content carry their anchor, a missing cv_net has both values and rcv, a missing cmx / memo-plaintext ciphertext has the output's recipient, value and rseed, and an Orchard spend rseed is accompanied by its rho (orchard crate ParseError::MissingRho)");
    ctx.assume("the verdict does not depend on signature / proof bytes produced with OsRng inside the roles (IoFinalizer dummy signatures, Signer::sign_*, Prover); signatures compared across copies are produced once per (base, spend, variant) with a seeded RNG");
    ctx.assume("compact_resolvable_fields / decrypted memo recovery may leave undecryptable (padding) outputs unchanged, as documented; which outputs those are is observed once per base");
    ctx.assume("combine-structure: the crate implements no Constructor role (pczt/src/roles.rs); the harness plays it on the v2 wire encoding (generic serde tree of pczt::v2::Pczt, written back as postcard, self-checked byte for byte against the crate's serialisation) and follows the rustdoc of Global::tx_modifiable: add inputs / outputs / shielded items only while the respective flag is set, never once a bsk exists; value sums are the running sums of the items' values");
    ctx.assume("combine-structure reference: copies conflict iff one has fewer inputs (outputs, shielded items) than another while its own flag forbids modification ('Fail if the merge would add inputs to a non-modifiable bundle'), or one wire field carries two different values; merged flags = and / and / or / and (rustdoc 'The Combiner merges this bit towards false / true'); an IO-finalized bundle (bsk) next to a copy with another number of items of that bundle is outside the reference (Bundle::merge refuses that pair but accepts the same set in other groupings): results are checked, the verdict is not");
    ctx.assume("signature hashes for verification are computed by zcash_primitives' v5/v6 signature_hash over the effects `into_effects` returns and zcash_transparent's with_signable_input; SIGHASH_SINGLE is only used on inputs that have a corresponding output");
    let only = std::env::var("C13_ONLY").ok();
    let want = |s: &str| only.as_deref().map_or(true, |o| o == s);
    if want("regression") {
        let c2 = ctx.clone();
        ctx.run_enum("regression", N_REGRESSION, true, move |i| check_regression(&c2, i), |i| format!("regression case {i}"));
    }
    if want("combine") {
        let c2 = ctx.clone();
        ctx.run_prop("combine", arb_combine_case, ctx.tier.pick(8_000, 150_000), move |c| check_combine(&c2, c));
    }
    if want("combine-structure") {
        let c2 = ctx.clone();
        ctx.run_prop("combine-structure", structure::arb_struct_case, ctx.tier.pick(8_000, 120_000), move |c| structure::check_structure(&c2, c));
    }
    if want("encoding") {
        let c2 = ctx.clone();
        ctx.run_prop("encoding", arb_encoding_case, ctx.tier.pick(6_000, 120_000), move |c| check_encoding(&c2, c));
    }
    if want("roles") {
        let c2 = ctx.clone();
        ctx.run_prop("roles", arb_roles_case, ctx.tier.pick(4_000, 80_000), move |c| check_roles(&c2, c));
    }
    if want("prove-extract") && (ctx.tier == vcore::Tier::Thorough || std::env::var("C13_FORCE_EXTRACT").is_ok()) {
        let c2 = ctx.clone();
        let n = std::env::var("C13_FORCE_EXTRACT").ok().and_then(|s| s.parse().ok()).unwrap_or(64);
        ctx.run_prop_with("prove-extract", arb_extract_case, n, 64, move |c| check_extract(&c2, c));
    }
    if only.is_none() {
        ctx.require_label_fraction("combine", "combined", 0.35);
        ctx.require_label_fraction("combine", "conflict", 0.15);
        ctx.require_label_fraction("combine", "base-v5", 0.2);
        ctx.require_label_fraction("combine", "base-v6", 0.2);
        ctx.require_label_fraction("combine", "base-v6-deferred", 0.05);
        ctx.require_label_fraction("combine", "has-spend-finalizer-copy", 0.05);
        ctx.require_label_fraction("combine", "with-roundtripped-copy", 0.15);
        ctx.require_min_count("combine", "conflict-foreign-tx", 30);
        for (label, min) in [
            ("combined", 0.25),
            ("conflict", 0.2),
            ("flags:in-open-out-open", 0.4),
            ("flags:in-frozen-out-open", 0.06),
            ("flags:in-open-out-frozen", 0.09),
            ("flags:in-frozen-out-frozen", 0.15),
            ("flags:has-sighash-single", 0.08),
            ("flags:shielded-mixed", 0.25),
            ("copy-extended-by-constructor", 0.3),
            ("copies-differ-in-structure", 0.4),
            ("copies-differ-in-shielded-structure", 0.2),
            ("combine-larger-into-frozen", 0.18),
            ("conflict:structural-transparent", 0.12),
            ("conflict:structural-shielded", 0.07),
            ("conflict:data", 0.02),
            ("combined-different-structures", 0.2),
            ("combine-larger-into-open-with-frozen-other-side", 0.09),
            ("sighash:all", 0.07),
            ("sighash:none", 0.07),
            ("sighash:single", 0.04),
            ("sighash:all-anyonecanpay", 0.06),
            ("sighash:none-anyonecanpay", 0.06),
            ("sighash:single-anyonecanpay", 0.04),
            ("result-signatures-checked", 0.13),
            ("result-txid-checked", 0.28),
            ("io-finalized-copy", 0.03),
            ("shielded-signature", 0.02),
            ("base:creator", 0.1),
            ("tx-v5", 0.2),
            ("tx-v6", 0.2),
        ] {
            ctx.require_label_fraction("combine-structure", label, min);
        }
        ctx.require_min_count("combine-structure", "copy-txid-checks", 3_000);
        ctx.require_min_count("combine-structure", "constructor-refused-by-flags", 100);
        ctx.require_label_fraction("encoding", "encoded-v1", 0.15);
        ctx.require_label_fraction("encoding", "encoded-v2", 0.3);
        ctx.require_label_fraction("encoding", "v5-forced-to-v2", 0.03);
        ctx.require_min_count("encoding", "mutants-accepted", 2_000);
        ctx.require_min_count("encoding", "mutants-rejected", 2_000);
        for role in ["signer", "redactor", "combiner", "spend-finalizer", "verifier", "updater/apply-signature", "low-level-signer", "io-finalizer", "bytes"] {
            ctx.require_label_fraction("roles", role, 0.1);
        }
        ctx.require_min_count("roles", "signatures-verified", 2_000);
        ctx.require_label_fraction("roles", "foreign-constructor-variant", 0.08);
    }
    ctx.extra(
        "field_kinds",
        vcore::serde_json::json!({"note": "every optional field kind of Global, transparent Input/Output, Sapling Bundle/Spend/Output and Orchard/Ironwood Bundle/Action is in the key universe (recipe.rs: enum Key)"}),
    );
    // coverage-guided byte-level campaign (libFuzzer target `pczt_parse`, fixed-point oracle inside the target)
    ctx.run_fuzz("pczt_parse", ctx.tier.pick(300_000, 10_000_000), ctx.tier.pick(4, 16), 4096);
    ctx.finish();
}

//! Independent Wagner-style solver for small Equihash parameters (n ≤ 128).
//!
//! Level-`r` table = every canonically ordered, index-disjoint tree of `2^r` leaves whose XOR is
//! zero on the first `r` collision segments. Nothing is discarded except trees with a repeated
//! index (which can never be part of a valid solution), so — unless the row cap is hit — the final
//! join yields **all** valid solutions of the instance. Whole-width `n`-bit XORs are kept (u128).
//!
//! Besides the solutions it returns the intermediate tables (for "replace a subtree by another one
//! that collides with the same sibling") and *near misses*: complete trees that satisfy every
//! condition except that the XOR of the two top-level halves is non-zero inside one small bit window
//! of the last two segments.

use super::refeq::{EhParams, Instance};

pub struct Table {
    /// Leaves per row (`2^level`).
    pub w: usize,
    /// XOR of the row's leaves, n bits right-aligned (spec bit 1 = bit n-1).
    pub x: Vec<u128>,
    /// Row-major leaf indices, `w` per row, in canonical order.
    pub idx: Vec<u32>,
}

impl Table {
    pub fn rows(&self) -> usize {
        self.x.len()
    }
    pub fn row(&self, r: usize) -> &[u32] {
        &self.idx[r * self.w..(r + 1) * self.w]
    }
}

pub struct NearMiss {
    pub indices: Vec<u32>,
    /// Which window of the last two segments holds the non-zero XOR bits.
    pub window: &'static str,
}

pub struct Solved {
    /// `tables[r]` for r in 0..k (level 0 = all single indices).
    pub tables: Vec<Table>,
    pub solutions: Vec<Vec<u32>>,
    pub near: Vec<NearMiss>,
    pub truncated: bool,
}

pub fn segment(p: &EhParams, x: u128, j: u32) -> u64 {
    let shift = p.n - (j + 1) * p.c;
    ((x >> shift) & ((1u128 << p.c) - 1)) as u64
}

fn disjoint(a: &[u32], b: &[u32]) -> bool {
    for i in a {
        for j in b {
            if i == j {
                return false;
            }
        }
    }
    true
}

fn level0(inst: &Instance) -> Table {
    let p = &inst.p;
    assert!(p.n <= 128);
    let total = p.index_space() as usize;
    let nb = (p.n / 8) as usize;
    let mut x = Vec::with_capacity(total);
    let mut g = 0u32;
    'outer: loop {
        let h = inst.digest(g);
        let bytes = h.as_bytes();
        for j in 0..p.m as usize {
            if x.len() == total {
                break 'outer;
            }
            let mut v: u128 = 0;
            for b in &bytes[j * nb..(j + 1) * nb] {
                v = (v << 8) | *b as u128;
            }
            x.push(v);
        }
        if x.len() == total {
            break;
        }
        g += 1;
    }
    Table {
        w: 1,
        x,
        idx: (0..total as u32).collect(),
    }
}

/// Sorted (key, row) list; rows with equal keys are adjacent, ties broken by row number.
fn sorted_keys(t: &Table, key: impl Fn(u128) -> u64) -> Vec<(u64, u32)> {
    let mut v: Vec<(u64, u32)> = t.x.iter().enumerate().map(|(r, x)| (key(*x), r as u32)).collect();
    v.sort_unstable();
    v
}

/// Calls `f(row_a, row_b)` (a < b in sorted position) for every pair of rows with the same key.
fn for_each_pair(order: &[(u64, u32)], mut f: impl FnMut(usize, usize) -> bool) {
    let mut s = 0;
    while s < order.len() {
        let mut e = s + 1;
        while e < order.len() && order[e].0 == order[s].0 {
            e += 1;
        }
        for a in s..e {
            for b in a + 1..e {
                if !f(order[a].1 as usize, order[b].1 as usize) {
                    return;
                }
            }
        }
        s = e;
    }
}

fn merged(t: &Table, ra: usize, rb: usize) -> Vec<u32> {
    let (ia, ib) = (t.row(ra), t.row(rb));
    let mut v = Vec::with_capacity(2 * t.w);
    if ia[0] < ib[0] {
        v.extend_from_slice(ia);
        v.extend_from_slice(ib);
    } else {
        v.extend_from_slice(ib);
        v.extend_from_slice(ia);
    }
    v
}

fn has_repeat(v: &[u32]) -> bool {
    let mut s = v.to_vec();
    s.sort_unstable();
    s.windows(2).any(|w| w[0] == w[1])
}

/// `allow_overlap = false`: the solver proper (all valid solutions, near misses).
/// `allow_overlap = true`: the index-disjointness filter is dropped and only final trees that DO
/// repeat an index are returned in `solutions`: every collision condition holds and every node is in
/// canonical order, so distinctness is the only violated condition (no near misses in this mode).
pub fn solve(inst: &Instance, near_per_window: usize, allow_overlap: bool) -> Solved {
    let p = inst.p;
    let cap = (p.index_space() as usize).saturating_mul(8);
    let mut truncated = false;
    let mut tables = vec![level0(inst)];
    for r in 0..p.k - 1 {
        let t = &tables[r as usize];
        let order = sorted_keys(t, |x| segment(&p, x, r));
        let mut nx: Vec<u128> = Vec::with_capacity(t.rows() + t.rows() / 4);
        let mut nidx: Vec<u32> = Vec::with_capacity((t.rows() + t.rows() / 4) * t.w * 2);
        for_each_pair(&order, |ra, rb| {
            if !allow_overlap && !disjoint(t.row(ra), t.row(rb)) {
                return true;
            }
            if nx.len() >= cap {
                truncated = true;
                return false;
            }
            nx.push(t.x[ra] ^ t.x[rb]);
            nidx.extend_from_slice(&merged(t, ra, rb));
            true
        });
        let w = t.w * 2;
        tables.push(Table { w, x: nx, idx: nidx });
    }
    // Final join: the remaining two segments must both collide.
    let t = &tables[(p.k - 1) as usize];
    let low = |x: u128| (x & ((1u128 << (2 * p.c)) - 1)) as u64;
    let mut solutions = vec![];
    let order = sorted_keys(t, low);
    for_each_pair(&order, |ra, rb| {
        if solutions.len() < 64 {
            if !allow_overlap {
                if disjoint(t.row(ra), t.row(rb)) {
                    solutions.push(merged(t, ra, rb));
                }
            } else {
                let m = merged(t, ra, rb);
                if has_repeat(&m) {
                    solutions.push(m);
                }
            }
        }
        true
    });
    // Near misses: equal outside one bit window, different inside.
    let mut windows: Vec<(&'static str, u64)> = vec![("last-seg-low8", 0xff), ("prev-seg-low8", 0xffu64 << p.c)];
    if p.c > 8 {
        let hi = ((1u64 << (p.c - 8)) - 1) << 8;
        windows.push(("last-seg-high", hi));
        windows.push(("prev-seg-high", hi << p.c));
    }
    let mut near = vec![];
    if near_per_window > 0 && !allow_overlap {
        for (name, mask) in windows {
            let order = sorted_keys(t, |x| low(x) & !mask);
            let mut got = 0usize;
            for_each_pair(&order, |ra, rb| {
                if (low(t.x[ra]) ^ low(t.x[rb])) & mask != 0 && disjoint(t.row(ra), t.row(rb)) {
                    near.push(NearMiss {
                        indices: merged(t, ra, rb),
                        window: name,
                    });
                    got += 1;
                }
                got < near_per_window
            });
        }
    }
    Solved {
        tables,
        solutions,
        near,
        truncated,
    }
}

//! C19 — Equihash verification accepts exactly the valid solutions.
//!
//! Oracle: an independent definition checker written from the protocol spec §7.6.1 (`refeq.rs`),
//! validated against the crate's own valid/invalid vectors. Valid solutions come from an independent
//! Wagner solver (`solver.rs`) for small parameters and from the repository's vectors / a mainnet
//! header. Every assertion on a mutated or random input is *agreement* between
//! `equihash::is_valid_solution(..).is_ok()` and the checker, so an accidental second solution can
//! never raise a false alarm; completeness is asserted on solver solutions and valid vectors.

mod refeq;
mod solver;
mod vectors;

use std::collections::BTreeMap;
use std::fmt;

use proptest::prelude::*;
use vcore::serde_json::json;
use vcore::{catch, hash64, pick_index, vensure, vfail, CaseResult, Ctx, Fail, Obs, Tier};

use refeq::{check_indices, decode, encode, EhParams, Instance, Reject};
use solver::{segment, solve, Solved};

// ---------------------------------------------------------------------------------------------
// Plumbing: environment, agreement assertion, tallies
// ---------------------------------------------------------------------------------------------

#[derive(Default)]
struct Tally {
    m: BTreeMap<&'static str, u64>,
}

impl Tally {
    fn add(&mut self, k: &'static str, n: u64) {
        *self.m.entry(k).or_default() += n;
    }
    fn get(&self, k: &'static str) -> u64 {
        self.m.get(k).copied().unwrap_or(0)
    }
    fn into_obs(self, mut obs: Obs) -> Obs {
        for (k, v) in self.m {
            obs = obs.count(k, v);
        }
        obs
    }
}

/// One (n, k, input, nonce) with the reference instance prepared (None = definition not evaluable).
struct Env {
    n: u32,
    k: u32,
    input: Vec<u8>,
    nonce: Vec<u8>,
    inst: Option<Instance>,
}

impl Env {
    fn new(n: u32, k: u32, input: &[u8], nonce: &[u8]) -> Env {
        let inst = EhParams::new(n, k).map(|p| Instance::new(p, input, nonce));
        Env {
            n,
            k,
            input: input.to_vec(),
            nonce: nonce.to_vec(),
            inst,
        }
    }
    fn p(&self) -> EhParams {
        self.inst.as_ref().expect("harness: reference parameters").p
    }
    fn ref_verify(&self, soln: &[u8]) -> Result<(), Reject> {
        let inst = self.inst.as_ref().ok_or(Reject::Params)?;
        let idx = decode(&inst.p, soln).ok_or(Reject::Length {
            got: soln.len(),
            want: inst.p.solution_len(),
        })?;
        check_indices(inst, &idx)
    }
    fn describe(&self, soln: &[u8]) -> String {
        format!(
            "n={} k={} input={} nonce={} soln={}",
            self.n,
            self.k,
            hex::encode(&self.input),
            hex::encode(&self.nonce),
            hex::encode(soln)
        )
    }
}

fn crate_kind(msg: &str) -> &'static str {
    if msg.ends_with("invalid parameters") {
        "crate:invalid-params"
    } else if msg.ends_with("invalid collision length between StepRows") {
        "crate:collision"
    } else if msg.ends_with("Index tree incorrectly ordered") {
        "crate:out-of-order"
    } else if msg.ends_with("duplicate indices") {
        "crate:duplicate"
    } else if msg.ends_with("root hash of tree is non-zero") {
        "crate:nonzero-root"
    } else {
        "crate:other-error"
    }
}

/// The code under test; a panic becomes `Err(panic text)`.
fn crate_verify(n: u32, k: u32, input: &[u8], nonce: &[u8], soln: &[u8]) -> Result<Result<(), String>, String> {
    catch(|| equihash::is_valid_solution(n, k, input, nonce, soln).map_err(|e| e.to_string()))
}

/// Asserts that the crate and the definition checker give the same accept/reject verdict.
/// Returns `true` when both accept.
fn agree(env: &Env, soln: &[u8], class: &'static str, t: &mut Tally) -> Result<bool, Fail> {
    let r = env.ref_verify(soln);
    let c = match crate_verify(env.n, env.k, &env.input, &env.nonce, soln) {
        Ok(c) => c,
        Err(p) => {
            return Err(Fail::new(
                "verify-panic",
                format!("is_valid_solution panicked ({p}) on [{class}] {}; reference says {r:?}", env.describe(soln)),
            ))
        }
    };
    t.add("evaluations", 1);
    match (c, r) {
        (Ok(()), Err(why)) => Err(Fail::new(
            "accepts-invalid",
            format!("is_valid_solution accepted, definition rejects ({why:?}) [{class}] {}", env.describe(soln)),
        )),
        (Err(e), Ok(())) => Err(Fail::new(
            "rejects-valid",
            format!("is_valid_solution rejected ({e}), definition accepts [{class}] {}", env.describe(soln)),
        )),
        (Ok(()), Ok(())) => {
            t.add("both-accept", 1);
            Ok(true)
        }
        (Err(e), Err(why)) => {
            t.add("both-reject", 1);
            t.add(why.class(), 1);
            t.add(crate_kind(&e), 1);
            Ok(false)
        }
    }
}

// ---------------------------------------------------------------------------------------------
// Cases derived from one valid solution, addressable by index
// ---------------------------------------------------------------------------------------------

fn canonicalize(idx: &mut [u32]) {
    if idx.len() < 2 {
        return;
    }
    let half = idx.len() / 2;
    {
        let (l, r) = idx.split_at_mut(half);
        canonicalize(l);
        canonicalize(r);
    }
    if idx[half] < idx[0] {
        let (l, r) = idx.split_at_mut(half);
        l.swap_with_slice(r);
    }
}

/// (level r in 1..=k, block w) of the t-th internal node, nodes listed level by level from the leaves' parents.
fn node_of(k: u32, mut t: u64) -> (u32, usize) {
    for r in 1..=k {
        let blocks = 1u64 << (k - r);
        if t < blocks {
            return (r, t as usize);
        }
        t -= blocks;
    }
    unreachable!("harness: node index out of range")
}

fn index_mutation_count(k: u32) -> u64 {
    let n = 1u64 << k;
    let swaps_nonsibling = if k >= 2 { 2 * n - 4 } else { 0 };
    3 * (n - 1) + n + swaps_nonsibling + k as u64 + 5
}

/// The j-th index-level mutation of a valid solution (decoded → mutated; the caller re-encodes).
fn index_mutation(sol: &[u32], k: u32, mut j: u64) -> (&'static str, Vec<u32>) {
    let n = sol.len() as u64;
    let mut m = sol.to_vec();
    let nodes = n - 1;
    // A: swap the two children of one node (ordering condition at that level).
    if j < nodes {
        let (r, w) = node_of(k, j);
        let half = 1usize << (r - 1);
        let s = w * 2 * half;
        let (a, b) = m[s..s + 2 * half].split_at_mut(half);
        a.swap_with_slice(b);
        return ("swap-siblings", m);
    }
    j -= nodes;
    // B: right child := copy of left child (XOR of the node becomes zero; only distinctness/ordering reject).
    if j < nodes {
        let (r, w) = node_of(k, j);
        let half = 1usize << (r - 1);
        let s = w * 2 * half;
        let left = m[s..s + half].to_vec();
        m[s + half..s + 2 * half].copy_from_slice(&left);
        return ("dup-right-from-left", m);
    }
    j -= nodes;
    // C: left child := copy of right child.
    if j < nodes {
        let (r, w) = node_of(k, j);
        let half = 1usize << (r - 1);
        let s = w * 2 * half;
        let right = m[s + half..s + 2 * half].to_vec();
        m[s..s + half].copy_from_slice(&right);
        return ("dup-left-from-right", m);
    }
    j -= nodes;
    // D: one index overwritten by its successor in the list.
    if j < n {
        let a = j as usize;
        m[a] = sol[(a + 1) % sol.len()];
        return ("dup-single-index", m);
    }
    j -= n;
    // F: swap two same-level subtrees that are not siblings (levels 0..=k-2).
    if k >= 2 {
        for r in 0..=k - 2 {
            let count = 1u64 << (k - r);
            if j < count {
                let w = 1usize << r;
                let a = j as usize;
                let b = ((j + 2) % count) as usize;
                for x in 0..w {
                    m.swap(a * w + x, b * w + x);
                }
                return ("swap-cousins", m);
            }
            j -= count;
        }
    }
    // G: the whole solution replaced by copies of its first 2^r-leaf subtree.
    if j < k as u64 {
        let w = 1usize << j;
        for x in 0..m.len() {
            m[x] = sol[x % w];
        }
        return ("collapse-to-copies", m);
    }
    j -= k as u64;
    match j {
        0 => {
            m.reverse();
            ("reverse", m)
        }
        1 => {
            m.sort_unstable();
            ("sort-ascending", m)
        }
        2 => {
            m.sort_unstable_by(|a, b| b.cmp(a));
            ("sort-descending", m)
        }
        3 => {
            m.rotate_left(1);
            ("rotate-one", m)
        }
        4 => {
            for p in m.chunks_mut(2) {
                p.swap(0, 1);
            }
            ("swap-every-leaf-pair", m)
        }
        _ => unreachable!("harness: mutation index out of range"),
    }
}

fn derived_count(env: &Env) -> u64 {
    let p = env.p();
    1 + 8 * (p.solution_len() + env.input.len() + env.nonce.len()) as u64 + index_mutation_count(p.k)
}

/// Case 0: completeness plus length / concatenation-boundary variants.
fn base_case(env: &Env, sol: &[u32], enc: &[u8], t: &mut Tally) -> Result<(), Fail> {
    let p = env.p();
    // Harness self-checks: the codec round-trips and the definition accepts the solution.
    vensure!(decode(&p, enc).as_deref() == Some(sol), "harness-codec", "harness codec does not round-trip {sol:?}");
    if let Err(why) = env.ref_verify(enc) {
        vfail!("harness-ref-rejects-solution", "definition checker rejects a supposedly valid solution ({why:?}): {}", env.describe(enc));
    }
    // Completeness.
    let ok = agree(env, enc, "valid-solution", t)?;
    vensure!(ok, "harness-ref-rejects-solution", "unreachable: agree() returned false after ref accepted");
    t.add("valid-solutions-accepted", 1);
    // Wrong lengths.
    agree(env, &enc[..enc.len() - 1], "truncated-by-one", t)?;
    agree(env, &enc[1..], "first-byte-dropped", t)?;
    let mut ext = enc.to_vec();
    ext.push(0);
    agree(env, &ext, "extended-by-zero-byte", t)?;
    let mut dbl = enc.to_vec();
    dbl.extend_from_slice(enc);
    agree(env, &dbl, "doubled", t)?;
    agree(env, &[], "empty", t)?;
    // The hash input is input ‖ nonce: moving the boundary keeps the solution valid; changing the
    // concatenation does not.
    if let Some((last, rest)) = env.input.split_last() {
        let mut nn = vec![*last];
        nn.extend_from_slice(&env.nonce);
        let e2 = Env::new(env.n, env.k, rest, &nn);
        vensure!(agree(&e2, enc, "boundary-moved-left", t)?, "harness-ref-rejects-solution", "moving the input/nonce boundary invalidated the solution in the reference");
        agree(&Env::new(env.n, env.k, rest, &env.nonce), enc, "input-truncated", t)?;
    }
    if let Some((first, rest)) = env.nonce.split_first() {
        let mut ii = env.input.clone();
        ii.push(*first);
        let e2 = Env::new(env.n, env.k, &ii, rest);
        vensure!(agree(&e2, enc, "boundary-moved-right", t)?, "harness-ref-rejects-solution", "moving the input/nonce boundary invalidated the solution in the reference");
        agree(&Env::new(env.n, env.k, &env.input, rest), enc, "nonce-first-byte-dropped", t)?;
    }
    agree(&Env::new(env.n, env.k, &env.nonce, &env.input), enc, "input-nonce-swapped", t)?;
    let mut nn = env.nonce.clone();
    nn.push(0);
    agree(&Env::new(env.n, env.k, &env.input, &nn), enc, "nonce-extended", t)?;
    // Same bytes under neighbouring parameters (personalisation binds n and k).
    for (n2, k2) in [(env.n, env.k + 1), (env.n + 8, env.k), (env.n, env.k.wrapping_sub(1))] {
        let e2 = Env::new(n2, k2, &env.input, &env.nonce);
        if e2.inst.is_some() && crate_documented_valid(n2, k2) && supported_region(n2, k2) == Region::Supported {
            agree(&e2, enc, "other-parameters", t)?;
        }
    }
    Ok(())
}

/// The j-th case derived from a valid solution (`j < derived_count(env)`).
fn derived_case(env: &Env, sol: &[u32], j: u64, t: &mut Tally) -> Result<(), Fail> {
    let p = env.p();
    let enc = encode(&p, sol);
    if j == 0 {
        return base_case(env, sol, &enc, t);
    }
    let mut j = j - 1;
    let sol_bits = 8 * enc.len() as u64;
    if j < sol_bits {
        let mut m = enc;
        m[(j / 8) as usize] ^= 1 << (j % 8);
        if agree(env, &m, "flip-solution-bit", t)? {
            t.add("flip-still-valid", 1);
        }
        t.add("flips-solution", 1);
        return Ok(());
    }
    j -= sol_bits;
    let in_bits = 8 * env.input.len() as u64;
    if j < in_bits {
        let mut i2 = env.input.clone();
        i2[(j / 8) as usize] ^= 1 << (j % 8);
        if agree(&Env::new(env.n, env.k, &i2, &env.nonce), &enc, "flip-input-bit", t)? {
            t.add("flip-still-valid", 1);
        }
        t.add("flips-input", 1);
        return Ok(());
    }
    j -= in_bits;
    let nonce_bits = 8 * env.nonce.len() as u64;
    if j < nonce_bits {
        let mut n2 = env.nonce.clone();
        n2[(j / 8) as usize] ^= 1 << (j % 8);
        if agree(&Env::new(env.n, env.k, &env.input, &n2), &enc, "flip-nonce-bit", t)? {
            t.add("flip-still-valid", 1);
        }
        t.add("flips-nonce", 1);
        return Ok(());
    }
    j -= nonce_bits;
    let (class, m) = index_mutation(sol, p.k, j);
    if agree(env, &encode(&p, &m), class, t)? {
        t.add("index-mutation-still-valid", 1);
    }
    t.add("index-mutations", 1);
    t.add(class, 1);
    Ok(())
}

const REPLACE_NAMES: [&str; 10] = [
    "replace-subtree-L0",
    "replace-subtree-L1",
    "replace-subtree-L2",
    "replace-subtree-L3",
    "replace-subtree-L4",
    "replace-subtree-L5",
    "replace-subtree-L6",
    "replace-subtree-L7",
    "replace-subtree-L8",
    "replace-subtree-L9",
];

/// Replace a level-r subtree by another tree from the solver's level-r table that collides with the
/// same sibling on segment r (r = 0: "another index with the same first collision segment").
fn replacement_cases(env: &Env, sol: &[u32], solved: &Solved, sel: &[u32], t: &mut Tally) -> Result<(), Fail> {
    let p = env.p();
    if p.k < 2 {
        return Ok(());
    }
    let x0 = &solved.tables[0].x;
    let mut si = 0usize;
    let mut next_sel = || {
        let s = sel[si % sel.len()].wrapping_add(((si / sel.len()) as u32).wrapping_mul(0x9e37_79b9));
        si += 1;
        s
    };
    for r in 0..=p.k - 2 {
        let tab = &solved.tables[r as usize];
        if tab.rows() == 0 {
            continue;
        }
        let w = tab.w;
        let count = sol.len() / w;
        let positions: Vec<usize> = if count <= 8 {
            (0..count).collect()
        } else {
            (0..4).map(|_| pick_index(next_sel(), count)).collect()
        };
        for pos in positions {
            let sib = pos ^ 1;
            let sib_leaves = &sol[sib * w..(sib + 1) * w];
            let mut orig = sol[pos * w..(pos + 1) * w].to_vec();
            canonicalize(&mut orig);
            let mut sib_canon = sib_leaves.to_vec();
            canonicalize(&mut sib_canon);
            let xs = sib_leaves.iter().fold(0u128, |a, i| a ^ x0[*i as usize]);
            let key = segment(&p, xs, r);
            let start = pick_index(next_sel(), tab.rows());
            let mut found = 0;
            for off in 0..tab.rows() {
                let row = (start + off) % tab.rows();
                if segment(&p, tab.x[row], r) != key {
                    continue;
                }
                let cand = tab.row(row);
                if cand == orig.as_slice() || cand == sib_canon.as_slice() {
                    continue;
                }
                // in place
                let mut m = sol.to_vec();
                m[pos * w..(pos + 1) * w].copy_from_slice(cand);
                let name = REPLACE_NAMES[(r as usize).min(9)];
                if agree(env, &encode(&p, &m), name, t)? {
                    t.add("replacement-still-valid", 1);
                }
                // re-ordered canonically, so that only collision / distinctness conditions can fail
                canonicalize(&mut m);
                if agree(env, &encode(&p, &m), name, t)? {
                    t.add("replacement-still-valid", 1);
                }
                t.add("replacements", 2);
                t.add(name, 2);
                found += 1;
                if found >= 3 {
                    break;
                }
            }
        }
    }
    Ok(())
}

// ---------------------------------------------------------------------------------------------
// Sub-check: repository vectors and a mainnet header
// ---------------------------------------------------------------------------------------------

struct VecSolution {
    n: u32,
    k: u32,
    input: &'static [u8],
    nonce: [u8; 32],
    indices: &'static [u32],
}

fn valid_vector_solutions() -> Vec<VecSolution> {
    let mut out = vec![];
    for tv in vectors::valid::VALID_TEST_VECTORS {
        for s in tv.solutions {
            out.push(VecSolution {
                n: tv.params.n,
                k: tv.params.k,
                input: tv.input,
                nonce: tv.nonce,
                indices: s,
            });
        }
    }
    out
}

fn header_bytes() -> Vec<u8> {
    hex::decode(vectors::HEADER_MAINNET_415000_HEX.concat()).expect("harness: header hex")
}

/// How `zcash_primitives::block::BlockHeader` supplies the Equihash instance: input = the header
/// fields before the nonce (108 bytes), nonce, solution.
fn header_env(raw: &[u8]) -> Option<(Env, Vec<u8>)> {
    let h = zcash_primitives::block::BlockHeader::read(raw).ok()?;
    let mut input = Vec::with_capacity(108);
    input.extend_from_slice(&h.version.to_le_bytes());
    input.extend_from_slice(&h.prev_block.0);
    input.extend_from_slice(&h.merkle_root);
    input.extend_from_slice(&h.final_sapling_root);
    input.extend_from_slice(&h.time.to_le_bytes());
    input.extend_from_slice(&h.bits.to_le_bytes());
    Some((Env::new(200, 9, &input, &h.nonce), h.solution.clone()))
}

fn run_vectors(ctx: &std::sync::Arc<Ctx>) {
    let sols = std::sync::Arc::new(valid_vector_solutions());
    // --- derived cases of every valid vector, one evaluation per enumeration index
    let mut offsets = vec![0u64];
    for s in sols.iter() {
        let env = Env::new(s.n, s.k, s.input, &s.nonce);
        offsets.push(offsets.last().unwrap() + derived_count(&env));
    }
    let total = *offsets.last().unwrap();
    let locate = {
        let offsets = offsets.clone();
        move |i: u64| -> (usize, u64) {
            let item = offsets.partition_point(|o| *o <= i) - 1;
            (item, i - offsets[item])
        }
    };
    {
        let sols = sols.clone();
        let sols2 = sols.clone();
        let locate2 = locate.clone();
        ctx.run_enum(
            "valid-vectors-derived",
            total,
            true,
            move |i| {
                let (item, j) = locate(i);
                let s = &sols[item];
                let env = Env::new(s.n, s.k, s.input, &s.nonce);
                let mut t = Tally::default();
                derived_case(&env, s.indices, j, &mut t)?;
                let obs = Obs::nontrivial()
                    .key(hash64(&[&(item as u64).to_le_bytes()[..], &j.to_le_bytes()[..]].concat()))
                    .label(match (s.n, s.k) {
                        (96, 5) => "n96k5",
                        (144, 5) => "n144k5",
                        (200, 9) => "n200k9",
                        _ => "other-params",
                    })
                    .label_if(j == 0, "completeness");
                Ok(t.into_obs(obs))
            },
            move |i| {
                let (item, j) = locate2(i);
                let s = &sols2[item];
                format!("valid vector solution #{item} (n={} k={} first index {}) derived case {j}", s.n, s.k, s.indices[0])
            },
        );
    }
    // --- invalid vectors: rejected by both, and for the reason class the vector names
    let inv = vectors::invalid::INVALID_TEST_VECTORS;
    ctx.run_enum(
        "invalid-vectors",
        inv.len() as u64,
        true,
        move |i| {
            let tv = &inv[i as usize];
            let env = Env::new(tv.params.n, tv.params.k, tv.input, &tv.nonce);
            let enc = encode(&env.p(), tv.solution);
            let mut t = Tally::default();
            let r = env.ref_verify(&enc);
            vensure!(r.is_err(), "harness-ref-accepts-invalid-vector", "definition checker accepts invalid vector #{i}");
            // The reference reports the first failing condition in its own order; the vector's kind must
            // be one the reference also recognises as violated for that class of vector.
            let why = r.unwrap_err();
            let compatible = match tv.error {
                vectors::Kind::Collision => matches!(why, Reject::Collision { .. }),
                vectors::Kind::OutOfOrder => matches!(why, Reject::Order { .. }),
                vectors::Kind::DuplicateIdxs => matches!(why, Reject::Duplicate { .. } | Reject::Order { .. }),
                vectors::Kind::NonZeroRootHash => matches!(why, Reject::NonZero { .. }),
                vectors::Kind::InvalidParams => matches!(why, Reject::Length { .. } | Reject::Params),
            };
            vensure!(compatible, "harness-ref-reason", "invalid vector #{i} expects {:?}, reference says {why:?}", tv.error);
            let both_accept = agree(&env, &enc, "invalid-vector", &mut t)?;
            vensure!(!both_accept, "harness-ref-accepts-invalid-vector", "unreachable");
            Ok(t.into_obs(Obs::nontrivial().key(0x1000 + i)))
        },
        move |i| format!("invalid vector #{i}: expected {:?}, indices {:?}", inv[i as usize].error, inv[i as usize].solution),
    );
    // --- mainnet header 415000: every single-bit flip of the serialized header, parsed by BlockHeader::read
    let raw = std::sync::Arc::new(header_bytes());
    let nbits = 8 * raw.len() as u64;
    {
        let raw = raw.clone();
        ctx.run_enum(
            "mainnet-header-bitflips",
            nbits + 1,
            true,
            move |i| {
                let mut b = (*raw).clone();
                if i > 0 {
                    let bit = i - 1;
                    b[(bit / 8) as usize] ^= 1 << (bit % 8);
                }
                let mut t = Tally::default();
                let Some((env, soln)) = header_env(&b) else {
                    return Ok(Obs::trivial().label("header-unparseable"));
                };
                let ok = agree(&env, &soln, if i == 0 { "mainnet-header" } else { "mainnet-header-bitflip" }, &mut t)?;
                if i == 0 {
                    vensure!(ok, "harness-ref-rejects-solution", "mainnet header 415000 is rejected by both the crate and the reference");
                    vensure!(env.input.len() == 108 && env.input[..] == raw[..108], "harness-header-input", "reconstructed Equihash input differs from the header prefix");
                }
                let region = match i {
                    0 => "unmodified",
                    x if x <= 108 * 8 => "flip-in-input",
                    x if x <= 140 * 8 => "flip-in-nonce",
                    x if x <= 143 * 8 => "flip-in-length-prefix",
                    _ => "flip-in-solution",
                };
                Ok(t.into_obs(Obs::nontrivial().key(0x2000 + i).label(region).label_if(ok, "accepted")))
            },
            |i| format!("mainnet header 415000 with bit {} flipped (0 = unmodified)", i as i64 - 1),
        );
    }
}

// ---------------------------------------------------------------------------------------------
// Sub-check: solver instances
// ---------------------------------------------------------------------------------------------

#[derive(Clone)]
struct InstCase {
    n: u32,
    k: u32,
    input: Vec<u8>,
    nonce: Vec<u8>,
    sel: Vec<u32>,
}

impl fmt::Debug for InstCase {
    fn fmt(&self, f: &mut fmt::Formatter<'_>) -> fmt::Result {
        write!(
            f,
            "InstCase {{ n: {}, k: {}, input: {}, nonce: {}, sel: {:?} }}",
            self.n,
            self.k,
            hex::encode(&self.input),
            hex::encode(&self.nonce),
            self.sel
        )
    }
}

fn param_label(n: u32, k: u32) -> &'static str {
    match (n, k) {
        (48, 5) => "n48k5(c8)",
        (40, 4) => "n40k4(c8)",
        (56, 6) => "n56k6(c8)",
        (72, 7) => "n72k7(c9)",
        (80, 7) => "n80k7(c10)",
        (88, 7) => "n88k7(c11)",
        (72, 5) => "n72k5(c12)",
        (96, 7) => "n96k7(c12)",
        (104, 7) => "n104k7(c13)",
        (56, 3) => "n56k3(c14)",
        (120, 7) => "n120k7(c15)",
        (64, 3) => "n64k3(c16)",
        (80, 4) => "n80k4(c16)",
        (96, 5) => "n96k5(c16)",
        (72, 3) => "n72k3(c18)",
        (120, 5) => "n120k5(c20)",
        (88, 3) => "n88k3(c22)",
        (96, 3) => "n96k3(c24)",
        _ => "other-params",
    }
}

/// (weight, n, k). Cost grows with 2^(n/(k+1)+1) solver rows and with 2^k hashes per verification.
fn instance_params(tier: Tier) -> Vec<(u32, u32, u32)> {
    let mut v = vec![
        (16, 48, 5),
        (8, 40, 4),
        (6, 56, 6),
        (1, 72, 7), // ~3000 nonces per solution: 128 distinct indices out of 1024
        (4, 80, 7),
        (4, 88, 7),
        (10, 72, 5),
        (4, 96, 7),
        (3, 104, 7),
        (6, 56, 3),
        (3, 120, 7),
        (5, 64, 3),
        (8, 80, 4),
        (12, 96, 5),
    ];
    if tier == Tier::Thorough {
        v.push((2, 72, 3));
        v.push((1, 120, 5));
    }
    v
}

fn arb_instance(params: Vec<(u32, u32, u32)>) -> impl Strategy<Value = InstCase> {
    let choices: Vec<(u32, BoxedStrategy<(u32, u32)>)> = params.into_iter().map(|(w, n, k)| (w, Just((n, k)).boxed())).collect();
    let input = prop_oneof![
        6 => proptest::collection::vec(any::<u8>(), 108..=108),
        1 => proptest::collection::vec(any::<u8>(), 0..=160),
        1 => Just(Vec::new()),
    ];
    let nonce = prop_oneof![
        6 => proptest::collection::vec(any::<u8>(), 32..=32),
        1 => proptest::collection::vec(any::<u8>(), 0..=40),
        1 => Just(Vec::new()),
    ];
    (
        proptest::strategy::Union::new_weighted(choices),
        input,
        nonce,
        proptest::collection::vec(any::<u32>(), 16..=16),
    )
        .prop_map(|((n, k), input, nonce, sel)| InstCase { n, k, input, nonce, sel })
}

/// Solves (bumping the nonce until the instance has a solution) and exercises every derived case.
fn check_instance(c: &InstCase) -> CaseResult {
    let p = EhParams::new(c.n, c.k).expect("harness: solver parameters");
    let mut nonce = c.nonce.clone();
    let mut found: Option<Solved> = None;
    let mut attempts = 0u64;
    // Small index spaces (2^k not << 2^(c+1)) lose most candidate trees to repeated indices, but are
    // cheap to solve: allow more nonces there. Fixed bounds, so the work is a function of the case.
    let max_attempts: u32 = if p.index_space() <= 4096 { 4096 } else { 32 };
    for attempt in 0..max_attempts {
        if attempt > 0 {
            if nonce.is_empty() {
                nonce.push(1);
            } else {
                // little-endian counter in the first two bytes (or one, if that is all there is)
                let (lo, carry) = nonce[0].overflowing_add(1);
                nonce[0] = lo;
                if carry && nonce.len() > 1 {
                    nonce[1] = nonce[1].wrapping_add(1);
                }
            }
        }
        attempts += 1;
        let inst = Instance::new(p, &c.input, &nonce);
        let s = solve(&inst, 3, false);
        if !s.solutions.is_empty() {
            found = Some(s);
            break;
        }
    }
    let Some(solved) = found else {
        return Ok(Obs::trivial().label("no-solution-found").count(param_label(c.n, c.k), attempts));
    };
    let env = Env::new(c.n, c.k, &c.input, &nonce);
    let mut t = Tally::default();
    t.add("solver-attempts", attempts);
    t.add(param_label(c.n, c.k), attempts);
    t.add("solutions-found", solved.solutions.len() as u64);
    for sol in solved.solutions.iter().take(3) {
        t.add("solutions-exercised", 1);
        for j in 0..derived_count(&env) {
            derived_case(&env, sol, j, &mut t)?;
        }
        replacement_cases(&env, sol, &solved, &c.sel, &mut t)?;
    }
    // Two different solutions of one instance spliced at the top level.
    if solved.solutions.len() >= 2 {
        let (a, b) = (&solved.solutions[0], &solved.solutions[1]);
        let half = a.len() / 2;
        let mut m = a[..half].to_vec();
        m.extend_from_slice(&b[half..]);
        agree(&env, &encode(&p, &m), "splice-two-solutions", &mut t)?;
        canonicalize(&mut m);
        agree(&env, &encode(&p, &m), "splice-two-solutions", &mut t)?;
        t.add("splices", 2);
    }
    // Trees that satisfy every collision and ordering condition but repeat an index somewhere (only
    // frequent when 2^k is not tiny against the index space, so only searched there).
    if p.index_space() <= 8192 {
        let pseudo = solve(&Instance::new(p, &c.input, &nonce), 0, true);
        for m in pseudo.solutions.iter().take(16) {
            let enc = encode(&p, m);
            match env.ref_verify(&enc) {
                Err(Reject::Duplicate { .. }) | Err(Reject::Order { .. }) => {}
                other => vfail!("harness-pseudo-solution", "overlap-solver tree is judged {other:?} by the reference: {}", env.describe(&enc)),
            }
            agree(&env, &enc, "repeated-index-pseudo-solution", &mut t)?;
            t.add("repeated-index-pseudo-solutions", 1);
            // repeated index that is not the first index of either top-level half
            let half = m.len() / 2;
            if m[0] != m[half] {
                t.add("repeated-index-not-at-first-position", 1);
            }
        }
    }
    // Complete trees whose two halves collide except inside one small bit window.
    for nm in &solved.near {
        let enc = encode(&p, &nm.indices);
        match env.ref_verify(&enc) {
            Err(Reject::NonZero { .. }) | Err(Reject::Collision { .. }) => {}
            other => vfail!("harness-near-miss", "solver near miss ({}) is judged {other:?} by the reference: {}", nm.window, env.describe(&enc)),
        }
        agree(&env, &enc, "near-miss", &mut t)?;
        t.add("near-misses", 1);
        t.add(
            match nm.window {
                "last-seg-low8" => "near-miss:last-seg-low8",
                "prev-seg-low8" => "near-miss:prev-seg-low8",
                "last-seg-high" => "near-miss:last-seg-high",
                _ => "near-miss:prev-seg-high",
            },
            1,
        );
    }
    let mut keyb = vec![];
    keyb.extend_from_slice(&c.n.to_le_bytes());
    keyb.extend_from_slice(&c.k.to_le_bytes());
    keyb.extend_from_slice(&(c.input.len() as u32).to_le_bytes());
    keyb.extend_from_slice(&c.input);
    keyb.extend_from_slice(&nonce);
    let derived = t.get("evaluations");
    t.add("derived-evaluations", derived);
    let obs = Obs::nontrivial()
        .key(hash64(&keyb))
        .label(param_label(c.n, c.k))
        .label_if(solved.solutions.len() >= 2, "multiple-solutions")
        .label_if(!solved.near.is_empty(), "has-near-miss")
        .label_if(solved.truncated, "solver-row-cap-hit")
        .label_if(c.input.len() != 108 || c.nonce.len() != 32, "non-header-lengths")
        .label_if(t.get("replacements") > 0, "has-replacement");
    Ok(t.into_obs(obs))
}

// ---------------------------------------------------------------------------------------------
// Sub-check: random byte strings of every length
// ---------------------------------------------------------------------------------------------

fn prg(seed: u64, tag: u64, len: usize) -> Vec<u8> {
    let mut out = Vec::with_capacity(len + 64);
    let mut ctr = 0u64;
    while out.len() < len {
        let mut st = blake2b_simd::Params::new().hash_length(64).personal(b"C19-harness-prg").to_state();
        st.update(&seed.to_le_bytes());
        st.update(&tag.to_le_bytes());
        st.update(&ctr.to_le_bytes());
        out.extend_from_slice(st.finalize().as_bytes());
        ctr += 1;
    }
    out.truncate(len);
    out
}

struct RbParam {
    n: u32,
    k: u32,
    input: Vec<u8>,
    nonce: Vec<u8>,
    /// A valid solution for (input, nonce), if the harness has one.
    valid: Option<Vec<u8>>,
}

#[derive(Clone, Copy)]
struct RbItem {
    param: usize,
    len: usize,
    class: u8,
    tag: u64,
}

const RB_CLASSES: u8 = 7;
const RB_EXTRA_AT_CORRECT_LEN: u64 = 400;

fn rb_setup() -> Vec<RbParam> {
    let mut out = vec![];
    let vs = valid_vector_solutions();
    for (n, k) in [(48u32, 5u32), (40, 4), (72, 5), (80, 7), (80, 4), (96, 5), (96, 3), (144, 5), (200, 9)] {
        let p = EhParams::new(n, k).expect("harness: rb params");
        if let Some(v) = vs.iter().find(|v| v.n == n && v.k == k) {
            out.push(RbParam {
                n,
                k,
                input: v.input.to_vec(),
                nonce: v.nonce.to_vec(),
                valid: Some(encode(&p, v.indices)),
            });
            continue;
        }
        let input = b"C19 random-bytes instance".to_vec();
        let mut valid = None;
        let mut nonce = vec![0u8; 32];
        if p.c <= 16 {
            for ctr in 0..64u8 {
                nonce[0] = ctr;
                let s = solve(&Instance::new(p, &input, &nonce), 0, false);
                if let Some(sol) = s.solutions.first() {
                    valid = Some(encode(&p, sol));
                    break;
                }
            }
        }
        out.push(RbParam { n, k, input, nonce, valid });
    }
    out
}

fn rb_items(params: &[RbParam], reps: u64) -> Vec<RbItem> {
    let mut items = vec![];
    let mut tag = 0u64;
    for (pi, rp) in params.iter().enumerate() {
        let want = EhParams::new(rp.n, rp.k).unwrap().solution_len();
        for len in 0..=2 * want + 8 {
            for class in 0..RB_CLASSES {
                for _ in 0..reps {
                    items.push(RbItem { param: pi, len, class, tag });
                    tag += 1;
                }
            }
        }
        for e in 0..RB_EXTRA_AT_CORRECT_LEN * reps {
            items.push(RbItem {
                param: pi,
                len: want,
                class: [0u8, 5, 6][(e % 3) as usize],
                tag,
            });
            tag += 1;
        }
    }
    items
}

fn rb_bytes(seed: u64, rp: &RbParam, it: &RbItem) -> (Vec<u8>, &'static str, bool) {
    let p = EhParams::new(rp.n, rp.k).unwrap();
    match it.class {
        0 => (prg(seed, it.tag, it.len), "uniform", false),
        1 => (vec![0u8; it.len], "all-zero", false),
        2 => (vec![0xffu8; it.len], "all-ff", false),
        3 => {
            // ascending indices 0,1,2,..: ordered and distinct, truncated / zero-extended to the length
            let idx: Vec<u32> = (0..p.num_indices() as u64).map(|i| (i % p.index_space()) as u32).collect();
            let mut b = encode(&p, &idx);
            b.resize(it.len, 0);
            (b, "ascending-indices", false)
        }
        4 => match &rp.valid {
            // a valid solution truncated or extended with random bytes to this length
            Some(v) => {
                let mut b = v.clone();
                if it.len <= b.len() {
                    b.truncate(it.len);
                } else {
                    let tail = prg(seed, it.tag, it.len - b.len());
                    b.extend_from_slice(&tail);
                }
                (b, "valid-resized", true)
            }
            None => (prg(seed, it.tag ^ (1 << 40), it.len), "uniform", false),
        },
        5 => {
            // random distinct-ish indices arranged in canonical order: passes every ordering condition,
            // so the collision checks decide
            let raw = prg(seed, it.tag, 4 * p.num_indices());
            let mut idx: Vec<u32> = raw.chunks(4).map(|c| (u32::from_le_bytes(c.try_into().unwrap()) as u64 % p.index_space()) as u32).collect();
            canonicalize(&mut idx);
            let mut b = encode(&p, &idx);
            b.resize(it.len, 0);
            (b, "random-canonical-order", false)
        }
        _ => match &rp.valid {
            // a valid solution with one random byte overwritten
            Some(v) if it.len == v.len() => {
                let mut b = v.clone();
                let r = prg(seed, it.tag, 5);
                let pos = pick_index(u32::from_le_bytes(r[..4].try_into().unwrap()), b.len());
                b[pos] = r[4];
                (b, "valid-one-byte-overwritten", true)
            }
            _ => (prg(seed, it.tag ^ (1 << 41), it.len), "uniform", false),
        },
    }
}

// ---------------------------------------------------------------------------------------------
// Sub-check: parameter grid
// ---------------------------------------------------------------------------------------------

/// The validity conditions the crate states for (n, k) (`Params::new`: "n is a multiple of 8, k >= 3,
/// k < n, n is a multiple of k + 1").
fn crate_documented_valid(n: u32, k: u32) -> bool {
    n % 8 == 0 && k >= 3 && k < n && n % (k + 1) == 0
}

#[derive(Clone, Copy, PartialEq, Eq, Debug)]
enum Region {
    /// 8 <= n/(k+1) <= 24 and n <= 512: everything the implementation can actually evaluate.
    Supported,
    /// n/(k+1) < 8.
    CollisionBitsBelow8,
    /// 25 <= n/(k+1) <= 31: indices fit 32 bits (the documented limit) but the bit unpacker refuses.
    CollisionBits25To31,
    /// n/(k+1) >= 32: indices wider than 32 bits (documented as unsupported by the crate docs).
    IndexWiderThan32Bits,
    /// n > 512 (no n-bit chunk fits a BLAKE2b output), with 8 <= n/(k+1) <= 24.
    NOver512,
}

/// Only meaningful for `crate_documented_valid` pairs.
fn supported_region(n: u32, k: u32) -> Region {
    let c = n / (k + 1);
    if c < 8 {
        Region::CollisionBitsBelow8
    } else if c >= 32 {
        Region::IndexWiderThan32Bits
    } else if c >= 25 {
        Region::CollisionBits25To31
    } else if n > 512 {
        Region::NOver512
    } else {
        Region::Supported
    }
}

fn grid_expected_len(n: u32, k: u32) -> u64 {
    let c = (n / (k + 1)) as u64;
    ((1u64 << k) * (c + 1)) / 8
}

const GRID_N: u64 = 67; // 0, 8, ..., 528
const GRID_K: u64 = 17; // 0..=16
const GRID_LENS: u64 = 6;
const GRID_FILLS: u64 = 4;

fn grid_case(seed: u64, i: u64) -> (u32, u32, Vec<u8>, &'static str) {
    let fill = i % GRID_FILLS;
    let lsel = (i / GRID_FILLS) % GRID_LENS;
    let k = ((i / GRID_FILLS / GRID_LENS) % GRID_K) as u32;
    let n = ((i / GRID_FILLS / GRID_LENS / GRID_K) * 8) as u32;
    let want = grid_expected_len(n, k);
    let (len, lname) = match lsel {
        0 => (want, "correct-length"),
        1 => (0, "length-0"),
        2 => (want.saturating_sub(1), "length-minus-1"),
        3 => (want + 1, "length-plus-1"),
        4 => (1, "length-1"),
        _ => (2 * want, "length-doubled"),
    };
    let len = len as usize;
    let bytes = match fill {
        0 => vec![0u8; len],
        1 => vec![0xffu8; len],
        2 => prg(seed, i, len),
        _ => match EhParams::new(n, k) {
            Some(p) if len == p.solution_len() => {
                let idx: Vec<u32> = (0..p.num_indices() as u64).map(|x| (x % p.index_space()) as u32).collect();
                encode(&p, &idx)
            }
            _ => prg(seed, i ^ (1 << 50), len),
        },
    };
    (n, k, bytes, lname)
}

fn check_params_case(n: u32, k: u32, input: &[u8], nonce: &[u8], soln: &[u8], lname: &'static str) -> CaseResult {
    let want = grid_expected_len(n, k);
    let docvalid = crate_documented_valid(n, k);
    let got = crate_verify(n, k, input, nonce, soln);
    let ctx_s = || format!("is_valid_solution(n={n}, k={k}, input {} bytes, nonce {} bytes, soln {} bytes [{lname}; correct length would be {want}])", input.len(), nonce.len(), soln.len());
    if !docvalid {
        return match got {
            Ok(Err(_)) => Ok(Obs::trivial().label("invalid-params-err").label(lname)),
            Ok(Ok(())) => Err(Fail::new("accepts-invalid-params", format!("{} returned Ok for parameters the crate defines as invalid", ctx_s()))),
            Err(p) => Err(Fail::new("panic-invalid-params", format!("{} panicked for invalid parameters: {p}", ctx_s()))),
        };
    }
    let region = supported_region(n, k);
    let rlabel = match region {
        Region::Supported => "valid-params-supported",
        Region::CollisionBitsBelow8 => "valid-params-collision-bits<8",
        Region::CollisionBits25To31 => "valid-params-collision-bits-25..31",
        Region::IndexWiderThan32Bits => "valid-params-index>32bits",
        Region::NOver512 => "valid-params-n>512",
    };
    match got {
        Err(p) => {
            let sig = match region {
                Region::Supported => "panic-supported-params",
                Region::CollisionBitsBelow8 => "panic-collision-bits-below-8",
                Region::CollisionBits25To31 => "panic-collision-bits-25-to-31",
                Region::IndexWiderThan32Bits => "panic-index-wider-than-32-bits",
                Region::NOver512 => "panic-n-over-512",
            };
            Err(Fail::new(sig, format!("{} panicked instead of returning Err: {p}", ctx_s())))
        }
        Ok(c) => {
            if soln.len() as u64 != want {
                vensure!(c.is_err(), "accepts-wrong-length", "{} returned Ok", ctx_s());
                return Ok(Obs::trivial().label(rlabel).label(lname));
            }
            let env = Env::new(n, k, input, nonce);
            if env.inst.is_some() {
                let r = env.ref_verify(soln);
                match (&c, &r) {
                    (Ok(()), Err(why)) => vfail!("accepts-invalid", "{} accepted, definition rejects ({why:?}); soln={}", ctx_s(), hex::encode(soln)),
                    (Err(e), Ok(())) => vfail!("rejects-valid", "{} rejected ({e}), definition accepts; soln={}", ctx_s(), hex::encode(soln)),
                    _ => {}
                }
            } else {
                vensure!(c.is_err(), "accepts-unsupported-params", "{} returned Ok although the instance is not evaluable", ctx_s());
            }
            Ok(Obs::trivial().label(rlabel).label(lname).label("correct-length-evaluated"))
        }
    }
}

// ---------------------------------------------------------------------------------------------

fn main() {
    let ctx = Ctx::from_args("C19", "exploration");
    ctx.set_rule(
        "Valid solutions come from (a) an independent Wagner solver on proptest-generated (input, nonce) for \
         (n,k) with collision widths 8..16 bits (thorough: up to 24), all solutions per instance, (b) the crate's \
         valid vectors for (96,5),(144,5),(200,9), (c) mainnet header 415000 parsed by BlockHeader::read. From each \
         valid solution: every single-bit flip of solution, input and nonce; length and concatenation-boundary \
         variants; every sibling swap, child duplication, cousin swap, collapse-to-copies and global permutation; \
         subtree replacements from the solver tables that keep lower-level collisions; near misses whose final XOR \
         differs in one byte-sized window. Oracle = definition checker from spec 7.6.1; assertion = same \
         accept/reject verdict (completeness asserted on unmodified solutions). Non-trivial = a case derived from \
         a valid solution (the solution itself or a mutation of it); distinct = hash of (n,k,input,nonce) for \
         solver instances, (solution, mutation index) for enumerations. Random byte strings of every length \
         0..=2*expected+8 and the (n,k) grid n in {0,8..528} x k in 0..=16 x 6 lengths x 4 fills are trivial by this \
         rule except those built from a valid solution.",
    );
    ctx.assume("blake2b_simd (shared primitive) implements BLAKE2b with personalisation correctly");
    ctx.assume("the definition of validity is protocol spec 7.6.1 plus pairwise-distinct indices (as the property states); the reference was validated against all valid and invalid vectors of the crate and a mainnet header");
    ctx.assume("(n,k) validity as the crate states it in Params::new: n % 8 == 0, k >= 3, k < n, n % (k+1) == 0; the crate docs add the limit of 32-bit row indices");
    let tier = ctx.tier;
    let seed = ctx.seed;

    // Sensitivity experiments only: C19_ONLY=<group>[,<group>] restricts the run to some of the groups
    // vectors | solver | random-bytes | grid (recorded in the evidence; unset in normal runs).
    let only = std::env::var("C19_ONLY").ok().filter(|s| !s.is_empty());
    let want = |g: &str| only.as_deref().map_or(true, |o| o.split(',').any(|x| x == g));
    if let Some(o) = &only {
        ctx.extra("restricted_to_groups", json!(o));
    }

    // 1. vectors + header
    if want("vectors") {
        run_vectors(&ctx);
    }

    // 2. solver instances
    if want("solver") {
        let params = instance_params(tier);
        ctx.extra("solver_parameters", json!(params.iter().map(|(w, n, k)| json!({"n": n, "k": k, "weight": w})).collect::<Vec<_>>()));
        let cases = tier.pick(2_000, 20_000);
        ctx.run_prop_with("solver-instances", move || arb_instance(params.clone()), cases, 4, check_instance);
        ctx.require_label_fraction("solver-instances", "has-near-miss", 0.5);
        ctx.require_label_fraction("solver-instances", "has-replacement", 0.5);
        ctx.require_min_count("solver-instances", "solutions-exercised", cases / 2);
        ctx.require_min_count("solver-instances", "derived-evaluations", tier.pick(30_000, 1_000_000));
        ctx.require_min_count("solver-instances", "repeated-index-not-at-first-position", tier.pick(50, 1000));
        ctx.require_min_count("solver-instances", "crate:collision", 1000);
        ctx.require_min_count("solver-instances", "crate:out-of-order", 1000);
        ctx.require_min_count("solver-instances", "crate:duplicate", 1000);
        ctx.require_min_count("solver-instances", "crate:nonzero-root", 100);
        if tier == Tier::Thorough {
            // memory-heavy parameters, one worker each
            for (name, n, k, cases) in [("solver-heavy-n88k3", 88u32, 3u32, 2u64), ("solver-heavy-n96k3", 96, 3, 1)] {
                ctx.run_prop_with(name, move || arb_instance(vec![(1, n, k)]), cases, 0, check_instance);
                ctx.require_min_count(name, "solutions-exercised", 1);
            }
        }
    }

    // 3. random bytes of every length
    if want("random-bytes") {
        let params = std::sync::Arc::new(rb_setup());
        let items = std::sync::Arc::new(rb_items(&params, tier.pick(1, 12)));
        let (p2, i2) = (params.clone(), items.clone());
        ctx.run_enum(
            "random-bytes-every-length",
            items.len() as u64,
            false,
            move |i| {
                let it = &items[i as usize];
                let rp = &params[it.param];
                let (bytes, class, derived) = rb_bytes(seed, rp, it);
                let env = Env::new(rp.n, rp.k, &rp.input, &rp.nonce);
                let mut t = Tally::default();
                let ok = agree(&env, &bytes, class, &mut t)?;
                let want = env.p().solution_len();
                Ok(t.into_obs(
                    Obs::new(derived)
                        .key(hash64(&[&i.to_le_bytes()[..], &bytes[..]].concat()))
                        .label(class)
                        .label_if(bytes.len() == want, "correct-length")
                        .label_if(bytes.len() < want, "too-short")
                        .label_if(bytes.len() > want, "too-long")
                        .label_if(ok, "accepted"),
                ))
            },
            move |i| {
                let it = &i2[i as usize];
                let rp = &p2[it.param];
                let (bytes, class, _) = rb_bytes(seed, rp, it);
                format!("n={} k={} class={class} len={} soln={}", rp.n, rp.k, it.len, hex::encode(bytes))
            },
        );
        ctx.require_min_count("random-bytes-every-length", "crate:collision", 1000);
        ctx.require_min_count("random-bytes-every-length", "crate:invalid-params", 1000);
    }

    // 4. parameter grid (+ one hand-picked pair beyond it: n > 512 with a 24-bit collision width)
    if want("grid") {
        let total = GRID_N * GRID_K * GRID_LENS * GRID_FILLS;
        // first (lowest enumeration index) example and count per failure signature, for the evidence file
        let examples: std::sync::Arc<std::sync::Mutex<BTreeMap<String, (u64, u64, String)>>> = Default::default();
        let ex2 = examples.clone();
        ctx.run_enum(
            "parameter-grid",
            total + 2,
            true,
            move |i| {
                let r = if i >= total {
                    // (528, 21): Params::new accepts it, indices are 25 bits, but 512 / n == 0.
                    let len = grid_expected_len(528, 21) as usize;
                    let soln = if i == total { vec![0u8; len] } else { prg(seed, i, len) };
                    check_params_case(528, 21, b"block header", &[0u8; 32], &soln, "correct-length")
                } else {
                    let (n, k, bytes, lname) = grid_case(seed, i);
                    check_params_case(n, k, b"block header", &[0u8; 32], &bytes, lname)
                };
                if let Err(f) = &r {
                    let mut m = ex2.lock().unwrap();
                    let e = m.entry(f.signature.clone()).or_insert((u64::MAX, 0, String::new()));
                    e.1 += 1;
                    if i < e.0 {
                        e.0 = i;
                        e.2 = f.msg.clone();
                    }
                }
                r
            },
            move |i| {
                if i >= total {
                    return format!("n=528 k=21 soln = {} bytes ({})", grid_expected_len(528, 21), if i == total { "zero" } else { "pseudo-random" });
                }
                let (n, k, bytes, lname) = grid_case(seed, i);
                let shown = if bytes.len() <= 64 { hex::encode(&bytes) } else { format!("{}… ({} bytes, fill {})", hex::encode(&bytes[..32]), bytes.len(), i % GRID_FILLS) };
                format!("n={n} k={k} {lname} soln={shown}")
            },
        );
        let ex = examples.lock().unwrap();
        ctx.extra(
            "parameter_grid_failures",
            json!(ex.iter().map(|(sig, (i, count, msg))| json!({"signature": sig, "count": count, "first_index": i, "first_example": msg})).collect::<Vec<_>>()),
        );
        drop(ex);
        ctx.require_min_count("parameter-grid", "invalid-params-err", 10_000);
        ctx.require_min_count("parameter-grid", "correct-length-evaluated", 100);
    }

    // coverage-guided byte-level campaign (libFuzzer target `equihash_verify`, oracle inside the target)
    ctx.run_fuzz("equihash_verify", ctx.tier.pick(500_000, 10_000_000), ctx.tier.pick(4, 16), 2048);
    ctx.finish();
}

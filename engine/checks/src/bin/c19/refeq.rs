//! Reference model for C19: a *definition checker* for Equihash solutions, written from the Zcash
//! protocol specification §7.6.1 ("Equihash"). It shares nothing with the `equihash` crate except
//! the BLAKE2b primitive (`blake2b_simd`).
//!
//! Spec text this follows (indices here are 0-based, i.e. the spec's `i - 1`):
//!
//! * `powtag  := "ZcashPoW" ‖ I2LEOSP_32(n) ‖ I2LEOSP_32(k)`
//! * `m := floor(512 / n)`; `EquihashGen_{n,k}(S, i) := T[h+1 .. h+n]` where `h = (i mod m)·n` and
//!   `T := BLAKE2b-(n·m)(powtag, S ‖ I2LEOSP_32(floor(i / m)))`, the hash bytes read as a big-endian
//!   bit sequence. `S` is the header without the solution = `input ‖ nonce`.
//! * A solution is a sequence of `2^k` indices, each of `n/(k+1) + 1` bits, concatenated as a
//!   big-endian bit string (hence `2^k·(n/(k+1)+1)/8` bytes) such that, with `X_j := EquihashGen(S, i_j)`:
//!   - *Generalized birthday condition*: `X_1 ⊕ … ⊕ X_{2^k} = 0`;
//!   - *Algorithm binding*: for every `r ∈ 1..k-1` and every aligned block of `2^r` consecutive indices
//!     the XOR of their `X` has `r·n/(k+1)` leading zero bits; for every `r ∈ 1..k` and every aligned
//!     block, the first half of the block's index sequence is lexicographically smaller than the
//!     second half;
//!   - the indices are pairwise distinct.
//!
//! The checker works on whole-width `n`-bit values (no trimming of already-collided segments, no
//! byte expansion of segments) and counts leading zero *bits*.

use blake2b_simd::{Params as B2Params, State as B2State};

/// Parameters on which the definition is meaningful and which this reference can evaluate.
#[derive(Clone, Copy, Debug, PartialEq, Eq)]
pub struct EhParams {
    pub n: u32,
    pub k: u32,
    /// Collision segment length `n/(k+1)` in bits.
    pub c: u32,
    /// `floor(512/n)`: number of n-bit chunks taken from one BLAKE2b output.
    pub m: u32,
}

impl EhParams {
    pub fn new(n: u32, k: u32) -> Option<Self> {
        // n-bit chunks must be whole bytes of a BLAKE2b output of at most 64 bytes.
        if n == 0 || n % 8 != 0 || n > 512 {
            return None;
        }
        if k == 0 || k > 24 || n % (k + 1) != 0 {
            return None;
        }
        let c = n / (k + 1);
        // This reference holds indices in u32.
        if c + 1 > 32 {
            return None;
        }
        // The encoded solution must be a whole number of bytes.
        if ((1u64 << k) * (c as u64 + 1)) % 8 != 0 {
            return None;
        }
        Some(EhParams { n, k, c, m: 512 / n })
    }
    pub fn index_bits(&self) -> u32 {
        self.c + 1
    }
    pub fn num_indices(&self) -> usize {
        1usize << self.k
    }
    pub fn solution_len(&self) -> usize {
        (self.num_indices() * self.index_bits() as usize) / 8
    }
    /// Number of distinct index values `2^(c+1)`.
    pub fn index_space(&self) -> u64 {
        1u64 << self.index_bits()
    }
}

/// An n-bit value, big-endian, in the first `n/8` bytes.
#[derive(Clone, Copy)]
pub struct X {
    pub b: [u8; 64],
}

impl X {
    fn xor(&self, o: &X) -> X {
        let mut r = [0u8; 64];
        for i in 0..64 {
            r[i] = self.b[i] ^ o.b[i];
        }
        X { b: r }
    }
    /// Leading zero bits within the first `nbytes` bytes.
    fn leading_zero_bits(&self, nbytes: usize) -> u32 {
        let mut z = 0u32;
        for i in 0..nbytes {
            if self.b[i] == 0 {
                z += 8;
            } else {
                return z + self.b[i].leading_zeros();
            }
        }
        z
    }
}

/// One proof-of-work instance: parameters and the hash state after `input ‖ nonce`.
pub struct Instance {
    pub p: EhParams,
    base: B2State,
}

impl Instance {
    pub fn new(p: EhParams, input: &[u8], nonce: &[u8]) -> Self {
        let mut personal = [0u8; 16];
        personal[..8].copy_from_slice(b"ZcashPoW");
        personal[8..12].copy_from_slice(&p.n.to_le_bytes());
        personal[12..16].copy_from_slice(&p.k.to_le_bytes());
        let mut base = B2Params::new()
            .hash_length((p.m * p.n / 8) as usize)
            .personal(&personal)
            .to_state();
        base.update(input);
        base.update(nonce);
        Instance { p, base }
    }

    /// BLAKE2b output number `g` (covers indices `g·m .. g·m + m`).
    pub fn digest(&self, g: u32) -> blake2b_simd::Hash {
        let mut s = self.base.clone();
        s.update(&g.to_le_bytes());
        s.finalize()
    }

    /// `EquihashGen(S, i)` for a 0-based index.
    pub fn x(&self, i: u32) -> X {
        let nb = (self.p.n / 8) as usize;
        let h = self.digest(i / self.p.m);
        let j = (i % self.p.m) as usize;
        let mut b = [0u8; 64];
        b[..nb].copy_from_slice(&h.as_bytes()[j * nb..(j + 1) * nb]);
        X { b }
    }
}

#[derive(Clone, Debug, PartialEq, Eq)]
pub enum Reject {
    /// The definition is not evaluable for these parameters.
    Params,
    Length { got: usize, want: usize },
    /// XOR of an aligned block of `2^level` indices lacks the required leading zeros.
    Collision { level: u32, block: usize, zeros: u32, need: u32 },
    /// First half of an aligned block of `2^level` indices is not lexicographically smaller.
    Order { level: u32, block: usize },
    Duplicate { index: u32 },
    /// All binding conditions hold but the total XOR is not zero.
    NonZero { zeros: u32 },
}

impl Reject {
    pub fn class(&self) -> &'static str {
        match self {
            Reject::Params => "ref:params",
            Reject::Length { .. } => "ref:length",
            Reject::Collision { .. } => "ref:collision",
            Reject::Order { .. } => "ref:order",
            Reject::Duplicate { .. } => "ref:duplicate",
            Reject::NonZero { .. } => "ref:nonzero",
        }
    }
}

/// Big-endian bit unpacking of `2^k` indices of `c+1` bits. `None` if the length is wrong.
pub fn decode(p: &EhParams, soln: &[u8]) -> Option<Vec<u32>> {
    if soln.len() != p.solution_len() {
        return None;
    }
    let w = p.index_bits() as usize;
    let mut out = Vec::with_capacity(p.num_indices());
    let mut bitpos = 0usize;
    for _ in 0..p.num_indices() {
        let mut v: u32 = 0;
        for _ in 0..w {
            let bit = (soln[bitpos / 8] >> (7 - bitpos % 8)) & 1;
            v = (v << 1) | bit as u32;
            bitpos += 1;
        }
        out.push(v);
    }
    Some(out)
}

/// Big-endian bit packing; every index must be `< 2^(c+1)`, and `indices.len()·(c+1)` a multiple of 8.
pub fn encode(p: &EhParams, indices: &[u32]) -> Vec<u8> {
    let w = p.index_bits() as usize;
    let total = indices.len() * w;
    assert!(total % 8 == 0, "harness: index list does not pack to whole bytes");
    let mut out = vec![0u8; total / 8];
    let mut bitpos = 0usize;
    for &i in indices {
        assert!((i as u64) < p.index_space(), "harness: index {i} does not fit {w} bits");
        for b in (0..w).rev() {
            if (i >> b) & 1 == 1 {
                out[bitpos / 8] |= 1 << (7 - bitpos % 8);
            }
            bitpos += 1;
        }
    }
    out
}

/// The definition, on a decoded index sequence of length `2^k`.
pub fn check_indices(inst: &Instance, idx: &[u32]) -> Result<(), Reject> {
    let p = &inst.p;
    assert_eq!(idx.len(), p.num_indices());
    let nb = (p.n / 8) as usize;
    let mut cur: Vec<X> = idx.iter().map(|&i| inst.x(i)).collect();
    let mut nonzero: Option<Reject> = None;
    for r in 1..=p.k {
        let half = 1usize << (r - 1);
        let mut next = Vec::with_capacity(cur.len() / 2);
        for w in 0..cur.len() / 2 {
            let x = cur[2 * w].xor(&cur[2 * w + 1]);
            let zeros = x.leading_zero_bits(nb);
            if r < p.k {
                let need = r * p.c;
                if zeros < need {
                    return Err(Reject::Collision { level: r, block: w, zeros, need });
                }
            } else if zeros < p.n {
                // Generalized birthday condition. Distinguish "collides on segment k but the last
                // segment is non-zero" for the histogram only.
                if zeros < p.k * p.c {
                    return Err(Reject::Collision { level: r, block: w, zeros, need: p.n });
                }
                nonzero = Some(Reject::NonZero { zeros });
            }
            let start = w * 2 * half;
            let (left, right) = (&idx[start..start + half], &idx[start + half..start + 2 * half]);
            // Lexicographic comparison of the index sequences (slice ordering is lexicographic).
            if !(left < right) {
                return Err(Reject::Order { level: r, block: w });
            }
            next.push(x);
        }
        cur = next;
    }
    let mut sorted = idx.to_vec();
    sorted.sort_unstable();
    for w in sorted.windows(2) {
        if w[0] == w[1] {
            return Err(Reject::Duplicate { index: w[0] });
        }
    }
    match nonzero {
        Some(r) => Err(r),
        None => Ok(()),
    }
}

/// The definition, on the byte encoding.
pub fn ref_verify(n: u32, k: u32, input: &[u8], nonce: &[u8], soln: &[u8]) -> Result<(), Reject> {
    let p = EhParams::new(n, k).ok_or(Reject::Params)?;
    let idx = decode(&p, soln).ok_or(Reject::Length {
        got: soln.len(),
        want: p.solution_len(),
    })?;
    let inst = Instance::new(p, input, nonce);
    check_indices(&inst, &idx)
}
